(* GenAgreeDimensionShim: the members of _ElementIdShim, as generated from src/cr/cube/dimension.py
   (Gen/DimensionSrc.v), ARE the definitions of Model/Shim.v the theorems of C19 are about - for ALL dimension
   dicts whose "type"."elements" is a list of element dicts with identifier ids / sub-variable ids / aliases.

     item_of el        an element dict of result.dimensions[i].type.elements as the model's [item]
     adim_of t dd      the dimension dict dd of a dimension of type t as the model's [adim]
     conv r            a result of the model (Shim.res) in the exception monad of the generated text *)
From Coq Require Import List ZArith String Bool Lia Arith.
From CC Require Import Base.XQ Base.Ident Base.PyList Base.PyDict Model.DimType Model.PyDimension Gen.DimensionSrc
  Proofs.GenAgreeDimensionLib Proofs.GenAgreeDimensionSubtotal.
From CC Require Model.Shim.
Import ListNotations.
Local Close Scope Q_scope.
Local Open Scope Z_scope.

(* --- abstraction --------------------------------------------------------------------------------------- *)
Definition opt_ident (o : option jv) : option (option ident) :=
  match o with None => Some None | Some v => option_map Some (ident_of_jv v) end.

Definition item_of (el : jv) : option Shim.item :=
  match el with
  | JDict e =>
      match option_map ident_of_jv (jd_get e (JStr "id")) with
      | Some (Some eid) =>
          let missing := jv_truthy (jd_get_default e (JStr "missing") JNone) in
          match jd_get e (JStr "value") with
          | None => Some (Shim.mk_item eid None None false missing)
          | Some (JDict v) =>
              match jd_get_default v (JStr "references") (JDict []) with
              | JDict r =>
                  match opt_ident (jd_get v (JStr "id")), opt_ident (jd_get r (JStr "alias")) with
                  | Some sv, Some al => Some (Shim.mk_item eid sv al (jd_mem r (JStr "anchor")) missing)
                  | _, _ => None
                  end
              | _ => None
              end
          | Some _ => None
          end
      | _ => None
      end
  | _ => None
  end.

Definition has_value (el : jv) : bool :=
  match el with JDict e => jd_mem e (JStr "value") | _ => false end.

Definition elements_of (dd : jdict) : option (list jv) :=
  match jd_get dd (JStr "type") with
  | Some (JDict ty) => match jd_get ty (JStr "elements") with Some (JList els) => Some els | _ => None end
  | _ => None
  end.

Definition or_empty (v : jv) : jv := if jv_truthy v then v else JDict [].

(* _has_mr_insertion *)
Definition mr_ins_of (t : dtype) (dd : jdict) : option bool :=
  if dtype_eqb t TMrSubvar then
    match or_empty (jd_get_default dd (JStr "references") JNone) with
    | JDict refs =>
        match or_empty (jd_get_default refs (JStr "view") JNone) with
        | JDict view =>
            match jd_get_default view (JStr "transform") (JDict []) with
            | JDict tf => Some (jv_truthy (jd_get_default tf (JStr "insertions") (JList [])))
            | _ => None
            end
        | _ => None
        end
    | _ => None
    end
  else Some false.

Fixpoint items_of (els : list jv) : option (list Shim.item) :=
  match els with
  | [] => Some []
  | el :: t => match item_of el, items_of t with
               | Some it, Some r => Some (it :: r)
               | _, _ => None
               end
  end.

Definition adim_of (t : dtype) (dd : jdict) : option Shim.adim :=
  match elements_of dd, mr_ins_of t dd with
  | Some els, Some mr =>
      match items_of els with
      | Some its => if negb mr || forallb has_value els then Some (Shim.mk_adim its mr) else None
      | None => None
      end
  | _, _ => None
  end.

Definition conv {A} (g : A -> jv) (r : Shim.res A) : res jv :=
  match r with
  | Shim.Ok a => Ok (g a)
  | Shim.Raise Shim.TypeErr => Err TypeError
  | Shim.Raise Shim.ValueErr => Err ValueError
  end.

Definition abs_item (el : jv) (it : Shim.item) : Prop := item_of el = Some it.

Lemma items_of_forall2 els its : items_of els = Some its -> Forall2 abs_item els its.
Proof.
  revert its. induction els as [|el t IH]; intros its H; simpl in H.
  - inversion H. constructor.
  - destruct (item_of el) as [it|] eqn:E; [|discriminate].
    destruct (items_of t) as [r|]; [|discriminate]. inversion H; subst. constructor; [exact E | apply IH; reflexivity].
Qed.

Lemma adim_of_inv t dd d :
  adim_of t dd = Some d ->
  exists ty els, jd_get dd (JStr "type") = Some (JDict ty) /\ jd_get ty (JStr "elements") = Some (JList els) /\
                 Forall2 abs_item els (Shim.d_items d) /\ mr_ins_of t dd = Some (Shim.d_mr_ins d) /\
                 (Shim.d_mr_ins d = true -> forallb has_value els = true).
Proof.
  unfold adim_of, elements_of. intros H.
  destruct (jd_get dd (JStr "type")) as [[| | | | | |ty]|] eqn:E1; try discriminate.
  destruct (jd_get ty (JStr "elements")) as [[| | | | |els|]|] eqn:E2; try discriminate.
  destruct (mr_ins_of t dd) as [mr|] eqn:E3; [|discriminate].
  destruct (items_of els) as [its|] eqn:Ei; [|discriminate].
  destruct (negb mr || forallb has_value els) eqn:Eg; [|discriminate].
  inversion H; subst. exists ty, els. cbn [Shim.d_items Shim.d_mr_ins].
  split; [reflexivity|]. split; [exact E2|]. split; [apply items_of_forall2; exact Ei|].
  split; [reflexivity|]. intros ->. exact Eg.
Qed.

(* the elements of the dimension dict, as every member reads them *)
Lemma elements_get dd ty els :
  jd_get dd (JStr "type") = Some (JDict ty) -> jd_get ty (JStr "elements") = Some (JList els) ->
  bind (pj_getitem (JDict dd) (JStr "type")) (fun t1 => pj_getitem t1 (JStr "elements")) = Ok (JList els).
Proof. intros H1 H2. unfold pj_getitem. cbn [jv_hashable]. rewrite H1. cbn [of_option Collator.bind jv_hashable]. rewrite H2. reflexivity. Qed.

(* the cases of [item_of el = Some it] *)
Ltac item_cases H :=
  unfold abs_item, item_of in H;
  let e := fresh "e" in let idv := fresh "idv" in let eid := fresh "eid" in let v := fresh "v" in
  let r := fresh "r" in let svv := fresh "svv" in let sv := fresh "sv" in let alv := fresh "alv" in
  let al := fresh "al" in
  let Eid := fresh "Eid" in let Eeid := fresh "Eeid" in let Eval := fresh "Eval" in let Eref := fresh "Eref" in
  let Esv := fresh "Esv" in let Esvi := fresh "Esvi" in let Eal := fresh "Eal" in let Eali := fresh "Eali" in
  match type of H with match ?el with _ => _ end = _ => destruct el as [| | | | | |e]; try discriminate H end;
  destruct (jd_get e (JStr "id")) as [idv|] eqn:Eid; cbn [option_map] in H; [|discriminate H];
  destruct (ident_of_jv idv) as [eid|] eqn:Eeid; [|discriminate H];
  apply jv_of_ident_of_jv in Eeid; subst idv;
  destruct (jd_get e (JStr "value")) as [[| | | | | |v]|] eqn:Eval; try discriminate H;
  [ destruct (jd_get_default v (JStr "references") (JDict [])) as [| | | | | |r] eqn:Eref; try discriminate H;
    destruct (jd_get v (JStr "id")) as [svv|] eqn:Esv; cbn [opt_ident option_map] in H;
    [destruct (ident_of_jv svv) as [sv|] eqn:Esvi; cbn [option_map] in H; [|discriminate H];
     apply jv_of_ident_of_jv in Esvi; subst svv|];
    (destruct (jd_get r (JStr "alias")) as [alv|] eqn:Eal; cbn [opt_ident option_map] in H;
     [destruct (ident_of_jv alv) as [al|] eqn:Eali; cbn [option_map] in H; [|discriminate H];
      apply jv_of_ident_of_jv in Eali; subst alv|]);
    inversion H; subst; clear H
  | inversion H; subst; clear H ].

Ltac open_elements E1 E2 :=
  unfold pj_getitem at 1; cbn [jv_hashable]; rewrite E1; msimpl;
  unfold pj_getitem at 1; cbn [jv_hashable]; rewrite E2; msimpl;
  unfold pj_iter at 1; msimpl.

Lemma gen__ElementIdShim__subvar_aliases :
  match src__ElementIdShim__subvar_aliases with
  | Some f => forall t dd tr d, adim_of t dd = Some d ->
      f (mkPyShim t (JDict dd) tr) = Ok (map jv_of_ident (Shim.aliases d))
  | None => True end.
Proof.
  unfold src__ElementIdShim__subvar_aliases.
  first [exact I | idtac].
  all: gen_open; msimpl.
  all: match goal with Ha : adim_of _ _ = Some _ |- _ =>
         destruct (adim_of_inv _ _ _ Ha) as (ty & els & E1 & E2 & Hit & _) end.
  all: open_elements E1 E2.
  all: rewrite bind_ret; unfold Shim.aliases; rewrite map_map.
  all: apply (py_compM_forall2 _ _ _ _ _ Hit).
  all: intros el it Hel; item_cases Hel; unfold Shim.alias_of; cbn [Shim.i_aref Shim.i_eid].
  all: unfold pj_get, pj_getitem, jd_get_default; cbn [jv_hashable]; rewrite ?Eval; msimpl.
  all: try (change (match jd_get v (JStr "references") with Some v0 => v0 | None => JDict [] end)
              with (jd_get_default v (JStr "references") (JDict [])); rewrite Eref).
  all: msimpl; rewrite ?Eid; msimpl; cbn [jv_hashable]; rewrite ?Eal; try reflexivity.
Qed.

Lemma gen__ElementIdShim__raw_element_ids :
  match src__ElementIdShim__raw_element_ids with
  | Some f => forall t dd tr d, adim_of t dd = Some d ->
      f (mkPyShim t (JDict dd) tr) = Ok (map jv_of_ident (Shim.raw_ids d))
  | None => True end.
Proof.
  unfold src__ElementIdShim__raw_element_ids.
  first [exact I | idtac].
  all: gen_open; msimpl.
  all: match goal with Ha : adim_of _ _ = Some _ |- _ =>
         destruct (adim_of_inv _ _ _ Ha) as (ty & els & E1 & E2 & Hit & _) end.
  all: open_elements E1 E2.
  all: rewrite bind_ret; unfold Shim.raw_ids; rewrite map_map.
  all: apply (py_compM_forall2 _ _ _ _ _ Hit).
  all: intros el it Hel; item_cases Hel; cbn [Shim.i_eid].
  all: unfold pj_getitem; cbn [jv_hashable]; rewrite Eid; reflexivity.
Qed.

(* a comprehension whose items may raise one exception *)
Lemma py_compM_forall2_err {A B C} (f : A -> res (option C)) (R : A -> B -> Prop) (g : B -> option C) code l l' :
  Forall2 R l l' ->
  (forall x y, R x y -> f x = match g y with Some c => Ok (Some c) | None => Err code end) ->
  py_compM f l = if forallb (fun y => match g y with Some _ => true | None => false end) l'
                 then Ok (flat_map (fun y => opt_list (g y)) l') else Err code.
Proof.
  intros HR H. induction HR as [|x y xs ys Hxy _ IH]; [reflexivity|].
  cbn [py_compM forallb flat_map]. rewrite (H x y Hxy). destruct (g y) as [c|]; cbn [Collator.bind andb]; [|reflexivity].
  rewrite IH. destruct (forallb _ ys); reflexivity.
Qed.

Lemma gen__ElementIdShim__subvar_ids :
  match src__ElementIdShim__subvar_ids with
  | Some f => forall t dd tr d, adim_of t dd = Some d ->
      f (mkPyShim t (JDict dd) tr) = Ok (map jv_of_ident (Shim.subvar_ids d))
  | None => True end.
Proof.
  unfold src__ElementIdShim__subvar_ids.
  first [exact I | idtac].
  all: gen_open; msimpl.
  all: match goal with Ha : adim_of _ _ = Some _ |- _ =>
         destruct (adim_of_inv _ _ _ Ha) as (ty & els & E1 & E2 & Hit & _) end.
  all: open_elements E1 E2.
  all: rewrite bind_ret.
  all: rewrite (py_compM_forall2_err _ _ (fun it => option_map jv_of_ident (Shim.i_svid it)) KeyError _ _ Hit);
    [ unfold Shim.subvar_ids |
          intros el it Hel; item_cases Hel; cbn [Shim.i_svid option_map];
          unfold pj_getitem; cbn [jv_hashable]; rewrite Eval; msimpl; cbn [jv_hashable]; rewrite ?Esv; reflexivity].
  all: assert (Ef : forallb (fun y => match option_map jv_of_ident (Shim.i_svid y) with Some _ => true | None => false end)
                      (Shim.d_items d)
                    = forallb (fun it => match Shim.i_svid it with Some _ => true | None => false end) (Shim.d_items d))
         by (clear; induction (Shim.d_items d) as [|it l IH]; [reflexivity|]; cbn [forallb]; rewrite IH;
             destruct (Shim.i_svid it); reflexivity).
  all: rewrite Ef.
  all: destruct (forallb (fun it => match Shim.i_svid it with Some _ => true | None => false end) (Shim.d_items d)) eqn:Eall;
         msimpl; [|reflexivity].
  all: f_equal.
  all: rewrite forallb_forall in Eall.
  all: clear - Eall.
  all: induction (Shim.d_items d) as [|it l IH]; [reflexivity|].
  all: cbn [flat_map map].
  all: pose proof (Eall it (or_introl eq_refl)) as Hi.
  all: destruct (Shim.i_svid it); [|discriminate].
  all: cbn [option_map opt_list app].
  all: f_equal.
  all: apply IH.
  all: intros x Hx.
  all: apply Eall.
  all: right.
  all: exact Hx.
Qed.

Lemma gen__ElementIdShim__has_mr_insertion :
  match src__ElementIdShim__has_mr_insertion with
  | Some f => forall t dd tr d, adim_of t dd = Some d ->
      f (mkPyShim t (JDict dd) tr) = Ok (Shim.d_mr_ins d)
  | None => True end.
Proof.
  unfold src__ElementIdShim__has_mr_insertion.
  first [exact I | idtac].
  all: gen_open; msimpl.
  all: match goal with Ha : adim_of _ _ = Some _ |- _ =>
         destruct (adim_of_inv _ _ _ Ha) as (ty & els & _ & _ & _ & Hm & _) end.
  all: unfold mr_ins_of, or_empty in Hm.
  all: unfold DT_MR_SUBVAR.
  all: destruct (dtype_eqb t TMrSubvar); [|inversion Hm; reflexivity].
  all: rewrite pj_get_dict; msimpl.
  all: destruct (if jv_truthy (jd_get_default dd (JStr "references") JNone)
                 then jd_get_default dd (JStr "references") JNone else JDict []) as [| | | | | |refs]; try discriminate.
  all: rewrite pj_get_dict; msimpl.
  all: destruct (if jv_truthy (jd_get_default refs (JStr "view") JNone)
                 then jd_get_default refs (JStr "view") JNone else JDict []) as [| | | | | |view]; try discriminate.
  all: rewrite pj_get_dict; msimpl.
  all: destruct (jd_get_default view (JStr "transform") (JDict [])) as [| | | | | |tf]; try discriminate.
  all: rewrite pj_get_dict; msimpl.
  all: inversion Hm.
  all: destruct (jv_truthy (jd_get_default tf (JStr "insertions") (JList []))); reflexivity.
Qed.

(* --- translate_element_id ---------------------------------------------------------------------------------- *)
Lemma py_in_index x l : Ident.py_in x l = match Ident.py_index x l with Some _ => true | None => false end.
Proof.
  induction l as [|y t IH]; [reflexivity|]. cbn [Ident.py_in existsb Ident.py_index].
  destruct (ident_eqb x y); [reflexivity|]. cbn [orb]. unfold Ident.py_in in IH. rewrite IH.
  destruct (Ident.py_index x t); reflexivity.
Qed.

Lemma pl_index_idents l x :
  pl_index (map jv_of_ident l) (jv_of_ident x)
  = match Ident.py_index x l with Some i => Ok (Z.of_nat i) | None => Err ValueError end.
Proof.
  unfold pl_index. induction l as [|y t IH]; [reflexivity|].
  cbn [map jv_index Ident.py_index]. rewrite jv_eqb_ident.
  assert (E : ident_eqb y x = ident_eqb x y) by (destruct x, y; simpl; auto using Z.eqb_sym, String.eqb_sym).
  rewrite E. destruct (ident_eqb x y); [reflexivity|].
  destruct (jv_index (jv_of_ident x) (map jv_of_ident t)) as [i|], (Ident.py_index x t) as [k|];
    cbn [of_option option_map] in *; inversion IH; subst; try reflexivity.
  f_equal. lia.
Qed.

Lemma pl_getitem_idents (A : list ident) (i : nat) :
  (i < List.length A)%nat -> pl_getitem (map jv_of_ident A) (Z.of_nat i) = Ok (jv_of_ident (nth i A INone)).
Proof.
  intros H. unfold pl_getitem, py_nth. rewrite map_length.
  destruct (Z.ltb_spec (Z.of_nat i) 0); [lia|].
  destruct (Z.leb_spec 0 (Z.of_nat i)); [|lia].
  destruct (Z.ltb_spec (Z.of_nat i) (Z.of_nat (List.length A))); [|lia].
  cbn [andb]. rewrite Nat2Z.id, nth_error_map.
  rewrite (nth_error_nth' A INone H). reflexivity.
Qed.

(* k(aliases[ids.index(x)]) *)
Lemma lookup_alias_k {B} (L A : list ident) x (k : jv -> res B) :
  List.length L = List.length A ->
  bind (pl_index (map jv_of_ident L) (jv_of_ident x)) (fun i => bind (pl_getitem (map jv_of_ident A) i) k)
  = match Ident.py_index x L with Some i => k (jv_of_ident (nth i A INone)) | None => Err ValueError end.
Proof.
  intros HL. rewrite pl_index_idents. destruct (Ident.py_index x L) as [i|] eqn:E; [|reflexivity].
  cbn [Collator.bind]. rewrite pl_getitem_idents; [reflexivity|].
  destruct (Ident.py_index_some _ _ _ E) as [Hi _]. lia.
Qed.

Lemma lookup_alias (L A : list ident) x :
  List.length L = List.length A ->
  bind (pl_index (map jv_of_ident L) (jv_of_ident x)) (fun i => bind (pl_getitem (map jv_of_ident A) i) (fun a => Ok a))
  = match Ident.py_index x L with Some i => Ok (jv_of_ident (nth i A INone)) | None => Err ValueError end.
Proof. apply lookup_alias_k. Qed.

(* int() of an identifier: the model's restricted reading of int(str) agrees with Python's on this string *)
Definition int_agrees (x : ident) : Prop :=
  match x with IStr s => Ident.parse_int s = str_int s | _ => True end.

Lemma pj_int_ident x :
  int_agrees x ->
  pj_int (jv_of_ident x)
  = match Ident.py_int x with
    | Ident.IntOk z => Ok z
    | Ident.IntValueError => Err ValueError
    | Ident.IntTypeError => Err TypeError
    end.
Proof.
  destruct x as [z|s|]; cbn [jv_of_ident int_agrees Ident.py_int]; intros H; try reflexivity.
  unfold pj_int. cbn [jv_int]. rewrite H. destruct (str_int s); reflexivity.
Qed.

Lemma aliases_len d : List.length (Shim.aliases d) = List.length (Shim.d_items d).
Proof. unfold Shim.aliases. apply map_length. Qed.
Lemma raw_ids_len d : List.length (Shim.raw_ids d) = List.length (Shim.d_items d).
Proof. unfold Shim.raw_ids. apply map_length. Qed.
Lemma subvar_ids_len d : Shim.subvar_ids d = [] \/ List.length (Shim.subvar_ids d) = List.length (Shim.d_items d).
Proof. unfold Shim.subvar_ids. destruct (forallb _ _); [right; apply map_length | left; reflexivity]. Qed.

(* what follows the special case for MR dimensions with insertions *)
Definition translate_tail (d : Shim.adim) (x : ident) : Shim.res ident :=
  match Ident.py_index x (Shim.subvar_ids d) with
  | Some i => Shim.Ok (Shim.nth_alias d i)
  | None =>
      match Ident.py_int x with
      | Ident.IntTypeError => Shim.Ok INone
      | Ident.IntValueError => Shim.Ok INone
      | Ident.IntOk z =>
          match Ident.py_index (IInt z) (Shim.raw_ids d) with
          | Some i => Shim.Ok (Shim.nth_alias d i)
          | None =>
              if ((0 <=? z) && (z <? Z.of_nat (List.length (Shim.aliases d))))%bool
              then Shim.Ok (Shim.nth_alias d (Z.to_nat z)) else Shim.Ok INone
          end
      end
  end.

Lemma translate_unfold d x :
  Shim.translate d x
  = if Ident.py_in x (Shim.aliases d) then Shim.Ok x else
    match Ident.py_index x (Shim.raw_ids d) with
    | Some i => Shim.Ok (Shim.nth_alias d i)
    | None => match Shim.mr_branch d x with Some r => r | None => translate_tail d x end
    end.
Proof. reflexivity. Qed.

Lemma lookup_alias_sv d x :
  bind (pl_index (map jv_of_ident (Shim.subvar_ids d)) (jv_of_ident x))
       (fun i => bind (pl_getitem (map jv_of_ident (Shim.aliases d)) i) (fun a => Ok a))
  = match Ident.py_index x (Shim.subvar_ids d) with
    | Some i => Ok (jv_of_ident (Shim.nth_alias d i))
    | None => Err ValueError
    end.
Proof.
  destruct (subvar_ids_len d) as [E|E].
  - rewrite E. reflexivity.
  - apply lookup_alias. rewrite E, aliases_len. reflexivity.
Qed.

Ltac msimpl' := cbn [Collator.bind of_option py_try py_try_step existsb Z.eqb Pos.eqb orb andb negb
                     Collator.ValueError Collator.TypeError Collator.KeyError AttributeError IndexError conv].

(* the generated tail (after the MR special case), with the member reads already evaluated *)
Lemma tail_agrees d x (SV RAW AL : list jv) (r : res jv) :
  int_agrees x ->
  SV = map jv_of_ident (Shim.subvar_ids d) -> RAW = map jv_of_ident (Shim.raw_ids d) ->
  AL = map jv_of_ident (Shim.aliases d) ->
  r = (if PyList.py_in jv_eqb (jv_of_ident x) SV
       then bind (pl_index SV (jv_of_ident x)) (fun t50 => bind (pl_getitem AL t50) (fun t51 => Ok t51))
       else py_try_step (bind (pj_int (jv_of_ident x)) (fun t52 => Ok (inr t52))) [ValueError; TypeError] (Ok JNone)
              (fun l__id : Z =>
                 py_try_step
                   (if PyList.py_in jv_eqb (JInt l__id) RAW
                    then bind (pl_index RAW (JInt l__id))
                              (fun t56 => bind (pl_getitem AL t56) (fun t57 => Ok (inl t57)))
                    else Ok (inr tt))
                   [ValueError; TypeError] (Ok JNone)
                   (fun _ : unit =>
                      let t59 := Z.geb l__id 0 in
                      bind (if t59 then Ok (Z.ltb l__id (py_len AL)) else Ok t59)
                           (fun t60 : bool => if t60 then bind (pl_getitem AL l__id) (fun t62 => Ok t62)
                                              else Ok JNone)))) ->
  r = conv jv_of_ident (translate_tail d x).
Proof.
  intros Hx -> -> -> ->. unfold translate_tail.
  rewrite jv_in_idents', py_in_index.
  destruct (Ident.py_index x (Shim.subvar_ids d)) as [i|] eqn:Ei.
  - rewrite lookup_alias_sv, Ei. reflexivity.
  - rewrite (pj_int_ident x Hx). destruct (Ident.py_int x) as [z| |]; msimpl'; try reflexivity.
    change (JInt z) with (jv_of_ident (IInt z)). rewrite jv_in_idents', py_in_index.
    destruct (Ident.py_index (IInt z) (Shim.raw_ids d)) as [i|] eqn:Ej.
    + rewrite lookup_alias_k by (rewrite raw_ids_len, aliases_len; reflexivity). rewrite Ej. reflexivity.
    + msimpl'. cbv zeta. unfold py_len. rewrite map_length.
      destruct (Z.geb_spec z 0) as [G|G]; destruct (Z.leb_spec 0 z) as [L|L]; try lia; msimpl'; [|reflexivity].
      destruct (Z.ltb_spec z (Z.of_nat (List.length (Shim.aliases d)))) as [U|U]; msimpl'; [|reflexivity].
      rewrite <- (Z2Nat.id z) at 1 by lia. rewrite pl_getitem_idents by lia. reflexivity.
Qed.

(* the mask of inserted items and the element ids (as strings) of the others *)
Lemma mask_comp (F : jv -> res (option Z)) els its :
  Forall2 abs_item els its -> forallb has_value els = true ->
  (forall el it, abs_item el it -> has_value el = true ->
                 F el = Ok (Some (if Shim.i_ins it then 1 else 0))) ->
  py_compM F els = Ok (map (fun it => if Shim.i_ins it then 1 else 0) its).
Proof.
  intros HR. induction HR as [|el it es is Hel _ IH]; intros Hv HF; [reflexivity|].
  cbn [forallb] in Hv. apply andb_true_iff in Hv. destruct Hv as [Hv1 Hv2].
  cbn [py_compM map]. rewrite (HF el it Hel Hv1). cbn [Collator.bind]. rewrite IH by assumption. reflexivity.
Qed.

Lemma strs_comp (G : Z * jv -> res (option string)) (its : list Shim.item) :
  (forall m id, G (m, jv_of_ident id)
                = if negb (negb (Z.eqb m 0)) then Ok (Some (str_of_ident id)) else Ok None) ->
  py_compM G (py_zip (map (fun it => if Shim.i_ins it then 1 else 0) its)
                     (map jv_of_ident (map Shim.i_eid its)))
  = Ok (map (fun it => str_of_ident (Shim.i_eid it)) (filter (fun it => negb (Shim.i_ins it)) its)).
Proof.
  intros HG. unfold py_zip. induction its as [|it t IH]; [reflexivity|].
  cbn [map combine py_compM filter]. rewrite HG. destruct (Shim.i_ins it); cbn [Z.eqb negb Collator.bind];
    rewrite IH; reflexivity.
Qed.

Lemma in_strs x (l : list string) :
  PyList.py_in jv_eqb (jv_of_ident x) (map (fun s => JStr s) l) = Ident.py_in x (map IStr l).
Proof.
  rewrite <- jv_in_idents'. rewrite map_map. reflexivity.
Qed.

Lemma gen__ElementIdShim_translate_element_id_array :
  match src__ElementIdShim_translate_element_id with
  | Some f => forall t dd tr d x, dt_in t [TCaSubvar; TMrSubvar; TNumArr] = true ->
      adim_of t dd = Some d -> int_agrees x ->
      f (mkPyShim t (JDict dd) tr) (jv_of_ident x) = conv jv_of_ident (Shim.translate d x)
  | None => True end.
Proof.
  unfold src__ElementIdShim_translate_element_id.
  first [exact I | idtac].
  all: destruct src_DT_SHIMMED_TYPES as [shim|] eqn:Es; [|exact I].
  all: destruct src__ElementIdShim__element_values_dict as [fvals|]; [|exact I].
  all: dep gen__ElementIdShim__subvar_aliases src__ElementIdShim__subvar_aliases.
  all: dep gen__ElementIdShim__raw_element_ids src__ElementIdShim__raw_element_ids.
  all: dep gen__ElementIdShim__has_mr_insertion src__ElementIdShim__has_mr_insertion.
  all: dep gen__ElementIdShim__subvar_ids src__ElementIdShim__subvar_ids.
  all: gen_open; msimpl.
  all: rewrite !(H t dd tr d), !(H0 t dd tr d), !(H1 t dd tr d), !(H2 t dd tr d) by assumption.
  all: msimpl.
  all: unfold src_DT_SHIMMED_TYPES in Es; inversion Es; subst shim.
  all: assert (Et : PyList.py_in dtype_eqb t [DT_CA_SUBVAR; DT_MR_SUBVAR; DT_NUM_ARRAY; DT_DATETIME] = true
                    /\ dtype_eqb t DT_DATETIME = false)
         by (destruct t; try discriminate; split; reflexivity).
  all: destruct Et as [Et1 Et2]; rewrite Et1, Et2; cbn [negb].
  all: rewrite translate_unfold.
  all: rewrite (jv_in_idents' x (Shim.aliases d)).
  all: destruct (Ident.py_in x (Shim.aliases d)); [reflexivity|].
  all: rewrite (jv_in_idents' x (Shim.raw_ids d)), py_in_index.
  all: destruct (Ident.py_index x (Shim.raw_ids d)) as [i|] eqn:Ei;
         [rewrite lookup_alias by (rewrite raw_ids_len, aliases_len; reflexivity); rewrite Ei; reflexivity|].
  all: match goal with Ha : adim_of _ _ = Some _ |- _ =>
         destruct (adim_of_inv _ _ _ Ha) as (ty & els & E1 & E2 & Hit & _ & Hv) end.
  all: unfold Shim.mr_branch.
  all: destruct (Shim.d_mr_ins d) eqn:Emr;
    [ | apply (tail_agrees d x _ _ _ _ H5 eq_refl eq_refl eq_refl); reflexivity ].
  (* the special case *)
  all: open_elements E1 E2.
  all: rewrite (mask_comp _ els (Shim.d_items d) Hit (Hv eq_refl));
    [| intros el it Hel Hval; item_cases Hel; cbn [has_value] in Hval; unfold jd_mem, py_dict_mem in Hval;
       change (py_dict_get jv_eqb e (JStr "value")) with (jd_get e (JStr "value")) in Hval;
       rewrite Eval in Hval; try discriminate Hval;
       unfold pj_getitem, pj_get, pj_contains; cbn [jv_hashable]; rewrite Eval; msimpl;
       cbn [jv_hashable]; rewrite Eref; msimpl; cbn [Shim.i_ins]; reflexivity ].
  all: msimpl.
  all: unfold Shim.raw_ids at 1.
  all: rewrite strs_comp;
    [| intros m id; cbv beta iota; destruct (negb (negb (Z.eqb m 0))); [|reflexivity];
       unfold pj_str; rewrite jv_str_ident; reflexivity ].
  all: msimpl.
  all: rewrite in_strs, map_map.
  all: destruct (Ident.py_in x (map (fun it => IStr (str_of_ident (Shim.i_eid it)))
                                  (filter (fun it => negb (Shim.i_ins it)) (Shim.d_items d))));
    [ | apply (tail_agrees d x _ _ _ _ H5 eq_refl eq_refl eq_refl); reflexivity ].
  all: rewrite (pj_int_ident x H5).
  all: destruct (Ident.py_int x) as [z| |]; msimpl'; try reflexivity.
  all: change (JInt z) with (jv_of_ident (IInt z)).
  all: rewrite lookup_alias by (rewrite raw_ids_len, aliases_len; reflexivity).
  all: destruct (Ident.py_index (IInt z) (Shim.raw_ids d)); reflexivity.
Qed.

(* other dimension types: the id is returned as it is *)
Lemma gen__ElementIdShim_translate_element_id_other :
  match src__ElementIdShim_translate_element_id with
  | Some f => forall t dd tr v, dt_in t [TCaSubvar; TMrSubvar; TNumArr; TDatetime] = false ->
      f (mkPyShim t dd tr) v = Ok v
  | None => True end.
Proof.
  unfold src__ElementIdShim_translate_element_id.
  first [exact I | idtac].
  all: destruct src_DT_SHIMMED_TYPES as [shim|] eqn:Es; [|exact I].
  all: destruct src__ElementIdShim__element_values_dict as [fvals|]; [|exact I].
  all: destruct src__ElementIdShim__subvar_aliases; [|exact I].
  all: destruct src__ElementIdShim__raw_element_ids; [|exact I].
  all: destruct src__ElementIdShim__has_mr_insertion; [|exact I].
  all: destruct src__ElementIdShim__subvar_ids; [|exact I].
  all: gen_open; msimpl.
  all: unfold src_DT_SHIMMED_TYPES in Es; inversion Es; subst shim.
  all: destruct t; try discriminate; reflexivity.
Qed.

(* --- _replaced_order_element_ids ------------------------------------------------------------------------ *)
Lemma compM_mapM (F : jv -> res (option jv)) d (l : list ident) :
  (forall x, In x l -> F (jv_of_ident x) = bind (conv jv_of_ident (Shim.translate d x)) (fun t => Ok (Some t))) ->
  py_compM F (map jv_of_ident l)
  = match Shim.mapM (Shim.translate d) l with
    | Shim.Ok r => Ok (map jv_of_ident r)
    | Shim.Raise Shim.TypeErr => Err TypeError
    | Shim.Raise Shim.ValueErr => Err ValueError
    end.
Proof.
  induction l as [|x t IH]; intros H; [reflexivity|].
  cbn [map py_compM Shim.mapM]. rewrite H by (left; reflexivity).
  destruct (Shim.translate d x) as [a|[|]]; cbn [conv Collator.bind]; try reflexivity.
  rewrite IH by (intros y Hy; apply H; right; exact Hy).
  destruct (Shim.mapM (Shim.translate d) t) as [r|[|]]; reflexivity.
Qed.

Lemma gen__ElementIdShim__replaced_order_element_ids :
  match src__ElementIdShim__replaced_order_element_ids with
  | Some f => forall t dd tr d l, dt_in t [TCaSubvar; TMrSubvar; TNumArr] = true ->
      adim_of t dd = Some d -> Forall int_agrees l ->
      f (mkPyShim t (JDict dd) tr) (JList (map jv_of_ident l))
      = conv (fun r => JList (map jv_of_ident r)) (Shim.replaced_ids d l)
  | None => True end.
Proof.
  unfold src__ElementIdShim__replaced_order_element_ids.
  first [exact I | idtac].
  all: dep gen__ElementIdShim_translate_element_id_array src__ElementIdShim_translate_element_id.
  all: gen_open; msimpl.
  all: unfold pj_iter; msimpl.
  all: rewrite (compM_mapM _ d l);
    [| intros x Hx; rewrite (H t dd tr d x) by (try assumption; rewrite Forall_forall in *; auto); reflexivity].
  all: unfold Shim.replaced_ids.
  all: destruct (Shim.mapM (Shim.translate d) l) as [rs|[|]]; reflexivity.
Qed.

(* --- _replaced_element_transforms ------------------------------------------------------------------------ *)
(* the "elements" transforms dict of the model ([Shim.edict]) as a JSON dict: the special values of the "key"
   entry are the strings, any other value is the JSON value [pay p] that the opaque payload number p stands for *)
Definition jv_of_eval (pay : Z -> jv) (v : Shim.eval) : jv :=
  match v with
  | Shim.KeyAlias => JStr "alias"
  | Shim.KeySubvar => JStr "subvar_id"
  | Shim.Payload p => pay p
  end.
Definition jd_of_edict (pay : Z -> jv) (e : Shim.edict) : jdict :=
  map (fun kv => (jv_of_ident (fst kv), jv_of_eval pay (snd kv))) e.
Definition pay_ok (pay : Z -> jv) : Prop :=
  forall p, jv_eqb (pay p) (JStr "alias") = false /\ jv_eqb (pay p) (JStr "subvar_id") = false.

Lemma ident_eqb_sym' a b : ident_eqb a b = ident_eqb b a.
Proof. destruct a, b; simpl; auto using Z.eqb_sym, String.eqb_sym. Qed.

Lemma jd_get_edict pay e k :
  jd_get (jd_of_edict pay e) (jv_of_ident k) = option_map (jv_of_eval pay) (Shim.dget k e).
Proof.
  unfold jd_get, jd_of_edict. induction e as [|[k' v] t IH]; [reflexivity|].
  cbn [map fst snd py_dict_get Shim.dget]. rewrite jv_eqb_ident, ident_eqb_sym'.
  destruct (ident_eqb k k'); [reflexivity | exact IH].
Qed.

Lemma jd_set_edict pay e k v :
  jd_set (jd_of_edict pay e) (jv_of_ident k) (jv_of_eval pay v) = jd_of_edict pay (Shim.dset k v e).
Proof.
  unfold jd_set, jd_of_edict. induction e as [|[k' v'] t IH]; [reflexivity|].
  cbn [map fst snd py_dict_set Shim.dset]. rewrite jv_eqb_ident, ident_eqb_sym'.
  destruct (ident_eqb k k'); cbn [map fst snd]; [reflexivity | rewrite IH; reflexivity].
Qed.

Lemma jd_of_pairs_edict pay (l : list (ident * Shim.eval)) :
  py_dict_of_pairs jv_eqb (map (fun kv => (jv_of_ident (fst kv), jv_of_eval pay (snd kv))) l)
  = jd_of_edict pay (Shim.dict_of_pairs l).
Proof.
  unfold py_dict_of_pairs, Shim.dict_of_pairs.
  change (@nil (jv * jv)) with (jd_of_edict pay []). generalize (@nil (ident * Shim.eval)) as acc.
  induction l as [|[k v] t IH]; intros acc; [reflexivity|].
  cbn [map fold_left fst snd]. rewrite <- IH. f_equal. apply jd_set_edict.
Qed.

(* the final dict comprehension: {nkey: transforms[old_keys[i]] for i, nkey in enumerate(new_keys) if nkey is not None} *)
Lemma rekey_comp pay (e : Shim.edict) (ks : list ident) (F : Z * jv -> res (option (jv * jv))) :
  NoDup (map fst e) -> List.length ks = List.length e ->
  (forall i nk, F (i, nk) = if negb (jv_is_none nk)
                            then bind (pl_getitem (map jv_of_ident (map fst e)) i) (fun t16 =>
                                 bind (pj_getitem (JDict (jd_of_edict pay e)) t16) (fun t17 =>
                                 bind (pj_key nk) (fun t18 => Ok (Some (t18, t17)))))
                            else Ok None) ->
  py_compM F (py_enumerate (map jv_of_ident ks))
  = Ok (map (fun kv => (jv_of_ident (fst kv), jv_of_eval pay (snd kv)))
            (Shim.not_none_pairs (combine ks (map snd e)))).
Proof.
  intros ND HL HF.
  assert (G : forall s (ks' : list ident) (e' : Shim.edict),
            List.length ks' = List.length e' ->
            (forall j kv, nth_error e' j = Some kv -> nth_error e (s + j) = Some kv) ->
            py_compM F (combine (map Z.of_nat (seq s (List.length ks'))) (map jv_of_ident ks'))
            = Ok (map (fun kv => (jv_of_ident (fst kv), jv_of_eval pay (snd kv)))
                      (Shim.not_none_pairs (combine ks' (map snd e'))))).
  { intros s ks'. revert s. induction ks' as [|k t IH]; intros s e' HL' Hn; [reflexivity|].
    destruct e' as [|[k0 v0] e'']; [discriminate|].
    cbn [List.length seq map combine py_compM snd Shim.not_none_pairs filter fst].
    rewrite HF.
    assert (Hk : nth_error e s = Some (k0, v0)) by (rewrite <- (Nat.add_0_r s); apply Hn; reflexivity).
    assert (IHt : py_compM F (combine (map Z.of_nat (seq (S s) (List.length t))) (map jv_of_ident t))
                  = Ok (map (fun kv => (jv_of_ident (fst kv), jv_of_eval pay (snd kv)))
                            (Shim.not_none_pairs (combine t (map snd e''))))).
    { apply IH; [simpl in HL'; lia|]. intros j kv Hj. replace (S s + j)%nat with (s + S j)%nat by lia.
      apply Hn. exact Hj. }
    destruct k as [z|str|]; cbn [jv_of_ident jv_is_none negb].
    3: { cbn [Collator.bind]. rewrite IHt. reflexivity. }
    all: unfold pl_getitem, py_nth; rewrite !map_length.
    all: assert (Hs : (s < List.length e)%nat) by (apply nth_error_Some; congruence).
    all: destruct (Z.ltb_spec (Z.of_nat s) 0); [lia|].
    all: destruct (Z.leb_spec 0 (Z.of_nat s)); [|lia].
    all: destruct (Z.ltb_spec (Z.of_nat s) (Z.of_nat (List.length e))); [|lia].
    all: cbn [andb]; rewrite Nat2Z.id, !nth_error_map, Hk; cbn [option_map of_option Collator.bind fst snd].
    all: unfold pj_getitem; rewrite jv_hashable_ident.
    all: rewrite jd_get_edict.
    all: assert (Hd : Shim.dget k0 e = Some v0)
           by (clear - ND Hk; revert s Hk; induction e as [|[k1 v1] e1 IHe]; intros s Hk;
               [destruct s; discriminate|];
               cbn [Shim.dget]; destruct s as [|s'];
               [inversion Hk; subst; rewrite ident_eqb_refl; reflexivity|];
               cbn [nth_error] in Hk; inversion ND as [|? ? Hnin ND']; subst;
               destruct (ident_eqb_spec k0 k1) as [->|_];
               [exfalso; apply Hnin; apply (in_map fst) in Hk || idtac;
                apply nth_error_In in Hk; apply (in_map fst) in Hk; exact Hk
               | apply (IHe ND' s' Hk)]).
    all: rewrite Hd; cbn [option_map of_option Collator.bind pj_key jv_hashable].
    all: rewrite IHt; reflexivity. }
  unfold py_enumerate. rewrite py_range_len, map_length.
  apply (G 0%nat ks e HL). intros j kv Hj. exact Hj.
Qed.

Lemma py_compM_map_idents (F : jv -> res (option jv)) (h : ident -> ident) ks :
  (forall k, In k ks -> F (jv_of_ident k) = Ok (Some (jv_of_ident (h k)))) ->
  py_compM F (map jv_of_ident ks) = Ok (map jv_of_ident (map h ks)).
Proof.
  induction ks as [|k t IH]; intros H; [reflexivity|].
  cbn [map py_compM]. rewrite H by (left; reflexivity). cbn [Collator.bind].
  rewrite IH by (intros y Hy; apply H; right; exact Hy). reflexivity.
Qed.

Lemma jd_keys_edict pay e : jd_keys (jd_of_edict pay e) = map jv_of_ident (map fst e).
Proof. unfold jd_keys, jd_of_edict. rewrite !map_map. reflexivity. Qed.

Lemma combine_map_fst {A B C} (h : A -> C) (l : list (A * B)) :
  combine (map h (map fst l)) (map snd l) = map (fun kv => (h (fst kv), snd kv)) l.
Proof. induction l as [|[a b] t IH]; [reflexivity|]. cbn [map combine fst snd]. rewrite IH. reflexivity. Qed.

Lemma mapM_length {A B} (f : A -> Shim.res B) l r : Shim.mapM f l = Shim.Ok r -> List.length r = List.length l.
Proof.
  revert r. induction l as [|x t IH]; intros r H; simpl in H.
  - inversion H. reflexivity.
  - destruct (f x); [|discriminate]. destruct (Shim.mapM f t) as [bs|]; [|discriminate].
    inversion H; subst. simpl. rewrite (IH bs eq_refl). reflexivity.
Qed.

Lemma gen__ElementIdShim__replaced_element_transforms :
  match src__ElementIdShim__replaced_element_transforms with
  | Some f => forall t dd tr d pay e, dt_in t [TCaSubvar; TMrSubvar; TNumArr] = true ->
      adim_of t dd = Some d -> pay_ok pay -> NoDup (map fst e) -> Forall int_agrees (map fst e) ->
      f (mkPyShim t (JDict dd) tr) (JDict (jd_of_edict pay e))
      = conv (fun e' => JDict (jd_of_edict pay e')) (Shim.replaced_elements d e)
  | None => True end.
Proof.
  unfold src__ElementIdShim__replaced_element_transforms.
  first [exact I | idtac].
  all: dep gen__ElementIdShim__subvar_aliases src__ElementIdShim__subvar_aliases.
  all: dep gen__ElementIdShim__subvar_ids src__ElementIdShim__subvar_ids.
  all: dep gen__ElementIdShim_translate_element_id_array src__ElementIdShim_translate_element_id.
  all: gen_open; msimpl.
  all: rewrite pj_get_dict; msimpl.
  all: unfold jd_get_default, Shim.replaced_elements.
  all: change (JStr "key") with (jv_of_ident (IStr "key")); rewrite jd_get_edict.
  all: change (Shim.dget Shim.key_str e) with (Shim.dget (IStr "key") e).
  all: unfold pj_keys; msimpl; rewrite jd_keys_edict.
  all: match goal with Hp : pay_ok _ |- _ => rename Hp into Hpay end.
  all: match goal with Hn : NoDup _ |- _ => rename Hn into HND end.
  all: destruct (Shim.dget (IStr "key") e) as [[| |p]|]; cbn [option_map jv_of_eval];
         [ reflexivity | | destruct (Hpay p) as [P1 P2]; rewrite P1, P2 | ];
         cbn [jv_eqb String.eqb Ascii.eqb Bool.eqb]; msimpl;
    [ rewrite (py_compM_map_idents _
                     (fun k => match Ident.py_index k (Shim.subvar_ids d) with
                               | Some i => Shim.nth_alias d i | None => INone end));
          [ msimpl; rewrite (rekey_comp pay e _ _ HND);
            [ rewrite combine_map_fst; msimpl; rewrite jd_of_pairs_edict; reflexivity
            | rewrite !map_length; reflexivity
            | intros i nk; reflexivity ]
          | intros k _; rewrite (H0 t dd tr d) by assumption; msimpl;
            rewrite jv_in_idents', py_in_index;
            destruct (Ident.py_index k (Shim.subvar_ids d)) as [i|] eqn:Ei; msimpl; [|reflexivity];
            rewrite ?(H t dd tr d), ?(H0 t dd tr d) by assumption; msimpl;
            rewrite lookup_alias_sv, Ei; reflexivity ]
       | | ].
  (* any other "key" / no "key": the usual translation *)
  all: rewrite (compM_mapM _ d (map fst e));
         [| intros x Hx; rewrite (H1 t dd tr d x) by (try assumption; rewrite Forall_forall in *; auto); reflexivity ].
  all: destruct (Shim.mapM (Shim.translate d) (map fst e)) as [ks|[|]] eqn:Em; msimpl; try reflexivity.
  all: rewrite (rekey_comp pay e ks _ HND);
         [ msimpl; rewrite jd_of_pairs_edict; reflexivity
         | rewrite (mapM_length _ _ _ Em), map_length; reflexivity
         | intros i nk; reflexivity ].
Qed.

(* --- shimmed_dimension_transforms_dict ------------------------------------------------------------------- *)
(* what the model's [xf] reads from a transforms dict: the "elements" dict, order.element_ids,
   order.fixed.top / bottom - [None] when the key is absent (or, for the id lists, null) *)
Definition ids_field (o : option jv) (x : option (list ident)) : Prop :=
  match x with
  | None => o = None \/ o = Some JNone
  | Some l => o = Some (JList (map jv_of_ident l))
  end.

Definition fixed_rel (fo : option jv) (top bottom : option (list ident)) : Prop :=
  match fo with
  | None => top = None /\ bottom = None
  | Some (JDict fx) => ids_field (jd_get fx (JStr "top")) top /\ ids_field (jd_get fx (JStr "bottom")) bottom
  | Some _ => False
  end.

Definition xf_rel (pay : Z -> jv) (tr : jdict) (x : Shim.xf) : Prop :=
  match Shim.x_elements x with
  | None => jd_get tr (JStr "elements") = None
  | Some e => jd_get tr (JStr "elements") = Some (JDict (jd_of_edict pay e))
  end /\
  match jd_get tr (JStr "order") with
  | None => Shim.x_ids x = None /\ Shim.x_top x = None /\ Shim.x_bottom x = None
  | Some (JDict od) =>
      ids_field (jd_get od (JStr "element_ids")) (Shim.x_ids x) /\
      fixed_rel (jd_get od (JStr "fixed")) (Shim.x_top x) (Shim.x_bottom x)
  | Some _ => False
  end.

(* the identifiers of the input: distinct keys of the "elements" dict; int(str) as the model reads it *)
Definition ids_wf (o : option (list ident)) : Prop :=
  match o with Some l => Forall int_agrees l | None => True end.
Definition xf_wf (x : Shim.xf) : Prop :=
  match Shim.x_elements x with
  | Some e => NoDup (map fst e) /\ Forall int_agrees (map fst e)
  | None => True
  end /\ ids_wf (Shim.x_ids x) /\ ids_wf (Shim.x_top x) /\ ids_wf (Shim.x_bottom x).

Definition exn_code (e : Shim.exn) : Z :=
  match e with Shim.TypeErr => TypeError | Shim.ValueErr => ValueError end.

Lemma pd_get_str s k dflt : pd_get s (JStr k) dflt = Ok (jd_get_default s (JStr k) dflt).
Proof. reflexivity. Qed.
Lemma pd_getitem_str s k : pd_getitem s (JStr k) = of_option KeyError (jd_get s (JStr k)).
Proof. reflexivity. Qed.
Lemma pd_contains_str s k : pd_contains s (JStr k) = Ok (match jd_get s (JStr k) with Some _ => true | None => false end).
Proof. reflexivity. Qed.
Lemma pj_setitem_str d k x : pj_setitem (JDict d) (JStr k) x = Ok (JDict (jd_set d (JStr k) x)).
Proof. reflexivity. Qed.
Lemma pj_dict_dict d : pj_dict (JDict d) = Ok d.
Proof. reflexivity. Qed.

Lemma ids_field_default d k x :
  ids_field (jd_get d (JStr k)) x ->
  jd_get_default d (JStr k) JNone = match x with None => JNone | Some l => JList (map jv_of_ident l) end.
Proof.
  unfold ids_field, jd_get_default. destruct x as [l|].
  - intros ->. reflexivity.
  - intros [->| ->]; reflexivity.
Qed.

Lemma ids_field_get d k l :
  ids_field (jd_get d (JStr k)) (Some l) -> jd_get d (JStr k) = Some (JList (map jv_of_ident l)).
Proof. intros H. exact H. Qed.

Lemma jv_truthy_ids l : jv_truthy (JList (map jv_of_ident l)) = match l with [] => false | _ => true end.
Proof. destruct l; reflexivity. Qed.

Ltac jd_simp :=
  repeat (rewrite jd_get_set_str; cbn [String.eqb Ascii.eqb Bool.eqb]).
Lemma jd_get_nil k : jd_get [] k = None.
Proof. reflexivity. Qed.

Ltac sh_step :=
  repeat (progress (rewrite ?pd_get_str, ?pd_getitem_str, ?pd_contains_str, ?pj_get_dict, ?pj_getitem_dict,
                            ?pj_setitem_str, ?pj_dict_dict, ?jd_get_nil;
                    unfold jd_get_default; jd_simp; msimpl'; cbn [jv_is_none negb])).

(* the outcome of the generated function against the model's: the same exception, or a dict (the dimension's own)
   that reads as the translated [xf] *)
Definition shim_agrees (pay : Z -> jv) (r : res jv) (m : Shim.xf * option Shim.exn) : Prop :=
  match m, r with
  | (x', None), Collator.Ok (JDict tr') => xf_rel pay tr' x'
  | (_, Some ex), Collator.Err c => c = exn_code ex
  | _, _ => False
  end.

Ltac sh_hyps := repeat match goal with Hh : jd_get ?d ?k = _ |- context [jd_get ?d ?k] => rewrite Hh end.
Ltac sh := repeat (progress (sh_step; sh_hyps; rewrite ?jv_truthy_ids; cbn [jv_truthy])).
