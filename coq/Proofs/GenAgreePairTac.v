(* Proofs/GenAgreePairTac.v -- GenAgree tie for the pairwise column tests (C13): standard
   environments, general lemmas about the evaluator of Base/PairExp.v and the tactics.  The lemmas
   are in
     GenAgreePairwise.v         matrix path: _PairwiseSigTstats (four blocks, _column_bases),
                                _PairwiseSigPvals.blocks
     GenAgreePairwiseMeans.v    _PairwiseMeansSigTStats / _PairwiseMeansSigPVals
     GenAgreePairwiseOverlap.v  the overlap helper and the ...ForSubvar measures
     GenAgreePairwiseLegacy.v   measures/pairwise_significance.py t_stats, cubepart._pairwise_indices

   Gen/PairwiseSrc.v is REWRITTEN FROM THE SOURCE on every check by harness/translate/x_pairwise.py.
   Statement shape, for ALL sizes, blocks, selected columns in range, flags and CDF functions:

       match src_<Class>_<member> with
       | Some e => forall .., <shape / range hypotheses> ->
                     pagrees_mat E (pev <mode> E e) <row tag> <column tag> (mnth <model definition>)
       | None => True
       end                                                                                    *)
From Coq Require Import QArith Qabs ZArith List Bool Lia Arith String.
From CC Require Import Base.XQ Base.ListX Base.MeasureExp Base.PairExp Model.Pairwise Model.PairwiseP.
Import ListNotations.
Local Close Scope Q_scope.
Local Open Scope string_scope.
Local Open Scope nat_scope.

(* ------------------------------------------------------------------------------------ *)
(** * the standard environment of a slice and a selected column *)

Definition psize (nr nc nrs ncs : nat) (d : dim) : nat :=
  match d with D1 => 1 | DR => nr | DC => nc | DRS => nrs | DCS => ncs end.

Definition rsz (nr nrs bi : nat) : nat := match bi with 0 => nr | _ => nrs end.
Definition csz (nc ncs bj : nat) : nat := match bj with 0 => nc | _ => ncs end.

Definition sel_ix (sel : Z) (s : string) : Z := if String.eqb s "sel" then sel else 0%Z.
Definition no_loop (_ : nat) : Z := 0%Z.
Definition no_pblock (_ : string) (_ : Z) (_ _ : nat) : list (list xq) := [].
Definition no_pslice (_ : string) : mval := VErr.
Definition no_cube3 (_ _ : string) : list (list (list xq)) := [].
Definition no_ncdf (_ : xq) : xq := NaN.
Definition no_pscal (_ : string) : xq := NaN.
Definition no_ovrows (_ _ : string) : list (list (list xq)) := [].
Definition pcube_mat (cubem : string -> string -> list (list xq)) (c a : string) : mval :=
  VMat DR DC (mnth (cubem c a)).

Definition penv_std (nr nc nrs ncs : nat) (sel : Z)
           (blk : string -> nat -> nat -> list (list xq))
           (pblk : string -> Z -> nat -> nat -> list (list xq))
           (cubem : string -> string -> list (list xq))
           (flag : string -> bool) (cdf : xq -> xq -> xq) : penv :=
  mkPenv (psize nr nc nrs ncs) (sel_ix sel) no_loop blk pblk (pcube_mat cubem) no_pslice no_cube3
         flag cdf no_ncdf no_pscal no_ovrows.

(* the array [m] has n rows of k columns (a list of lists has no column count when n = 0: the
   blocks of a table without subtotal rows are [], whatever the number of columns) *)
Definition shaped (m : list (list xq)) (n k : nat) : Prop := nrows m = n /\ (0 < n -> ncols m = k).

(* once a row index is in the context, the column counts are known *)
Ltac shape_use :=
  repeat match goal with
         | H : 0 < ?n -> ncols _ = _ |- _ => specialize (H ltac:(lia))
         end.
Definition blk_shaped (blk : string -> nat -> nat -> list (list xq)) (m : string)
           (nr nc nrs ncs : nat) : Prop :=
  shaped (blk m 0 0) nr nc /\ shaped (blk m 0 1) nr ncs /\
  shaped (blk m 1 0) nrs nc /\ shaped (blk m 1 1) nrs ncs.

(* the selected column is a base column (>= 0) or an inserted one (< 0, from the end) *)
Definition sel_ok (sel : Z) (nc ncs : nat) : Prop := (- Z.of_nat ncs <= sel < Z.of_nat nc)%Z.

(* ------------------------------------------------------------------------------------ *)
(** * general lemmas *)

Lemma nidx_neg n z : (z < 0)%Z -> (- Z.of_nat n <= z)%Z ->
  nidx n z = Some (Z.to_nat (Z.of_nat n + z)).
Proof.
  intros H1 H2. unfold nidx.
  rewrite (proj2 (Z.ltb_lt _ _) H1). rewrite (proj2 (Z.leb_le _ _) H2). reflexivity.
Qed.

Lemma nidx_pos n z : (0 <= z)%Z -> (z < Z.of_nat n)%Z -> nidx n z = Some (Z.to_nat z).
Proof.
  intros H1 H2. unfold nidx.
  rewrite (proj2 (Z.ltb_ge _ _) H1). rewrite (proj2 (Z.ltb_lt _ _) H2). reflexivity.
Qed.

Lemma nidx_nat n k : k < n -> nidx n (Z.of_nat k) = Some k.
Proof. intros H. rewrite nidx_pos by lia. rewrite Nat2Z.id. reflexivity. Qed.

Lemma nidx_neg_lt n z : (z < 0)%Z -> (- Z.of_nat n <= z)%Z -> Z.to_nat (Z.of_nat n + z) < n.
Proof. lia. Qed.

Lemma xltb_abs_zero s : xltb (xabs s) (Fin 0%Q) = false.
Proof.
  destruct s as [q| |]; simpl; try reflexivity.
  destruct (Qlt_le_dec (Qabs q) 0) as [H|H]; [|reflexivity].
  exfalso. apply (Qlt_not_le _ _ H). apply Qabs_nonneg.
Qed.

Lemma sqrt_guard_abs s : sqrt_guard (xabs s) = xabs s.
Proof. unfold sqrt_guard. rewrite xltb_abs_zero. reflexivity. Qed.

(* x / sqrt_guard v  is the model's  `if v < 0 then NaN else x / v` *)
Lemma xdiv_sqrt_guard x v :
  xdiv x (sqrt_guard v) = if xltb v (Fin 0%Q) then NaN else xdiv x v.
Proof. unfold sqrt_guard. destruct (xltb v (Fin 0%Q)); [apply xdiv_nan_r|reflexivity]. Qed.

Lemma mul_eq0_lt a b i j : Nat.eqb (a * b) 0 = true -> i < a -> j < b -> False.
Proof. intros H Hi Hj. apply Nat.eqb_eq in H. destruct a, b; simpl in *; lia. Qed.

Lemma mcol_vnth' m j i n : nrows m = n -> i < n -> vnth (mcol m j) i = mnth m i j.
Proof. intros H Hi. apply mcol_vnth. unfold nrows in H. lia. Qed.

(* ------------------------------------------------------------------------------------ *)
(** * tactics *)

(* phase 1: the evaluator, the environment, index expressions, conditions and the index / column
   selection primitives -- but NOT [bin] / [vmap] / [bcast_like] / [nansub], whose case analyses
   would be duplicated over every subterm that is still stuck on a test ([sel <? 0], a flag, [nidx]) *)
Ltac pair_eval0 :=
  cbv [pagrees_mat pagrees_scal pev pcev colsel vsize vmap idx1 idx2 idx3 idx3_of ixv with_loop option_map
       pe_size pe_ix pe_loop pe_block pe_pblock pe_cube pe_slice pe_cube3 pe_flag pe_cdf pe_ncdf pe_scal pe_ovrows
       penv_std psize sel_ix no_loop no_pblock no_pslice no_cube3 pcube_mat no_ncdf no_pscal no_ovrows
       rdim cdim andb orb negb String.eqb Ascii.eqb Bool.eqb].

(* phase 2: everything *)
Ltac pair_eval :=
  cbv [pev pcev colsel bcast_like vsize idx1 idx2 idx3 idx3_of nansub scal_or_nan is_scal ixv with_loop
       mask_rows_sum pagrees_mat pagrees_scal bin vmap bdim bix dim_eqb rdim cdim xpow option_map
       pe_size pe_ix pe_loop pe_block pe_pblock pe_cube pe_slice pe_cube3 pe_flag pe_cdf pe_ncdf pe_scal pe_ovrows
       penv_std psize sel_ix no_loop no_pblock no_pslice no_cube3 pcube_mat no_ncdf no_pscal no_ovrows
       andb orb negb String.eqb Ascii.eqb Bool.eqb].

Ltac punfold_srcs :=
  repeat match goal with
         | |- context [match ?s with Some _ => _ | None => _ end] => is_const s; unfold s
         end.

Ltac pread_tab2 :=
  repeat (first [ rewrite tab2_mnth by (first [assumption | lia])
                | rewrite tab_vnth by (first [assumption | lia]) ]; cbv beta).

(* split the shape part of [pagrees_mat] off and introduce the cell *)
Ltac pcells i j Hi Hj :=
  lazymatch goal with
  | |- _ /\ _ /\ _ => split; [reflexivity|split; [reflexivity|]]; intros i j Hi Hj
  end.
