(* Proofs/TransposeCounts.v -- C10 for the cube-count extractors of Model/CubeCounts.v:
   for every class pair (Cat/Mr/Arr)^2 the extractor of the exchanged pair, applied to the
   transposed tensor, is the transpose of the twin extractor of the original pair; the valid
   selection (missing elements removed) commutes with transposition. *)
From Coq Require Import QArith ZArith List Bool Lia Arith Setoid Morphisms.
From CC Require Import Base.XQ Base.ListX Spec.Survey Model.CubeCounts Model.Subtotals
  Model.Transpose Proofs.TransposeAlgebra.
Import ListNotations.
Local Close Scope Q_scope.
Local Open Scope nat_scope.

Ltac unf :=
  cbv [counts_of row_bases_of column_bases_of table_bases_of rows_base_of columns_base_of
       rows_table_base_of columns_table_base_of table_base_of passthrough_of
       cc_counts cc_rows_base cc_columns_base cc_table_base cc_row_bases cc_column_bases
       cc_table_bases cm_counts cm_columns_base cm_column_bases cm_row_bases
       cm_columns_table_base cm_table_bases mc_counts mc_column_bases mc_rows_base mc_row_bases
       mc_rows_table_base mc_table_bases mm_counts mm_column_bases mm_row_bases mm_table_bases
       aa_counts ac_counts ac_rows_base am_counts am_row_bases ca_counts ca_columns_base
       ma_counts ma_column_bases ttrans trot grp cls_mr skipn firstn app orelf orelx xsumn].

Section Extractors.
  Variable V : tensor.
  Variables nr nc sr sc : nat.

  (* counts: direction-free *)
  Lemma counts_T rc cc i j :
    counts_of (ttrans (cls_mr cc) V) cc rc j i = counts_of V rc cc i j.
  Proof. destruct rc, cc; reflexivity. Qed.

  (* the row bases of B x A are the column bases of A x B, and vice versa *)
  Lemma row_bases_T rc cc i j :
    row_bases_of (ttrans (cls_mr cc) V) nr sr cc rc j i = column_bases_of V nr sr rc cc i j.
  Proof. destruct rc, cc; reflexivity. Qed.

  Lemma column_bases_T rc cc i j :
    column_bases_of (ttrans (cls_mr cc) V) nc sc cc rc j i = row_bases_of V nc sc rc cc i j.
  Proof. destruct rc, cc; reflexivity. Qed.

  (* table bases: direction-free; the double sums are taken in the other order *)
  Lemma table_bases_T rc cc i j :
    table_bases_of (ttrans (cls_mr cc) V) nc nr sc sr cc rc j i
    =x= table_bases_of V nr nc sr sc rc cc i j.
  Proof.
    destruct rc, cc; try reflexivity; unf.
    - apply (xsumn_exchange nc nr (fun a b => V [b; a])).
    - apply (xsumn_exchange sc nr (fun a b => V [b; j; a])).
    - apply (xsumn_exchange nc sr (fun a b => V [i; b; a])).
    - apply (xsumn_exchange sc sr (fun a b => V [i; b; j; a])).
  Qed.

  (* 1-D marginals: defined for the twin class pairs, equal element by element *)
  Lemma rows_base_T rc cc :
    orelf eq (rows_base_of (ttrans (cls_mr cc) V) nr cc rc) (columns_base_of V nr rc cc).
  Proof. destruct rc, cc; unf; auto. Qed.

  Lemma columns_base_T rc cc :
    orelf eq (columns_base_of (ttrans (cls_mr cc) V) nc cc rc) (rows_base_of V nc rc cc).
  Proof. destruct rc, cc; unf; auto. Qed.

  Lemma rows_table_base_T rc cc :
    orelf xeq (rows_table_base_of (ttrans (cls_mr cc) V) nc nr sc cc rc)
              (columns_table_base_of V nr nc sc rc cc).
  Proof.
    destruct rc, cc; unf; auto; intros k; try reflexivity.
    - apply (xsumn_exchange nc nr (fun a b => V [b; a])).
    - apply (xsumn_exchange sc nr (fun a b => V [b; k; a])).
  Qed.

  Lemma columns_table_base_T rc cc :
    orelf xeq (columns_table_base_of (ttrans (cls_mr cc) V) nc nr sr cc rc)
              (rows_table_base_of V nr nc sr rc cc).
  Proof.
    destruct rc, cc; unf; auto; intros k; try reflexivity.
    - apply (xsumn_exchange nc nr (fun a b => V [b; a])).
    - apply (xsumn_exchange nc sr (fun a b => V [k; b; a])).
  Qed.

  Lemma table_base_T rc cc :
    orelx (table_base_of (ttrans (cls_mr cc) V) nc nr cc rc) (table_base_of V nr nc rc cc).
  Proof.
    destruct rc, cc; unf; auto.
    apply (xsumn_exchange nc nr (fun a b => V [b; a])).
  Qed.

  (* pass-through measures (means, sums, stddev, medians): direction-free *)
  Lemma passthrough_T rmr cmr i j :
    passthrough_of (ttrans cmr V) cmr rmr j i = passthrough_of V rmr cmr i j.
  Proof. destruct rmr, cmr; reflexivity. Qed.
End Extractors.

(* transposing twice gives the tensor back (on the indexes the extractors use) *)
Lemma ttrans_involutive_2 V i j : ttrans false (ttrans false V) [i; j] = V [i; j].
Proof. reflexivity. Qed.
Lemma ttrans_involutive_3a V i s j : ttrans true (ttrans false V) [i; s; j] = V [i; s; j].
Proof. reflexivity. Qed.
Lemma ttrans_involutive_3b V i j t : ttrans false (ttrans true V) [i; j; t] = V [i; j; t].
Proof. reflexivity. Qed.
Lemma ttrans_involutive_4 V i s j t : ttrans true (ttrans true V) [i; s; j; t] = V [i; s; j; t].
Proof. reflexivity. Qed.

(* ---- the whole slice_out -------------------------------------------------------------- *)
Lemma oapp_tab_rel R n (o1 o2 : option (nat -> xq)) :
  orelf R o1 o2 -> orelv R n (oapp (tab n) o1) (oapp (tab n) o2).
Proof.
  destruct o1, o2; simpl; auto. intros H k Hk. rewrite !tab_vnth by exact Hk. apply H.
Qed.

Theorem slice_out_of_T V nr nc sr sc rc cc :
  slice_out_T nr nc (slice_out_of (ttrans (cls_mr cc) V) nc nr sc sr cc rc)
                    (slice_out_of V nr nc sr sc rc cc).
Proof.
  split; unfold slice_out_of; cbn [so_counts so_row_bases so_column_bases so_table_bases
    so_rows_base so_columns_base so_rows_table_base so_columns_table_base so_table_base].
  - intros i j Hi Hj. rewrite !tab2_mnth by assumption. apply counts_T.
  - intros i j Hi Hj. rewrite !tab2_mnth by assumption. apply row_bases_T.
  - intros i j Hi Hj. rewrite !tab2_mnth by assumption. apply column_bases_T.
  - intros i j Hi Hj. rewrite !tab2_mnth by assumption. apply table_bases_T.
  - apply oapp_tab_rel. apply rows_base_T.
  - apply oapp_tab_rel. apply columns_base_T.
  - apply oapp_tab_rel. apply rows_table_base_T.
  - apply oapp_tab_rel. apply columns_table_base_T.
  - apply table_base_T.
Qed.

(* slice_counts of Model/CubeCounts.v is slice_out_of on the slice tensor *)
Lemma slice_counts_is_slice_out_of ds data k :
  slice_counts ds data k =
  match slice_info_of ds with
  | None => None
  | Some si => Some (slice_out_of (slice_tensor ds data si k)
                                  (nvalid (si_row si)) (nvalid (si_col si)) (si_sr si) (si_sc si)
                                  (cls_of (si_row si)) (cls_of (si_col si)))
  end.
Proof. reflexivity. Qed.

(* ---- valid selection commutes with transposition ----------------------------------------- *)
Lemma remap_app vs1 vs2 a b :
  length a = length vs1 -> remap (vs1 ++ vs2) (a ++ b) = remap vs1 a ++ remap vs2 b.
Proof.
  revert a. induction vs1 as [|v t IH]; intros a H.
  - destruct a; [reflexivity | discriminate].
  - destruct a as [|x a]; [discriminate|]. simpl. f_equal. apply IH. simpl in H. lia.
Qed.

Lemma remap_nil_r vs : remap vs [] = [].
Proof. destruct vs; reflexivity. Qed.

(* T raw tensor of A x B (axes: row group ++ column group, kr + kc axes);
   the raw tensor of B x A is  trot kc T ; the dimension list is rotated by kr *)
Theorem take_valid_trot (gr gc : list dimd) T ic ir :
  length ic = length gc -> length ir = length gr ->
  take_valid (gc ++ gr) (trot (length gc) T) (ic ++ ir)
  = trot (length gc) (take_valid (gr ++ gc) T) (ic ++ ir).
Proof.
  intros Hc Hr. unfold take_valid, trot.
  rewrite map_app, remap_app by (rewrite map_length; exact Hc).
  assert (L : length (remap (map dvalid gc) ic) = length gc).
  { clear -Hc. revert ic Hc. induction gc as [|d t IH]; intros [|x ic] H; simpl in *; try lia.
    f_equal. apply IH. lia. }
  rewrite <- L at 1 2. rewrite skipn_app, firstn_app, Nat.sub_diag. rewrite skipn_all, firstn_all.
  simpl. rewrite app_nil_r.
  rewrite <- Hc at 1 2. rewrite skipn_app, firstn_app, Nat.sub_diag, skipn_all, firstn_all.
  simpl. rewrite app_nil_r.
  rewrite map_app, remap_app by (rewrite map_length; exact Hr).
  reflexivity.
Qed.

Lemma tdims_app gr gc : gr <> [] -> rgrp (gr ++ gc) = length gr -> tdims (gr ++ gc) = gc ++ gr.
Proof.
  intros _ H. unfold tdims. rewrite H.
  rewrite skipn_app, firstn_app, Nat.sub_diag, skipn_all, firstn_all. simpl.
  rewrite app_nil_r. reflexivity.
Qed.
