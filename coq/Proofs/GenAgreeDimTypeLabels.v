(* GenAgreeDimTypeLabels (C05 / C10): the members of dimension.py that read a NAME out of a dict - Dimension.name /
   description / alias / selected_categories, _ElementTransforms.name, Element.label / alias (through
   _str_representation_for), _Subtotal.label / alias and the sequences Dimension.element_labels / element_aliases /
   subtotal_labels / subtotal_aliases - as generated from src/cr/cube/dimension.py (Gen/DimTypeSrc.v) ARE the
   definitions of Model/DimValues.v, for ALL dicts.  A label that needs the (opaque) label formatter - numeric,
   datetime, text element values and ranges - is the outcome Unmodelled: [element_label] / [element_alias] are then
   [None] and nothing is claimed.  The sequence members are stated relative to the member they iterate over
   (`.. g self = Ok els -> ..`: whenever Dimension.valid_elements / subtotals of the same object evaluates to els);
   what valid_elements is: Proofs/GenAgreeDimTypeOrder.v; the composition: Proofs/GenAgreeDimTypeComposeLabels.v. *)
From Coq Require Import List ZArith String Bool Lia Arith.
From CC Require Import Base.XQ Base.Ident Base.PyList Base.PyDict Model.DimType Model.PyDimension Model.PyDimType
  Model.DimValues  Gen.DimensionSrc Gen.DimTypeSrc Proofs.GenAgreeDimensionLib Proofs.GenAgreeDimTypeLib.
Import ListNotations.
Local Close Scope Q_scope.
Local Open Scope Z_scope.
Local Open Scope string_scope.

(* ---------------------------------------------------------------------------------------------------------- *)
(* C05 / C10: names                                                                                           *)
(* ---------------------------------------------------------------------------------------------------------- *)
(*@ C05 *)
Lemma gen_dimtype_Dimension_name :
  match src_Dimension_name with
  | Some f => forall t dd tr refs, jget dd "references" = Some (JDict refs) ->
      f (mkPyDimension t (JDict dd) (JDict tr)) = Ok (dimension_name refs tr)
  | None => True end.
Proof.
  unfold src_Dimension_name.
  first [exact I | idtac].
  all: gen_open; dsimpl; rewrite pj_getitem_jget.
  all: match goal with Hr : jget _ _ = Some _ |- _ => rewrite Hr end; dsimpl.
  all: rewrite !pj_contains_dict; dsimpl; unfold dimension_name, jor_empty.
  all: rewrite !pj_getitem_jget, pj_get_dict, jget_default.
  all: destruct (jget tr "name") as [v|]; dsimpl; [reflexivity|].
  all: destruct (jget refs "name") as [v|]; dsimpl; reflexivity.
Qed.

(*@ C05 *)
Lemma gen_dimtype_Dimension_description :
  match src_Dimension_description with
  | Some f => forall t dd tr refs, jget dd "references" = Some (JDict refs) ->
      f (mkPyDimension t (JDict dd) (JDict tr)) = Ok (dimension_description refs tr)
  | None => True end.
Proof.
  unfold src_Dimension_description.
  first [exact I | idtac].
  all: gen_open; dsimpl.
  all: rewrite !pj_contains_dict; dsimpl; unfold dimension_description, jor_empty.
  all: rewrite !pj_getitem_jget.
  all: destruct (jget tr "description") as [v|]; dsimpl; [reflexivity|].
  all: match goal with Hr : jget _ _ = Some _ |- _ => rewrite Hr end; dsimpl.
  all: rewrite pj_get_dict, jget_default; dsimpl; reflexivity.
Qed.

(* Dimension.selected_categories: the list under references.selected_categories, () when absent / falsy *)
(*@ C05 *)
Lemma gen_dimtype_Dimension_selected_categories :
  match src_Dimension_selected_categories with
  | Some f => forall t dd tr refs, jget dd "references" = Some (JDict refs) ->
      f (mkPyDimension t (JDict dd) tr)
      = match jget refs "selected_categories" with
        | Some (JList (c :: cs)) => Ok (c :: cs)
        | Some (JDict (kv :: d)) => Ok (jd_keys (kv :: d))
        | Some v => if jv_truthy v then bind (pj_iter v) (fun l => Ok l) else Ok []
        | None => Ok []
        end
  | None => True end.
Proof.
  unfold src_Dimension_selected_categories.
  first [exact I | idtac].
  all: gen_open; dsimpl; rewrite pj_getitem_jget.
  all: match goal with Hr : jget _ _ = Some _ |- _ => rewrite Hr end; dsimpl.
  all: rewrite pj_get_dict, jget_default; dsimpl.
  all: destruct (jget refs "selected_categories") as [[| | | | |[|c cs]|[|kv d]]|]; try reflexivity.
  all: cbn [jv_truthy]; match goal with |- context [if ?c then _ else _] => destruct c end; try reflexivity.
  all: rewrite bind_ret; reflexivity.
Qed.

(* ---------------------------------------------------------------------------------------------------------- *)
(* C05 / C10: labels and aliases                                                                              *)
(* ---------------------------------------------------------------------------------------------------------- *)
(*@ C05 *)
Lemma gen_dimtype__ElementTransforms_name :
  match src__ElementTransforms_name with
  | Some f => forall xf v, xform_name xf = Some v -> f (mkPyXforms (JDict xf)) = Ok v
  | None => True end.
Proof.
  unfold src__ElementTransforms_name.
  first [exact I | idtac].
  all: gen_open; dsimpl; rewrite pj_contains_dict; dsimpl.
  all: match goal with Hx : xform_name _ = Some _ |- _ => unfold xform_name in Hx end.
  all: rewrite pj_getitem_jget.
  all: destruct (jget xf "name") as [n|]; dsimpl; [|congruence].
  all: destruct (jv_truthy n); dsimpl; [|congruence].
  all: unfold pj_str; destruct (jv_str n) as [s|]; [|discriminate]; dsimpl.
  all: match goal with Hx : option_map _ _ = Some _ |- _ => inversion Hx end; reflexivity.
Qed.

Lemma base_repr_eval (e : jdict) (key : string) v :
  base_repr e key = Some v ->
  bind (pj_contains (JStr key) (JDict e)) (fun c =>
    if c then bind (pj_getitem (JDict e) (JStr key)) (fun x => Ok (if jv_truthy x then x else JStr ""))
    else bind (pj_get (JDict e) (JStr "value") JNone) (fun value =>
      let tv := pj_type_name value in
      if String.eqb tv "NoneType" then Ok (JStr "")
      else if String.eqb tv "list"
           then bind (pj_iter value) (fun items =>
                  bind (py_compM (fun _ : jv => bind (py_call_opaque jv) (fun x => Ok (Some x))) items) (fun xs =>
                    bind (pj_str_join "-" xs) (fun s => Ok (JStr s))))
           else if PyList.py_in String.eqb tv ["float"; "int"; "str"; "unicode"]
                then bind (py_call_opaque jv) (fun x => Ok x)
                else bind (pj_get value (JStr "references") (JDict [])) (fun r =>
                       bind (pj_get r (JStr key) JNone) (fun x => Ok (if jv_truthy x then x else JStr "")))))
  = Ok v.
Proof.
  unfold base_repr. rewrite pj_contains_dict. dsimpl. rewrite pj_getitem_jget.
  destruct (jget e key) as [x|]; dsimpl.
  - unfold jor_empty. congruence.
  - rewrite pj_get_dict, jget_default.
    destruct (jget e "value") as [[| | | | | |val]|]; try discriminate; dsimpl; cbn; try congruence.
    rewrite jget_default.
    destruct (jget val "references") as [[| | | | | |refs]|]; try discriminate; cbn.
    + rewrite jget_default. unfold jor_empty.
      destruct (jget refs key); intros H; inversion H; reflexivity.
    + intros H; inversion H; reflexivity.
Qed.

(*@ C05 *)
Lemma gen_dimtype_Element__str_representation_for_name :
  match src_Element__str_representation_for with
  | Some f => forall e idx xf t v, element_label xf e = Some v ->
      f (mkPyElement (JDict e) idx (mkPyXforms (JDict xf)) t) "name" = Ok v
  | None => True end.
Proof.
  unfold src_Element__str_representation_for.
  first [exact I | idtac].
  all: dep gen_dimtype__ElementTransforms_name src__ElementTransforms_name.
  all: gen_open; dsimpl.
  all: match goal with Hl : element_label _ _ = Some _ |- _ => unfold element_label in Hl end.
  all: cbn [String.eqb Ascii.eqb Bool.eqb].
  all: destruct (xform_name xf) as [n|] eqn:En; [|discriminate].
  all: rewrite (H xf n En); dsimpl.
  all: destruct n as [| | | | | |]; cbn [jv_is_none negb];
       try (match goal with Hl : Some _ = Some _ |- _ => inversion Hl; reflexivity end).
  all: apply base_repr_eval; assumption.
Qed.

(*@ C05 *)
Lemma gen_dimtype_Element__str_representation_for_alias :
  match src_Element__str_representation_for with
  | Some f => forall e idx xf t v, element_alias e = Some v ->
      f (mkPyElement (JDict e) idx xf t) "alias" = Ok v
  | None => True end.
Proof.
  unfold src_Element__str_representation_for.
  first [exact I | idtac].
  all: destruct src__ElementTransforms_name; [|exact I].
  all: gen_open; dsimpl.
  all: cbn [String.eqb Ascii.eqb Bool.eqb]; dsimpl; cbn [jv_is_none negb].
  all: apply base_repr_eval; assumption.
Qed.

(*@ C05 *)
Lemma gen_dimtype_Element_label :
  match src_Element_label with
  | Some f => forall e idx xf t v, element_label xf e = Some v ->
      f (mkPyElement (JDict e) idx (mkPyXforms (JDict xf)) t) = Ok v
  | None => True end.
Proof.
  unfold src_Element_label.
  first [exact I | idtac].
  all: dep gen_dimtype_Element__str_representation_for_name src_Element__str_representation_for.
  all: gen_open; rewrite (H e idx xf t v) by assumption; reflexivity.
Qed.

(*@ C05 *)
Lemma gen_dimtype_Element_alias :
  match src_Element_alias with
  | Some f => forall e idx xf t v, element_alias e = Some v ->
      f (mkPyElement (JDict e) idx xf t) = Ok v
  | None => True end.
Proof.
  unfold src_Element_alias.
  first [exact I | idtac].
  all: dep gen_dimtype_Element__str_representation_for_alias src_Element__str_representation_for.
  all: gen_open; rewrite (H e idx xf t v) by assumption; reflexivity.
Qed.

(* the labels / aliases of a sequence of elements: every element's label is described ([Some]) *)
Definition el_label (el : pyelement) : option jv :=
  match el_element_dict el, xf_element_transforms_dict (el_element_transforms el) with
  | JDict e, JDict xf => element_label xf e
  | _, _ => None
  end.
Definition el_alias (el : pyelement) : option jv :=
  match el_element_dict el with JDict e => element_alias e | _ => None end.

(*@ C05 *)
Lemma gen_dimtype_Dimension_element_labels :
  match src_Dimension_element_labels, src_Dimension_valid_elements with
  | Some f, Some g => forall self els labels, g self = Ok els ->
      Forall2 (fun el l => el_label el = Some l) els labels -> f self = Ok labels
  | _, _ => True end.
Proof.
  unfold src_Dimension_element_labels.
  first [exact I | idtac].
  all: destruct src_Dimension_valid_elements as [g|]; [|exact I].
  all: generalize gen_dimtype_Element_label; destruct src_Element_label as [lb|]; [intros Hl | intros _; exact I].
  all: intros self els labels Hg HF; cbv beta iota; rewrite Hg; dsimpl; rewrite bind_ret.
  all: rewrite <- (map_id labels); apply (py_compM_forall2 _ _ _ _ _ HF).
  all: intros el l Hel; unfold el_label in Hel; destruct el as [ed idx [xd] t]; cbn in Hel.
  all: destruct ed; try discriminate; destruct xd; try discriminate.
  all: rewrite (Hl _ _ _ _ _ Hel); reflexivity.
Qed.

(*@ C05 *)
Lemma gen_dimtype_Dimension_element_aliases :
  match src_Dimension_element_aliases, src_Dimension_valid_elements with
  | Some f, Some g => forall self els aliases, g self = Ok els ->
      Forall2 (fun el l => el_alias el = Some l) els aliases -> f self = Ok aliases
  | _, _ => True end.
Proof.
  unfold src_Dimension_element_aliases.
  first [exact I | idtac].
  all: destruct src_Dimension_valid_elements as [g|]; [|exact I].
  all: generalize gen_dimtype_Element_alias; destruct src_Element_alias as [lb|]; [intros Hl | intros _; exact I].
  all: intros self els labels Hg HF; cbv beta iota; rewrite Hg; dsimpl; rewrite bind_ret.
  all: rewrite <- (map_id labels); apply (py_compM_forall2 _ _ _ _ _ HF).
  all: intros el l Hel; unfold el_alias in Hel; destruct el as [ed idx [xd] t]; cbn in Hel.
  all: destruct ed; try discriminate; idtac.
  all: rewrite (Hl _ _ _ _ _ Hel); reflexivity.
Qed.

(* _Subtotal.label / alias *)
(*@ C05 *)
Lemma gen_dimtype__Subtotal_label :
  match src__Subtotal_label with
  | Some f => forall ins els, f (mkPySubtotal (JDict ins) els) = Ok (subtotal_label ins)
  | None => True end.
Proof.
  unfold src__Subtotal_label.
  first [exact I | idtac].
  all: gen_open; dsimpl; rewrite pj_get_dict, jget_default; dsimpl.
  all: unfold subtotal_label, jor_empty; destruct (jget ins "name"); reflexivity.
Qed.

(*@ C05 *)
Lemma gen_dimtype__Subtotal_alias :
  match src__Subtotal_alias with
  | Some f => forall ins els, f (mkPySubtotal (JDict ins) els) = Ok (subtotal_alias ins)
  | None => True end.
Proof.
  unfold src__Subtotal_alias.
  first [exact I | idtac].
  all: gen_open; dsimpl; rewrite pj_get_dict, jget_default; dsimpl.
  all: unfold subtotal_alias, jor_empty; destruct (jget ins "alias"); reflexivity.
Qed.

Definition st_is_dict (s : pysubtotal) : Prop := exists ins, st_subtotal_dict s = JDict ins.
Definition st_label (s : pysubtotal) : jv :=
  match st_subtotal_dict s with JDict ins => subtotal_label ins | _ => JStr "" end.
Definition st_alias (s : pysubtotal) : jv :=
  match st_subtotal_dict s with JDict ins => subtotal_alias ins | _ => JStr "" end.

(* whenever Dimension.subtotals evaluates to an object whose _subtotals are [subs] (what they are for a
   dimension that reads as the model's: C07_gen_dim_Dimension_subtotals, Proofs/GenAgreeDimensionCompose.v) *)
(*@ C05 *)
Lemma gen_dimtype_Dimension_subtotal_labels :
  match src_Dimension_subtotal_labels, src_Dimension_subtotals, src__Subtotals__subtotals with
  | Some f, Some g, Some h => forall self ss subs, g self = Ok ss -> h ss = Ok subs -> Forall st_is_dict subs ->
      f self = Ok (map st_label subs)
  | _, _, _ => True end.
Proof.
  unfold src_Dimension_subtotal_labels.
  first [exact I | idtac].
  all: destruct src_Dimension_subtotals as [g|]; [|exact I].
  all: destruct src__Subtotals__subtotals as [h|]; [|exact I].
  all: generalize gen_dimtype__Subtotal_label; destruct src__Subtotal_label as [lb|]; [intros Hl | intros _; exact I].
  all: intros self ss subs Hg Hh Hd; cbv beta iota; rewrite Hg; dsimpl; rewrite Hh; dsimpl; rewrite bind_ret.
  all: apply py_compM_map; intros s Hin; rewrite Forall_forall in Hd; destruct (Hd s Hin) as [ins Hi].
  all: destruct s as [sd els]; cbn in Hi; subst sd; rewrite Hl; reflexivity.
Qed.

(*@ C05 *)
Lemma gen_dimtype_Dimension_subtotal_aliases :
  match src_Dimension_subtotal_aliases, src_Dimension_subtotals, src__Subtotals__subtotals with
  | Some f, Some g, Some h => forall self ss subs, g self = Ok ss -> h ss = Ok subs -> Forall st_is_dict subs ->
      f self = Ok (map st_alias subs)
  | _, _, _ => True end.
Proof.
  unfold src_Dimension_subtotal_aliases.
  first [exact I | idtac].
  all: destruct src_Dimension_subtotals as [g|]; [|exact I].
  all: destruct src__Subtotals__subtotals as [h|]; [|exact I].
  all: generalize gen_dimtype__Subtotal_alias; destruct src__Subtotal_alias as [lb|]; [intros Hl | intros _; exact I].
  all: intros self ss subs Hg Hh Hd; cbv beta iota; rewrite Hg; dsimpl; rewrite Hh; dsimpl; rewrite bind_ret.
  all: apply py_compM_map; intros s Hin; rewrite Forall_forall in Hd; destruct (Hd s Hin) as [ins Hi].
  all: destruct s as [sd els]; cbn in Hi; subst sd; rewrite Hl; reflexivity.
Qed.
