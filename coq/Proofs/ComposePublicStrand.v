(* Proofs/ComposePublicStrand.v -- the COMPOSITION of the source translators for a STRAND (1-D cube):
   _Strand.table_proportions, from the source text to the respondents.

   MEANING (the strand twin of Proofs/ComposePublicSem.v; nothing here is a model of cr.cube).
   [public_strand C p]: the wiring term of the public member p of cubepart._Strand (Gen/WiringSrc.v) of the shape
        self._assemble_vector(self._measures.<m>.blocks)
   over the evaluation ([aeval]) of the generated [asm_Strand__assemble_vector] (Gen/AssembleSrc.v) over the two
   evaluated blocks `base_values`, `subtotal_values` of the stripe measure m:
        "weighted_counts"     [beval] of ssrc_WeightedCounts_*  (Gen/StripeBasesSrc.v) in [benv_strand]
        "table_proportions"   [meval] of ssrc_TableProportions_* (Gen/StripeMeasureSrc.v) in the standard strand
                              environments of Proofs/GenAgreeProportions.v, in which the blocks of the weighted
                              counts are the EVALUATED ones
   on a context: the counts / bases / table base the cube measure extracts (Model/CubeCounts.v::strand_counts),
   the subtotals of the rows dimension, its categorical-date flag, the signed display order.

   THEOREMS: the chain is the model ([strand_props_base] for the base values), and for the payload of `tabulate S`
   a display row that shows base element r is
        categorical strand   w(category r) / w(any valid category)
        MR strand            w(selected item r) / w(item r not missing)
   NaN iff that base is 0, otherwise in [0, 1] (Proofs/ComposeStrand.v, ComposePayloadStrand.v). *)
From Coq Require Import QArith ZArith List Bool Lia Arith String.
From CC Require Import Base.XQ Base.ListX Base.WiringExp Spec.Survey Model.Subtotals Model.Proportions
     Model.CubeCounts Proofs.CubeCountsProofs Proofs.ComposeBase Proofs.ComposeProportions Proofs.ComposePayload
     Proofs.ComposeStrand Proofs.ComposePayloadStrand
     Proofs.ComposePublicSem Proofs.ComposePublicLinks Proofs.ComposePublicChainDefs.
From CC Require Base.MeasureExp Base.BasesExp Base.AsmExp Model.Assemble
     Gen.WiringSrc Gen.StripeMeasureSrc Gen.StripeBasesSrc Gen.AssembleSrc
     Proofs.AssembleProofs Proofs.GenAgreeMeasTac Proofs.GenAgreeBasesTac Proofs.GenAgreeAssemble
     Proofs.GenAgreeProportions Proofs.GenAgreePass.
Import ListNotations.
Local Close Scope Q_scope.
Local Open Scope string_scope.
Local Open Scope nat_scope.
Local Infix "=s" := String.eqb (at level 70).

Import CC.Gen.WiringSrc CC.Gen.StripeMeasureSrc CC.Gen.StripeBasesSrc.

(* ------------------------------------------------------------------------------------ *)
(** * meaning *)

Record sctx := mkSctx {
  s_n : nat;                          (* valid row elements *)
  s_subs : list subtotal;
  s_rd : bool;                        (* the rows dimension is CAT_DATE *)
  s_counts : list xq;                 (* weighted_cube_counts.counts *)
  s_bases : list xq;                  (* weighted_cube_counts.bases *)
  s_tb : xq;                          (* weighted_cube_counts.table_base, when it is not None *)
  s_order : list Z }.                 (* _row_order_signed_indexes *)

Definition vec_of_bval (v : BasesExp.bval) : option (list xq) :=
  match v with BasesExp.WVec n f => Some (tab n f) | _ => None end.
Definition vec_of_mval (E : MeasureExp.menv) (v : MeasureExp.mval) : option (list xq) :=
  match v with MeasureExp.VVec d f => Some (tab (MeasureExp.e_size E d) f) | _ => None end.
Definition or_nil (o : option (list xq)) : list xq := match o with Some l => l | None => [] end.

(* the cube-measure leaves of the weighted counts *)
Definition scube_counts (C : sctx) (c a : string) : BasesExp.bval :=
  if (c =s "weighted_cube_counts") && (a =s "counts") then BasesExp.WVec (s_n C) (vnth (s_counts C))
  else BasesExp.WErr.

(* self._measures.weighted_counts.blocks[k] *)
Definition sblk_weighted_counts (C : sctx) (k : nat) : option (list xq) :=
  match match k with 0 => ssrc_WeightedCounts_base_values | _ => ssrc_WeightedCounts_subtotal_values end with
  | Some e => vec_of_bval (BasesExp.beval (GenAgreeBasesTac.benv_strand (s_n C) (s_subs C) (scube_counts C)) e)
  | None => None
  end.

(* the blocks of the other stripe measures a term sees *)
Definition svblk (C : sctx) (m : string) (k : nat) : list xq :=
  if m =s "weighted_counts" then or_nil (sblk_weighted_counts C k) else [].

(* self._measures.table_proportions.blocks[k] *)
Definition sblk_table_proportions (C : sctx) (k : nat) : option (list xq) :=
  match k with
  | 0 =>
      match ssrc_TableProportions_base_values with
      | Some e =>
          let E := GenAgreeMeasTac.senv_std (List.length (svblk C "weighted_counts" 0)) (s_subs C) (s_rd C)
                     (svblk C) (GenAgreeProportions.strand_cube (s_bases C)) in
          vec_of_mval E (MeasureExp.meval E e)
      | None => None
      end
  | _ =>
      match ssrc_TableProportions_subtotal_values with
      | Some e =>
          let E := GenAgreeMeasTac.senv_full (s_n C) (s_subs C) (s_rd C) (svblk C)
                     (GenAgreeProportions.strand_cube_sub (s_bases C) (s_tb C))
                     (GenAgreeProportions.strand_cubel (s_counts C) (s_bases C)) in
          vec_of_mval E (MeasureExp.meval E e)
      | None => None
      end
  end.

Definition strand_measure (C : sctx) (m : string) (k : nat) : option (list xq) :=
  if m =s "weighted_counts" then sblk_weighted_counts C k
  else if m =s "table_proportions" then sblk_table_proportions C k
  else None.

(* self._assemble_vector(blocks) *)
Definition asm_vector (C : sctx) (blocks : aval) : aval :=
  match AssembleSrc.asm_Strand__assemble_vector with
  | Some e =>
      AsmExp.aeval xq NaN no_lit no_truthy (GenAgreeAssemble.env_strand [("blocks", blocks)] (s_order C)) e
  | None => AsmExp.VErr
  end.

Definition sweval (C : sctx) (w : wexp) : pval :=
  match w with
  | WCall (WSelf fn) [WAttr (WAttr (WSelf ms) m) b] [] =>
      if (fn =s "_assemble_vector") && (ms =s "_measures") && (b =s "blocks")
      then match strand_measure C m 0, strand_measure C m 1 with
           | Some base, Some subs =>
               pval_of_aval (asm_vector C (AsmExp.VSeq [AsmExp.VVec base; AsmExp.VVec subs]))
           | _, _ => PErr
           end
      else PErr
  | _ => PErr
  end.

Definition strand_member (p : string) : option wexp :=
  if p =s "table_proportions" then wsrc_Strand_table_proportions
  else if p =s "weighted_counts" then wsrc_Strand_weighted_counts
  else None.

Definition public_strand (C : sctx) (p : string) : pval :=
  match strand_member p with Some w => sweval C w | None => PErr end.

Definition pvlen (v : pval) : option nat := match v with PVec l => Some (List.length l) | _ => None end.
Definition pvcell (v : pval) (i : nat) : xq := match v with PVec l => nth i l NaN | _ => NaN end.

(* ------------------------------------------------------------------------------------ *)
(** * the chain *)

Lemma tab_ext_lt' {A} n (f g : nat -> A) : (forall i, i < n -> f i = g i) -> tab n f = tab n g.
Proof. intros H. unfold tab. apply map_ext_in. intros i Hi. apply in_seq in Hi. apply H. lia. Qed.

Lemma tab_vnth_self (l : list xq) : tab (List.length l) (vnth l) = l.
Proof.
  unfold tab, vnth. apply (nth_ext _ _ NaN NaN).
  - rewrite map_length, seq_length. reflexivity.
  - intros i Hi. rewrite map_length, seq_length in Hi.
    rewrite (AssembleProofs.nth_map_lt (fun k => nth k l NaN) (seq 0 (List.length l)) i 0 NaN)
      by (rewrite seq_length; exact Hi).
    rewrite seq_nth by exact Hi. reflexivity.
Qed.

Lemma vec_of_bagrees v n g : BasesExp.bagrees_vec v n g -> vec_of_bval v = Some (tab n g).
Proof.
  unfold BasesExp.bagrees_vec. destruct v as [| |x|n' f|r c f]; try contradiction.
  intros [-> H]. unfold vec_of_bval. f_equal. apply tab_ext_lt'. exact H.
Qed.
Lemma vec_of_agrees E v d g :
  MeasureExp.agrees_vec E v d g -> vec_of_mval E v = Some (tab (MeasureExp.e_size E d) g).
Proof.
  unfold MeasureExp.agrees_vec. destruct v as [| |d' f|r c f]; try contradiction.
  intros [-> H]. unfold vec_of_mval. f_equal. apply tab_ext_lt'. exact H.
Qed.

(* the model's subtotal values of the strand proportions *)
Definition strand_sub_model (C : sctx) : list xq :=
  tab (List.length (s_subs C))
      (fun k => strand_wave_value (s_counts C) (s_bases C) (s_rd C) (nth k (s_subs C) nosub)
                  (xdiv (stripe_sum_subtotal (s_counts C) (nth k (s_subs C) nosub)) (s_tb C))).

Definition terms_strand_weighted_counts : bool :=
  is_some ssrc_WeightedCounts_base_values && is_some ssrc_WeightedCounts_subtotal_values.

Theorem strand_weighted_counts_chain :
  need terms_strand_weighted_counts
  (forall C, List.length (s_counts C) = s_n C ->
     sblk_weighted_counts C 0 = Some (s_counts C) /\
     sblk_weighted_counts C 1 =
       Some (tab (List.length (s_subs C)) (fun k => stripe_sum_subtotal (s_counts C) (nth k (s_subs C) nosub)))).
Proof.
  unfold terms_strand_weighted_counts.
  bridge GenAgreePass.gen_stripe_WeightedCounts_base_values ssrc_WeightedCounts_base_values.
  bridge GenAgreePass.gen_stripe_WeightedCounts_subtotal_values ssrc_WeightedCounts_subtotal_values.
  needed. intros C Hn. unfold sblk_weighted_counts, scube_counts. rewrite E, E0. split.
  - rewrite (vec_of_bagrees _ _ _ (G (s_n C) (s_subs C) (s_counts C))). rewrite <- Hn. rewrite tab_vnth_self. reflexivity.
  - rewrite (vec_of_bagrees _ _ _ (G0 (s_n C) (s_subs C) (s_counts C))). reflexivity.
Qed.

Definition terms_strand_table_proportions : bool :=
  terms_strand_weighted_counts &&
  is_some ssrc_TableProportions_base_values && is_some ssrc_TableProportions_subtotal_values.

Theorem strand_table_proportions_chain :
  need terms_strand_table_proportions
  (forall C, List.length (s_counts C) = s_n C ->
     sblk_table_proportions C 0 = Some (strand_props_base (s_counts C) (s_bases C)) /\
     sblk_table_proportions C 1 = Some (strand_sub_model C)).
Proof.
  unfold terms_strand_table_proportions.
  use_need strand_weighted_counts_chain terms_strand_weighted_counts. intros W.
  bridge GenAgreeProportions.gen_stripe_TableProportions_base_values ssrc_TableProportions_base_values.
  bridge GenAgreeProportions.gen_stripe_TableProportions_subtotal_values ssrc_TableProportions_subtotal_values.
  needed. intros C Hn. destruct (W C Hn) as [W0 W1].
  assert (V0 : svblk C "weighted_counts" 0 = s_counts C) by (unfold svblk; cbn [String.eqb Ascii.eqb Bool.eqb]; rewrite W0; reflexivity).
  assert (V1 : svblk C "weighted_counts" 1 =
               tab (List.length (s_subs C)) (fun k => stripe_sum_subtotal (s_counts C) (nth k (s_subs C) nosub)))
    by (unfold svblk; cbn [String.eqb Ascii.eqb Bool.eqb]; rewrite W1; reflexivity).
  unfold sblk_table_proportions. rewrite E, E0. split.
  - cbv zeta. rewrite (vec_of_agrees _ _ _ _ (G (s_subs C) (s_rd C) (svblk C) (s_bases C))).
    rewrite V0. cbn [MeasureExp.e_size GenAgreeMeasTac.senv_std GenAgreeMeasTac.senv_full GenAgreeMeasTac.dsize].
    unfold strand_props_base. f_equal. apply tab_ext_lt'. intros i Hi. rewrite tab_vnth by exact Hi. reflexivity.
  - cbv zeta.
    rewrite (vec_of_agrees _ _ _ _ (G0 (s_n C) (s_subs C) (s_rd C) (svblk C) (s_counts C) (s_bases C) (s_tb C))).
    cbn [MeasureExp.e_size GenAgreeMeasTac.senv_full GenAgreeMeasTac.dsize].
    unfold strand_sub_model. f_equal. apply tab_ext_lt'. intros k Hk. rewrite V1.
    rewrite tab_vnth by exact Hk. reflexivity.
Qed.

(* ------------------------------------------------------------------------------------ *)
(** * assembly + wiring *)

Definition terms_public_strand_table_proportions : bool :=
  is_some wsrc_Strand_table_proportions &&
  (is_some AssembleSrc.asm_Strand__assemble_vector && terms_strand_table_proportions).

Ltac wiring_some :=
  lazymatch goal with |- need (is_some None && _) _ => exact I | _ => idtac end;
  cbn [is_some andb].

Definition strand_order_ok (C : sctx) : Prop :=
  Forall (AssembleProofs.in_range (List.length (s_subs C)) (s_n C)) (s_order C).

Theorem public_strand_table_proportions_model :
  need terms_public_strand_table_proportions
  (forall C, List.length (s_counts C) = s_n C -> strand_order_ok C ->
     public_strand C "table_proportions" =
     PVec (Assemble.assemble_vec NaN (strand_props_base (s_counts C) (s_bases C)) (strand_sub_model C) (s_order C))).
Proof.
  unfold terms_public_strand_table_proportions, wsrc_Strand_table_proportions. wiring_some.
  generalize GenAgreeAssemble.gen_Strand__assemble_vector.
  destruct AssembleSrc.asm_Strand__assemble_vector as [e|] eqn:E; [|intros _; exact I]. intros G.
  cbn [is_some andb].
  use_need strand_table_proportions_chain terms_strand_table_proportions. intros T.
  needed. intros C Hn Ho. destruct (T C Hn) as [T0 T1].
  unfold public_strand. cbn [strand_member String.eqb Ascii.eqb Bool.eqb].
  unfold wsrc_Strand_table_proportions.
  cbn [sweval strand_measure String.eqb Ascii.eqb Bool.eqb andb].
  rewrite T0, T1. unfold asm_vector. rewrite E.
  assert (HL : List.length (strand_props_base (s_counts C) (s_bases C)) = s_n C)
    by (unfold strand_props_base; rewrite tab_length; exact Hn).
  assert (HS : List.length (strand_sub_model C) = List.length (s_subs C))
    by (unfold strand_sub_model; apply tab_length).
  pose proof (G xq NaN no_lit no_truthy (strand_props_base (s_counts C) (s_bases C)) (strand_sub_model C) (s_order C)) as HG.
  rewrite HL, HS in HG. specialize (HG Ho).
  exact (f_equal pval_of_aval HG).
Qed.

(* ------------------------------------------------------------------------------------ *)
(** * a survey *)

Definition sctx_of (n : nat) (subs : list subtotal) (rd : bool) (st : strand_out) (order : list Z) : sctx :=
  mkSctx n subs rd (st_counts st) (st_bases st)
         (match st_table_base st with Some x => x | None => NaN end) order.

Definition strand_display_ok (ms : list bool) (subs : list subtotal) (order : list Z) : Prop :=
  Forall (fun z => (- Z.of_nat (List.length subs) <= z < Z.of_nat (nval ms))%Z) order.

(* a strand member: its length, and every display row that shows a base element *)
Definition strand_rows_spec (P : pval) (order : list Z) (spec : nat -> xq -> Prop) : Prop :=
  pvlen P = Some (List.length order) /\
  forall i, i < List.length order -> (0 <= nth i order 0%Z)%Z -> spec (Z.to_nat (nth i order 0%Z)) (pvcell P i).

Lemma strand_rows_of_model C ms base subs (spec : nat -> xq -> Prop) :
  List.length base = nval ms ->
  Forall (AssembleProofs.in_range (List.length subs) (List.length base)) (s_order C) ->
  (forall r, r < nval ms -> spec r (vnth base r)) ->
  strand_rows_spec (PVec (Assemble.assemble_vec NaN base subs (s_order C))) (s_order C) spec.
Proof.
  intros HL Ho Hb. split.
  - cbn [pvlen]. rewrite AssembleProofs.assemble_vec_length. reflexivity.
  - intros i Hi H0. cbn [pvcell].
    rewrite (AssembleProofs.assemble_vec_nth NaN base subs (s_order C) i Hi (Forall_nth_in _ _ _ _ Ho Hi)).
    unfold AssembleProofs.vec_cell. rewrite (proj2 (Z.leb_le 0 _) H0).
    apply Hb. pose proof (Forall_nth_in _ _ 0%Z i Ho Hi) as R. unfold AssembleProofs.in_range in R. lia.
Qed.

Theorem compose_public_Strand_table_proportions_cat :
  need terms_public_strand_table_proportions
  (forall S v ms subs rd order st,
     wf_survey S ->
     strand_counts (dims_of KCat ms) (strand_payload v KCat ms S) false 0 = Some st ->
     strand_display_ok ms subs order ->
     strand_rows_spec (public_strand (sctx_of (nval ms) subs rd st order) "table_proportions") order
       (fun r x => ratio_spec x (wsum S (fun p => in_cat ms (ans p v) r)) (wsum S (fun p => ok_cat ms (ans p v))))).
Proof.
  use_need public_strand_table_proportions_model terms_public_strand_table_proportions. intros PM. needed.
  intros S v ms subs rd order st Hwf Hst Ho.
  destruct (strand_cat_from_payload S v ms) as [st' [E [Ec [Eb Ep]]]]. rewrite Hst in E. injection E as <-.
  assert (Hn : List.length (st_counts st) = nval ms) by (rewrite Ec; apply tab_length).
  rewrite (PM (sctx_of (nval ms) subs rd st order) Hn).
  - cbn [s_counts s_bases sctx_of]. rewrite <- Ep.
    apply (strand_rows_of_model (sctx_of (nval ms) subs rd st order) ms).
    + unfold st_cat_props, strand_props_base. rewrite tab_length, st_cat_counts_len. reflexivity.
    + unfold strand_sub_model. rewrite tab_length. cbn [s_subs sctx_of s_order].
      unfold st_cat_props, strand_props_base. rewrite tab_length, st_cat_counts_len. exact Ho.
    + intros r Hr. exact (strand_cat_proportion_cases S v ms Hwf r Hr).
  - exact Ho.
Qed.

Theorem compose_public_Strand_table_proportions_mr :
  need terms_public_strand_table_proportions
  (forall S v ms rd order st,
     wf_survey S ->
     strand_counts (dims_of KMr ms) (strand_payload v KMr ms S) false 0 = Some st ->
     strand_display_ok ms [] order ->
     strand_rows_spec (public_strand (sctx_of (nval ms) [] rd st order) "table_proportions") order
       (fun r x => ratio_spec x (wsum S (fun p => in_mr ms (ans p v) r)) (wsum S (fun p => ok_mr ms (ans p v) r)))).
Proof.
  use_need public_strand_table_proportions_model terms_public_strand_table_proportions. intros PM. needed.
  intros S v ms rd order st Hwf Hst Ho.
  destruct (strand_mr_from_payload S v ms) as [st' [E [Ec [Eb Ep]]]]. rewrite Hst in E. injection E as <-.
  assert (Hn : List.length (st_counts st) = nval ms) by (rewrite Ec; apply tab_length).
  rewrite (PM (sctx_of (nval ms) [] rd st order) Hn).
  - cbn [s_counts s_bases sctx_of]. rewrite <- Ep.
    assert (HL : List.length (st_mr_props S v ms) = nval ms)
      by (unfold st_mr_props, strand_props_base, st_mr_counts; rewrite !tab_length; reflexivity).
    apply (strand_rows_of_model (sctx_of (nval ms) [] rd st order) ms).
    + exact HL.
    + unfold strand_sub_model. rewrite tab_length. cbn [s_subs sctx_of s_order]. rewrite HL. exact Ho.
    + intros r Hr. exact (strand_mr_proportion_cases S v ms Hwf r Hr).
  - exact Ho.
Qed.

Lemma compose_public_terms_available_strand : terms_public_strand_table_proportions = true.
Proof. reflexivity. Qed.
