(* GenAgreeDimTypeOrder: Elements.from_typedef as generated from src/cr/cube/dimension.py (Gen/DimensionSrc.v),
   for EVERY type definition - WITH the branches Proofs/GenAgreeDimensionVisibility.v excludes:

     * a typedef carrying an "order" list: the element definitions are re-arranged into the order of the codes the
       catalogue knows ([reorder]: a code is looked up by the raw "id" of the definitions, the LAST definition of
       an id wins, unknown codes are skipped, definitions the list does not mention are dropped) BEFORE the
       Element objects are numbered - which is [ordered_defs] / [elements_of] of Model/TypedefOrder.v
       ([gen_dimtype_from_typedef_model]);
     * dimension type MR_SUBVAR: the element transforms are {**hidden, **elements} with hidden = what
       Elements._hidden_transforms returns for the (re-arranged) definitions and the "insertions" transforms;
     * dimension type DATETIME: building the label formatter reads typedef["subtype"].get("resolution") and
       looks it up in DATETIME_FORMATS ([fmt_ok]: that raises nothing).

   and Dimension.all_elements / valid_elements / shape on top of it ([dim_reads']). *)
From Coq Require Import List ZArith String Bool Lia Arith.
From CC Require Import Base.XQ Base.ListX Base.PyList Base.PyDict Model.DimType
  Model.PyDimension Model.PyDimType Model.DimValues Gen.DimensionSrc Gen.DimTypeSrc
  Proofs.GenAgreeDimensionLib Proofs.GenAgreeDimTypeLib Proofs.GenAgreeDimTypeElems.
From CC Require Base.Ident Model.TypedefOrder Model.CubeCounts.
Import ListNotations.
Local Close Scope Q_scope.
Local Open Scope Z_scope.
Local Open Scope string_scope.


(* --- the re-arrangement ------------------------------------------------------------------------------------- *)
(* the raw "id" entry of an element definition (for an array element NOT its element id, which is the alias) *)
Definition raw_id (def : jv) (c : ident) : Prop :=
  exists e, def = JDict e /\ jget e "id" = Some (jv_of_ident c).

(* typedef.get("order"): None, or a list of codes *)
Definition order_abs (ov : jv) (o : option (list ident)) : Prop :=
  match o with None => ov = JNone | Some codes => ov = JList (map jv_of_ident codes) end.

Definition reorder {A} (rids : list ident) (items : list A) (o : option (list ident)) : list A :=
  match o with
  | None => items
  | Some codes => flat_map (fun c => opt_list (find_last c (combine rids items))) codes
  end.

(* --- dicts keyed by identifiers ----------------------------------------------------------------------------------- *)
Definition kmap {A} (l : list (ident * A)) : list (jv * A) := map (fun p => (jv_of_ident (fst p), snd p)) l.

Lemma kmap_set {A} (d : list (ident * A)) k v :
  py_dict_set jv_eqb (kmap d) (jv_of_ident k) v = kmap (py_dict_set ident_eqb d k v).
Proof.
  induction d as [|[k0 v0] t IH]; cbn [kmap map py_dict_set fst snd]; [reflexivity|].
  rewrite jv_eqb_ident. destruct (ident_eqb k0 k); cbn [map fst snd]; [reflexivity|].
  unfold kmap in IH. rewrite IH. reflexivity.
Qed.

Lemma kmap_get {A} (d : list (ident * A)) c :
  py_dict_get jv_eqb (kmap d) (jv_of_ident c) = py_dict_get ident_eqb d c.
Proof.
  induction d as [|[k0 v0] t IH]; cbn [kmap map py_dict_get fst snd]; [reflexivity|].
  rewrite jv_eqb_ident. destruct (ident_eqb k0 c); [reflexivity|exact IH].
Qed.

Lemma kmap_of_pairs_gen {A} (l d : list (ident * A)) :
  fold_left (fun d kv => py_dict_set jv_eqb d (fst kv) (snd kv)) (kmap l) (kmap d)
  = kmap (fold_left (fun d kv => py_dict_set ident_eqb d (fst kv) (snd kv)) l d).
Proof.
  revert d. induction l as [|[k v] t IH]; intros d; cbn [kmap map fold_left fst snd]; [reflexivity|].
  rewrite kmap_set. apply IH.
Qed.

Lemma kmap_of_pairs {A} (l : list (ident * A)) :
  py_dict_of_pairs jv_eqb (kmap l) = kmap (py_dict_of_pairs ident_eqb l).
Proof. apply (kmap_of_pairs_gen l []). Qed.

Lemma fold_last {A} c (l : list (ident * A)) acc :
  fold_left (fun acc kv => if ident_eqb (fst kv) c then Some (snd kv) else acc) l acc
  = match find_last c l with Some x => Some x | None => acc end.
Proof.
  revert acc. induction l as [|[k x] t IH]; intros acc; cbn [fold_left find_last fst snd]; [reflexivity|].
  rewrite IH. destruct (find_last c t); [reflexivity|]. destruct (ident_eqb k c); reflexivity.
Qed.

Lemma codemap_lookup {A} (l : list (ident * A)) c :
  py_dict_get jv_eqb (py_dict_of_pairs jv_eqb (kmap l)) (jv_of_ident c) = find_last c l.
Proof.
  rewrite kmap_of_pairs, kmap_get, (py_dict_get_of_pairs ident_eqb Ident.ident_eqb_eq), fold_last.
  destruct (find_last c l); reflexivity.
Qed.

Lemma py_compM_mapped {A B C} (f : B -> res (option C)) (k : A -> B) (g : A -> option C) l :
  (forall x, f (k x) = Ok (g x)) -> py_compM f (map k l) = Ok (flat_map (fun x => opt_list (g x)) l).
Proof.
  intros H. induction l as [|x t IH]; cbn [map py_compM flat_map]; [reflexivity|].
  rewrite H, IH. cbn [Collator.bind]. destruct (g x); reflexivity.
Qed.

Lemma Forall2_combine {A B} (R : A -> B -> Prop) l l' :
  Forall2 R l l' -> Forall2 (fun x p => snd p = x /\ R x (fst p)) l (combine l' l).
Proof. induction 1; cbn [combine]; constructor; auto. Qed.

(* the two comprehensions of the "order" branch, with the generated closures as variables *)
Lemma order_branch (F : jv -> res (option (jv * jv))) (R : list (jv * jv) -> res jv) defs rids codes :
  Forall2 raw_id defs rids ->
  (forall def c, raw_id def c -> F def = Ok (Some (jv_of_ident c, def))) ->
  (forall pairs, R pairs =
     bind (py_compM (fun code => bind (pd_contains (py_dict_of_pairs jv_eqb pairs) code) (fun b =>
                       if b then bind (pd_getitem (py_dict_of_pairs jv_eqb pairs) code) (fun x => Ok (Some x))
                       else Ok None)) (map jv_of_ident codes))
          (fun r => Ok (JList r))) ->
  bind (py_compM F defs) R = Ok (JList (reorder rids defs (Some codes))).
Proof.
  intros HR HF HG.
  rewrite (py_compM_forall2 F _ (fun p : ident * jv => (jv_of_ident (fst p), snd p)) defs (combine rids defs)
             (Forall2_combine _ _ _ HR)) by (intros x [c d] [E H]; cbn [fst snd] in *; subst d; apply HF; exact H).
  cbn [Collator.bind]. rewrite HG. fold (kmap (combine rids defs)).
  rewrite (py_compM_mapped _ jv_of_ident (fun c => find_last c (combine rids defs))).
  - reflexivity.
  - intros c. unfold pd_contains, pd_getitem, jd_mem, jd_get, py_dict_mem.
    rewrite jv_hashable_ident, codemap_lookup.
    destruct (find_last c (combine rids defs)); reflexivity.
Qed.

Lemma reorder_forall2 {A B} (R : A -> B -> Prop) rids (xs : list A) (ys : list B) o :
  Forall2 R xs ys -> Forall2 R (reorder rids xs o) (reorder rids ys o).
Proof.
  intros H. destruct o as [codes|]; [|exact H]. cbn [reorder].
  assert (L : forall c, match find_last c (combine rids xs), find_last c (combine rids ys) with
                        | Some x, Some y => R x y | None, None => True | _, _ => False end).
  { intros c. revert rids. induction H as [|x y xs ys Hxy _ IH]; intros [|k rids]; cbn [combine find_last]; auto.
    specialize (IH rids).
    destruct (find_last c (combine rids xs)), (find_last c (combine rids ys)); try contradiction; auto.
    destruct (ident_eqb k c); auto. }
  induction codes as [|c t IH]; cbn [flat_map]; [constructor|].
  specialize (L c). destruct (find_last c (combine rids xs)), (find_last c (combine rids ys)); try contradiction;
    cbn [opt_list app]; [constructor; assumption | assumption].
Qed.

(* --- the label formatter ------------------------------------------------------------------------------------------ *)
(* building it raises nothing: the dimension is no datetime, or typedef["subtype"] is a dict whose "resolution" can
   be looked up in DATETIME_FORMATS (is hashable) *)
Definition fmt_ok (t : dtype) (ty : jdict) : Prop :=
  dtype_eqb t TDatetime = false \/
  exists st, jget ty "subtype" = Some (JDict st) /\ jv_hashable (jd_get_default st (JStr "resolution") JNone) = true.

(*@ C01 *)
Lemma gen_dimtype_fn__formatter :
  match src_fn__formatter with
  | Some f => forall t ty fmt, fmt_ok t ty -> f t (JDict ty) fmt = Ok tt
  | None => True end.
Proof.
  unfold src_fn__formatter.
  first [exact I | idtac].
  all: destruct src_STRDICT_DATETIME_FORMATS; [|exact I].
  all: intros t ty fmt [H | (st & Hs & Hh)]; cbv beta iota; unfold DT_DATETIME.
  all: try (rewrite H; reflexivity).
  all: destruct (dtype_eqb t TDatetime); cbn [negb]; [|reflexivity].
  all: rewrite pj_getitem_jget, Hs; dsimpl; rewrite pj_get_dict; dsimpl.
  all: unfold pj_strdict_get; rewrite Hh; reflexivity.
Qed.

(* the DATETIME_FORMATS table of dimension.py is the model's *)
(*@ C05 *)
Lemma gen_dimtype_DATETIME_FORMATS :
  match src_STRDICT_DATETIME_FORMATS with
  | Some tbl => tbl = datetime_formats
  | None => True end.
Proof.
  unfold src_STRDICT_DATETIME_FORMATS.
  first [exact I | reflexivity].
Qed.

(* --- Elements.from_typedef ------------------------------------------------------------------------------------------ *)
(*@ C01 *)
Lemma gen_dimtype_Elements_from_typedef :
  match src_Elements_from_typedef, src_Elements__hidden_transforms with
  | Some f, Some h => forall ty tr t fmt defs rids ids o ax hid,
      typedef_defs ty = Some defs ->
      match o with Some _ => Forall2 raw_id defs rids | None => True end ->
      Forall2 (wf_def t) defs ids ->
      order_abs (jd_get_default ty (JStr "order") JNone) o ->
      jd_get_default tr (JStr "elements") (JDict []) = JDict ax ->
      fmt_ok t ty ->
      (dtype_eqb t TMrSubvar = true ->
       h (JList (reorder rids defs o)) (jd_get_default tr (JStr "insertions") (JList [])) = Ok hid) ->
      f (JDict ty) (JDict tr) t fmt
      = Ok (elements_from t (if dtype_eqb t TMrSubvar then jd_update hid ax else ax) 0
                          (reorder rids defs o) (reorder rids ids o))
  | _, _ => True end.
Proof.
  unfold src_Elements_from_typedef, src__ElementTransforms___init__, src_Element___init__.
  first [exact I | idtac].
  all: destruct src_Elements__hidden_transforms as [h|]; [|exact I].
  all: generalize gen_fn__build_element_id; destruct src_fn__build_element_id as [bid|]; [intros Hbid | intros _; exact I].
  all: generalize gen_dimtype_fn__formatter; destruct src_fn__formatter as [fm|]; [intros Hfm | intros _; exact I].
  all: intros ty tr t fmt defs rids ids o ax hid Hd Hrid Hw Ho Hax Hfmt Hh; cbv beta iota.
  all: unfold typedef_defs in Hd; rewrite pj_getitem_jget; unfold jget.
  all: destruct (jd_get ty (JStr "class")) as [c|]; [|discriminate]; dsimpl.
  all: match goal with |- bind ?T _ = _ => assert (E1 : T = Ok (JList defs)) by
         (destruct (jv_eqb c (JStr "categorical")); rewrite pj_getitem_jget; unfold jget;
          match type of Hd with match jd_get ?a ?k with _ => _ end = _ =>
            destruct (jd_get a k) as [[| | | | |defs'|]|]; try discriminate Hd; inversion Hd; subst defs' end;
          reflexivity) end.
  all: rewrite E1; clear E1; dsimpl; rewrite pj_get_dict; dsimpl.
  (* the "order" branch *)
  all: match goal with |- bind ?T _ = _ => assert (E2 : T = Ok (JList (reorder rids defs o))) by
         (unfold order_abs in Ho; destruct o as [codes|]; rewrite Ho; cbn [jv_is_none negb reorder]; [|reflexivity];
          unfold pj_iter at 1 2; dsimpl; cbv zeta;
          match goal with |- bind (py_compM ?F _) ?R = _ => apply (order_branch F R defs rids codes Hrid) end;
          [ intros def c0 (e & -> & He); rewrite pj_getitem_jget, He; dsimpl; unfold pj_key;
            rewrite jv_hashable_ident; reflexivity
          | intros pairs; reflexivity ]) end.
  all: rewrite E2; clear E2; dsimpl; rewrite pj_get_dict, Hax; dsimpl.
  all: assert (Hw' : Forall2 (wf_def t) (reorder rids defs o) (reorder rids ids o)) by (apply reorder_forall2; exact Hw).
  all: set (ax' := if dtype_eqb t TMrSubvar then jd_update hid ax else ax).
  all: match goal with |- bind ?T _ = _ => assert (E3 : T = Ok (JDict ax')) by
         (unfold DT_MR_SUBVAR, ax'; destruct (dtype_eqb t TMrSubvar); [|reflexivity];
          rewrite pj_get_dict; dsimpl; rewrite (Hh eq_refl); reflexivity) end.
  all: rewrite E3; clear E3; dsimpl.
  all: unfold pj_iter; dsimpl; rewrite bind_ret.
  all: unfold py_enumerate; rewrite py_range_len.
  all: apply (fold_elements _ t ax' _ _ Hw').
  all: intros acc k def i (e & -> & Hg).
  all: cbv beta iota; rewrite Hbid, Hg; dsimpl.
  all: unfold pj_str; rewrite jv_str_ident; dsimpl.
  all: unfold pj_get; rewrite jv_hashable_ident; cbn [jv_hashable]; dsimpl.
  all: rewrite (Hfm t ty fmt Hfmt); reflexivity.
Qed.

(* --- against Model/TypedefOrder.v -------------------------------------------------------------------------------- *)
(* an element definition as the model's [edef]: an int id, missing = its "missing" entry is truthy *)
Definition edef_abs (def : jv) (e : TypedefOrder.edef) : Prop :=
  exists d, def = JDict d /\ jget d "id" = Some (JInt (TypedefOrder.ed_id e)) /\
            TypedefOrder.ed_missing e = def_missing def.

Definition zorder (o : option (list Z)) : option (list ident) := option_map (map Ident.IInt) o.

Lemma find_last_codemap (jdefs : list jv) (edefs : list TypedefOrder.edef) code :
  Forall2 edef_abs jdefs edefs ->
  match find_last (Ident.IInt code) (combine (map (fun e => Ident.IInt (TypedefOrder.ed_id e)) edefs) jdefs),
        TypedefOrder.codemap_get edefs code with
  | Some def, Some e => edef_abs def e
  | None, None => True
  | _, _ => False
  end.
Proof.
  induction 1 as [|def e ds es Hde _ IH]; cbn [map combine find_last TypedefOrder.codemap_get]; [exact I|].
  destruct (find_last _ _), (TypedefOrder.codemap_get es code); try contradiction; [exact IH|].
  cbn [ident_eqb Ident.ident_eqb]. destruct (Z.eqb (TypedefOrder.ed_id e) code); [exact Hde | exact I].
Qed.

Lemma reorder_ordered_defs jdefs edefs o :
  Forall2 edef_abs jdefs edefs ->
  Forall2 edef_abs (reorder (map (fun e => Ident.IInt (TypedefOrder.ed_id e)) edefs) jdefs (zorder o))
                   (TypedefOrder.ordered_defs edefs o).
Proof.
  intros H. destruct o as [codes|]; cbn [zorder option_map reorder TypedefOrder.ordered_defs]; [|exact H].
  induction codes as [|c t IH]; cbn [map flat_map]; [constructor|].
  pose proof (find_last_codemap jdefs edefs c H) as L.
  destruct (find_last _ _), (TypedefOrder.codemap_get edefs c); try contradiction; cbn [opt_list app];
    [constructor; assumption | assumption].
Qed.

(* the Element objects of a dimension, against the model's: the same definitions, numbered by PAYLOAD position *)
Definition element_abs (el : pyelement) (me : TypedefOrder.element) : Prop :=
  edef_abs (el_element_dict el) (TypedefOrder.el_def me) /\ el_index el = Z.of_nat (TypedefOrder.el_index me).

Lemma elements_from_model t ax jdefs ids edefs :
  Forall2 edef_abs jdefs edefs -> List.length ids = List.length jdefs ->
  forall s, Forall2 element_abs (elements_from t ax s jdefs ids)
                    (map (fun pe => TypedefOrder.mkElement (snd pe) (fst pe)) (combine (seq s (List.length edefs)) edefs)).
Proof.
  intros H. revert ids. induction H as [|def e ds es Hde _ IH]; intros [|i is] Hl s; try discriminate; [constructor|].
  cbn [elements_from List.length seq combine map]. constructor.
  - split; [exact Hde | reflexivity].
  - apply IH. cbn in Hl. lia.
Qed.

(* for a non-array, non-datetime dimension the element id IS the raw "id" *)
Lemma edef_abs_ids t jdefs edefs :
  dt_in t [TCaSubvar; TMrSubvar; TNumArr] = false -> dtype_eqb t TDatetime = false ->
  Forall2 edef_abs jdefs edefs ->
  Forall2 raw_id jdefs (map (fun e => Ident.IInt (TypedefOrder.ed_id e)) edefs) /\
  Forall2 (wf_def t) jdefs (map (fun e => Ident.IInt (TypedefOrder.ed_id e)) edefs).
Proof.
  intros Ha Hd H. induction H as [|def e ds es (d & -> & Hi & _) _ [IH1 IH2]]; cbn [map]; split; try constructor; auto.
  - exists d. split; [reflexivity | exact Hi].
  - exists d. split; [reflexivity|]. unfold element_id_key. rewrite Ha, Hd. cbn [andb]. exact Hi.
Qed.

(*@ C01 *)
Lemma gen_dimtype_from_typedef_model :
  match src_Elements_from_typedef, src_Elements__hidden_transforms with
  | Some f, Some h => forall ty tr t fmt jdefs edefs o ax,
      dt_in t [TCaSubvar; TMrSubvar; TNumArr] = false -> dtype_eqb t TDatetime = false ->
      typedef_defs ty = Some jdefs -> Forall2 edef_abs jdefs edefs ->
      order_abs (jd_get_default ty (JStr "order") JNone) (zorder o) ->
      jd_get_default tr (JStr "elements") (JDict []) = JDict ax ->
      exists els, f (JDict ty) (JDict tr) t fmt = Ok els /\
                  Forall2 element_abs els (TypedefOrder.elements_of edefs o)
  | _, _ => True end.
Proof.
  generalize gen_dimtype_Elements_from_typedef.
  destruct src_Elements_from_typedef as [f|]; [|intros _; exact I].
  destruct src_Elements__hidden_transforms as [h|]; [|intros _; exact I].
  intros G ty tr t fmt jdefs edefs o ax Ha Hd Hdefs Habs Ho Hax.
  destruct (edef_abs_ids t jdefs edefs Ha Hd Habs) as [Hraw Hwf].
  set (rids := map (fun e => Ident.IInt (TypedefOrder.ed_id e)) edefs) in *.
  assert (Hm : dtype_eqb t TMrSubvar = false).
  { unfold dt_in in Ha. cbn [existsb] in Ha. destruct (dtype_eqb t TCaSubvar); [discriminate|].
    destruct (dtype_eqb t TMrSubvar); [discriminate|reflexivity]. }
  eexists. split.
  - apply (G ty tr t fmt jdefs rids rids (zorder o) ax []); auto.
    + destruct (zorder o); [exact Hraw | exact I].
    + left; exact Hd.
    + rewrite Hm. discriminate.
  - rewrite Hm. unfold TypedefOrder.elements_of, TypedefOrder.number_elements.
    apply elements_from_model.
    + apply reorder_ordered_defs. exact Habs.
    + symmetry. apply (Forall2_len _ _ _ (reorder_forall2 (wf_def t) rids jdefs rids (zorder o) Hwf)).
Qed.

(* --- Dimension.all_elements / valid_elements / shape --------------------------------------------------------------- *)
(* what the Dimension members read, for EVERY dimension (cf. [dim_reads] of Proofs/GenAgreeDimensionVisibility.v,
   which excludes an "order" list, MR_SUBVAR and DATETIME) *)
Record dim_reads' (t : dtype) (dd tr ty : jdict) (defs : list jv) (rids ids : list ident)
       (o : option (list ident)) (ax : jdict) : Prop := {
  dr_type' : jget dd "type" = Some (JDict ty);
  dr_defs' : typedef_defs ty = Some defs;
  dr_raw' : match o with Some _ => Forall2 raw_id defs rids | None => True end;
  dr_ids' : Forall2 (wf_def t) defs ids;
  dr_order' : order_abs (jd_get_default ty (JStr "order") JNone) o;
  dr_ax' : jd_get_default tr (JStr "elements") (JDict []) = JDict ax;
  dr_fmt' : fmt_ok t ty
}.

Definition all_elems (t : dtype) (ax : jdict) (defs : list jv) (rids ids : list ident) (o : option (list ident))
  : pyelements :=
  elements_from t ax 0 (reorder rids defs o) (reorder rids ids o).

(*@ C01 *)
Lemma gen_dimtype_Dimension_all_elements :
  match src_Dimension_all_elements, src_Elements__hidden_transforms with
  | Some f, Some h => forall t dd tr ty defs rids ids o ax hid, dim_reads' t dd tr ty defs rids ids o ax ->
      (dtype_eqb t TMrSubvar = true ->
       h (JList (reorder rids defs o)) (jd_get_default tr (JStr "insertions") (JList [])) = Ok hid) ->
      f (mkPyDimension t (JDict dd) (JDict tr))
      = Ok (all_elems t (if dtype_eqb t TMrSubvar then jd_update hid ax else ax) defs rids ids o)
  | _, _ => True end.
Proof.
  unfold src_Dimension_all_elements.
  first [exact I | idtac].
  all: generalize gen_dimtype_Elements_from_typedef.
  all: destruct src_Elements_from_typedef as [ft|]; [|intros _; exact I].
  all: destruct src_Elements__hidden_transforms as [h|]; [|intros _; exact I].
  all: intros G t dd tr ty defs rids ids o ax hid [] Hh; cbv beta iota; dsimpl.
  all: match goal with Ht : jget _ "type" = Some _ |- _ => rewrite pj_getitem_jget, Ht end; dsimpl.
  all: rewrite (G ty tr t tt defs rids ids o ax hid) by assumption; reflexivity.
Qed.

Lemma elements_from_dicts' t ax s defs ids :
  Forall2 (wf_def t) defs ids -> Forall el_is_dict (elements_from t ax s defs ids).
Proof. apply elements_from_dicts. Qed.

Definition valid_of (els : pyelements) : pyelements := filter (fun el => negb (el_missing el)) els.

(*@ C01 *)
Lemma gen_dimtype_Dimension_valid_elements :
  match src_Dimension_valid_elements, src_Elements__hidden_transforms with
  | Some f, Some h => forall t dd tr ty defs rids ids o ax hid, dim_reads' t dd tr ty defs rids ids o ax ->
      (dtype_eqb t TMrSubvar = true ->
       h (JList (reorder rids defs o)) (jd_get_default tr (JStr "insertions") (JList [])) = Ok hid) ->
      f (mkPyDimension t (JDict dd) (JDict tr))
      = Ok (valid_of (all_elems t (if dtype_eqb t TMrSubvar then jd_update hid ax else ax) defs rids ids o))
  | _, _ => True end.
Proof.
  unfold src_Dimension_valid_elements.
  first [exact I | idtac].
  all: generalize gen_dimtype_Dimension_all_elements.
  all: destruct src_Dimension_all_elements as [ae|]; [|intros _; exact I].
  all: generalize gen_dimtype_Elements_valid_elements.
  all: destruct src_Elements_valid_elements as [ve|]; [|intros _ _; exact I].
  all: destruct src_Elements__hidden_transforms as [h|]; [|intros _ _; exact I].
  all: intros G2 G1 t dd tr ty defs rids ids o ax hid Hr Hh; cbv beta iota.
  all: rewrite (G1 t dd tr ty defs rids ids o ax hid Hr Hh); dsimpl.
  all: rewrite G2, bind_ret; [reflexivity|].
  all: apply elements_from_dicts'; apply reorder_forall2; destruct Hr; assumption.
Qed.

(* Dimension.shape: the number of ALL elements - of the re-arranged definitions when the typedef has an order *)
Lemma elements_from_length t ax s defs ids :
  List.length defs = List.length ids -> List.length (elements_from t ax s defs ids) = List.length defs.
Proof.
  revert s ids. induction defs as [|d ds IH]; intros s [|i is] H; try discriminate; [reflexivity|].
  cbn [elements_from List.length]. rewrite IH; [reflexivity | cbn in H; lia].
Qed.

(*@ C01 *)
Lemma gen_dimtype_Dimension_shape :
  match src_Dimension_shape, src_Elements__hidden_transforms with
  | Some f, Some h => forall t dd tr ty defs rids ids o ax hid, dim_reads' t dd tr ty defs rids ids o ax ->
      (dtype_eqb t TMrSubvar = true ->
       h (JList (reorder rids defs o)) (jd_get_default tr (JStr "insertions") (JList [])) = Ok hid) ->
      f (mkPyDimension t (JDict dd) (JDict tr)) = Ok (py_len (reorder rids defs o))
  | _, _ => True end.
Proof.
  unfold src_Dimension_shape.
  first [exact I | idtac].
  all: generalize gen_dimtype_Dimension_all_elements.
  all: destruct src_Dimension_all_elements as [ae|]; [|intros _; exact I].
  all: destruct src_Elements__hidden_transforms as [h|]; [|intros _; exact I].
  all: intros G t dd tr ty defs rids ids o ax hid Hr Hh; cbv beta iota.
  all: rewrite (G t dd tr ty defs rids ids o ax hid Hr Hh); dsimpl; unfold all_elems, py_len.
  all: rewrite elements_from_length; [reflexivity|].
  all: apply (Forall2_len _ _ _ (reorder_forall2 (wf_def t) rids defs ids o (dr_ids' _ _ _ _ _ _ _ _ _ Hr))).
Qed.

(* --- the valid elements, for the compositions (Proofs/GenAgreeDimTypeCompose*.v) ---------------------------------- *)
Lemma el_missing_def t ax k def i : el_missing (element_of t ax k def i) = DimValues.def_missing def.
Proof.
  unfold el_missing, element_of, DimValues.def_missing. cbn [el_element_dict].
  destruct def; try reflexivity. rewrite jget_default. destruct (jget d "missing"); reflexivity.
Qed.

(* the valid elements of a dimension, as (definition, element id) pairs *)
Definition valid_pairs (defs : list jv) (ids : list ident) : list (jv * ident) :=
  filter (fun di => negb (DimValues.def_missing (fst di))) (combine defs ids).

Lemma valid_of_elements t ax defs ids : forall s,
  List.length defs = List.length ids ->
  Forall2 (fun el di => el_element_dict el = fst di /\
                        el_element_transforms el = mkPyXforms (xform_of ax (snd di)))
          (valid_of (elements_from t ax s defs ids)) (valid_pairs defs ids).
Proof.
  revert ids. induction defs as [|d ds IH]; intros [|i is] s Hl; try discriminate; [constructor|].
  unfold valid_of, valid_pairs in *. cbn [elements_from combine filter fst].
  rewrite el_missing_def. destruct (DimValues.def_missing d); cbn [negb].
  - apply IH. simpl in Hl. lia.
  - constructor; [split; reflexivity|]. apply IH. simpl in Hl. lia.
Qed.

Lemma valid_pairs_defs defs ids : List.length defs = List.length ids -> map fst (valid_pairs defs ids) = valid_defs defs.
Proof.
  revert ids. induction defs as [|d ds IH]; intros [|i is] Hl; try discriminate; [reflexivity|].
  unfold valid_pairs, valid_defs in *. cbn [combine filter fst]. destruct (DimValues.def_missing d); cbn [negb map fst].
  - apply IH. simpl in Hl. lia.
  - f_equal. apply IH. simpl in Hl. lia.
Qed.

Lemma valid_is_dict t ax s defs ids :
  Forall2 (wf_def t) defs ids -> Forall el_is_dict (valid_of (elements_from t ax s defs ids)).
Proof.
  intros H. apply Forall_forall. intros el Hin. unfold valid_of in Hin. apply filter_In in Hin. destruct Hin as [Hin _].
  pose proof (elements_from_dicts t ax s defs ids H) as HD. rewrite Forall_forall in HD. exact (HD el Hin).
Qed.

