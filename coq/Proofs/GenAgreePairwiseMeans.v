(* Proofs/GenAgreePairwiseMeans.v -- GenAgree for C13, means path: what matrix/measure.py SAYS NOW for
     SecondOrderMeasures.pairwise_significance_means_t_stats(column_idx) -> _PairwiseMeansSigTStats
         t_stats, blocks (NanSubtotals.blocks of t_stats)
     SecondOrderMeasures.pairwise_significance_means_p_vals(column_idx)  -> _PairwiseMeansSigPVals
         p_vals, _df, blocks
   denotes [welch_tblock] / [welch_dfblock] of Model/Pairwise.v and [welch_pblock] of
   Model/PairwiseP.v: Welch's statistic (signed square) of every column against column [sel] of the
   same row, on the cube's means / stddev / unweighted counts; NaN everywhere against a selected
   SUBTOTAL column (sel < 0) -- the guard in BOTH t_stats and p_vals -- and in the three subtotal
   blocks; Satterthwaite's degrees of freedom; p = 2 (1 - cdf(|t|, df)) for every function cdf.
   See GenAgreePairTac.v. *)
From Coq Require Import QArith Qabs ZArith List Bool Lia Arith String.
From CC Require Import Base.XQ Base.ListX Base.MeasureExp Base.PairExp Model.Pairwise Model.PairwiseP
     Gen.PairwiseSrc Proofs.GenAgreePairTac.
Import ListNotations.
Local Close Scope Q_scope.
Local Open Scope string_scope.
Local Open Scope nat_scope.

Definition cM (cubem : string -> string -> list (list xq)) := cubem "cube_means" "means".
Definition cS (cubem : string -> string -> list (list xq)) := cubem "cube_stddev" "stddev".
Definition cN (cubem : string -> string -> list (list xq)) := cubem "unweighted_cube_counts" "counts".

Ltac means_cases sel Hs Hsb :=
  destruct (sel <? 0)%Z eqn:Hsb;
  pose proof Hsb as Hs;
  [apply Z.ltb_lt in Hs | apply Z.ltb_ge in Hs; rewrite ?nidx_pos by lia];
  pair_eval.

Ltac gen_means_t :=
  punfold_srcs;
  lazymatch goal with
  | |- True => exact I
  | _ =>
      let Hs := fresh "Hs" in let Hsb := fresh "Hsb" in
      let i := fresh "i" in let j := fresh "j" in let Hi := fresh "Hi" in let Hj := fresh "Hj" in
      intros nr nc nrs ncs sel blk pblk cubem flag cdf [HMr HMc] Hsel;
      pair_eval; means_cases sel Hs Hsb; pcells i j Hi Hj; shape_use;
      unfold welch_tblock, cM, cS, cN; rewrite Hsb; fold (cM cubem); rewrite ?HMr, ?HMc;
      unfold cM; rewrite tab2_mnth by assumption;
      [ reflexivity
      | unfold welch_tabs, ssq; rewrite xdiv_sqrt_guard; reflexivity ]
  end.

Lemma gen_PairwiseMeansSigTStats_t_stats :
  match src_PairwiseMeansSigTStats_t_stats with
  | Some e => forall nr nc nrs ncs sel blk pblk cubem flag cdf,
      shaped (cM cubem) nr nc -> (sel < Z.of_nat nc)%Z ->
      pagrees_mat (penv_std nr nc nrs ncs sel blk pblk cubem flag cdf)
                  (pev true (penv_std nr nc nrs ncs sel blk pblk cubem flag cdf) e) DR DC
                  (mnth (welch_tblock sel (cM cubem) (cS cubem) (cN cubem)))
  | None => True
  end.
Proof. gen_means_t. Qed.

Lemma gen_PairwiseMeansSigTStats_blocks_00 :
  match src_PairwiseMeansSigTStats_blocks_00 with
  | Some e => forall nr nc nrs ncs sel blk pblk cubem flag cdf,
      shaped (cM cubem) nr nc -> (sel < Z.of_nat nc)%Z ->
      pagrees_mat (penv_std nr nc nrs ncs sel blk pblk cubem flag cdf)
                  (pev true (penv_std nr nc nrs ncs sel blk pblk cubem flag cdf) e) DR DC
                  (mnth (welch_tblock sel (cM cubem) (cS cubem) (cN cubem)))
  | None => True
  end.
Proof. gen_means_t. Qed.

(* the three subtotal blocks are NaN, whatever the selected column *)
Ltac gen_means_nan :=
  punfold_srcs;
  lazymatch goal with
  | |- True => exact I
  | _ =>
      let Hs := fresh "Hs" in let Hsb := fresh "Hsb" in
      let i := fresh "i" in let j := fresh "j" in let Hi := fresh "Hi" in let Hj := fresh "Hj" in
      intros nr nc nrs ncs sel blk pblk cubem flag cdf Hsel;
      pair_eval; means_cases sel Hs Hsb; pcells i j Hi Hj; reflexivity
  end.

Lemma gen_PairwiseMeansSigTStats_blocks_01 :
  match src_PairwiseMeansSigTStats_blocks_01 with
  | Some e => forall nr nc nrs ncs sel blk pblk cubem flag cdf,
      (sel < Z.of_nat nc)%Z ->
      pagrees_mat (penv_std nr nc nrs ncs sel blk pblk cubem flag cdf)
                  (pev true (penv_std nr nc nrs ncs sel blk pblk cubem flag cdf) e) DR DCS
                  (fun _ _ => NaN)
  | None => True
  end.
Proof. gen_means_nan. Qed.

Lemma gen_PairwiseMeansSigTStats_blocks_10 :
  match src_PairwiseMeansSigTStats_blocks_10 with
  | Some e => forall nr nc nrs ncs sel blk pblk cubem flag cdf,
      (sel < Z.of_nat nc)%Z ->
      pagrees_mat (penv_std nr nc nrs ncs sel blk pblk cubem flag cdf)
                  (pev true (penv_std nr nc nrs ncs sel blk pblk cubem flag cdf) e) DRS DC
                  (fun _ _ => NaN)
  | None => True
  end.
Proof. gen_means_nan. Qed.

Lemma gen_PairwiseMeansSigTStats_blocks_11 :
  match src_PairwiseMeansSigTStats_blocks_11 with
  | Some e => forall nr nc nrs ncs sel blk pblk cubem flag cdf,
      (sel < Z.of_nat nc)%Z ->
      pagrees_mat (penv_std nr nc nrs ncs sel blk pblk cubem flag cdf)
                  (pev true (penv_std nr nc nrs ncs sel blk pblk cubem flag cdf) e) DRS DCS
                  (fun _ _ => NaN)
  | None => True
  end.
Proof. gen_means_nan. Qed.

(* ---- degrees of freedom (a selected base column; p_vals never reads _df otherwise) ---- *)
Lemma gen_PairwiseMeansSigPVals__df :
  match src_PairwiseMeansSigPVals__df with
  | Some e => forall nr nc nrs ncs sel blk pblk cubem flag cdf,
      shaped (cS cubem) nr nc -> (0 <= sel < Z.of_nat nc)%Z ->
      pagrees_mat (penv_std nr nc nrs ncs sel blk pblk cubem flag cdf)
                  (pev false (penv_std nr nc nrs ncs sel blk pblk cubem flag cdf) e) DR DC
                  (mnth (welch_dfblock sel (cS cubem) (cN cubem)))
  | None => True
  end.
Proof.
  punfold_srcs;
  lazymatch goal with
  | |- True => exact I
  | _ =>
      intros nr nc nrs ncs sel blk pblk cubem flag cdf [HSr HSc] Hsel;
      pair_eval; rewrite ?nidx_pos by lia; pair_eval; pcells i j Hi Hj; shape_use;
      unfold welch_dfblock; rewrite HSr, HSc; rewrite tab2_mnth by assumption;
      unfold welch_df, xsq, cS, cN; reflexivity
  end.
Qed.

(* ---- p-values ---- *)
Ltac gen_means_p :=
  punfold_srcs;
  lazymatch goal with
  | |- True => exact I
  | _ =>
      let Hs := fresh "Hs" in let Hsb := fresh "Hsb" in
      let i := fresh "i" in let j := fresh "j" in let Hi := fresh "Hi" in let Hj := fresh "Hj" in
      intros nr nc nrs ncs sel blk pblk cubem flag cdf [HMr HMc] [HSr HSc] Hsel;
      pair_eval; means_cases sel Hs Hsb; pcells i j Hi Hj; shape_use;
      unfold welch_pblock; rewrite Hsb; rewrite ?HMr, ?HMc; rewrite tab2_mnth by assumption;
      [ reflexivity
      | unfold welch_tblock, welch_dfblock; rewrite Hsb, HMr, HMc, HSr, HSc;
        rewrite !tab2_mnth by assumption;
        unfold pval_x, welch_tabs, welch_df, xsq, ssq, cM, cS, cN; rewrite xdiv_sqrt_guard; reflexivity ]
  end.

Lemma gen_PairwiseMeansSigPVals_p_vals :
  match src_PairwiseMeansSigPVals_p_vals with
  | Some e => forall nr nc nrs ncs sel blk pblk cubem flag cdf,
      shaped (cM cubem) nr nc -> shaped (cS cubem) nr nc -> (sel < Z.of_nat nc)%Z ->
      pagrees_mat (penv_std nr nc nrs ncs sel blk pblk cubem flag cdf)
                  (pev false (penv_std nr nc nrs ncs sel blk pblk cubem flag cdf) e) DR DC
                  (mnth (welch_pblock cdf sel (cM cubem) (cS cubem) (cN cubem)))
  | None => True
  end.
Proof. gen_means_p. Qed.

Lemma gen_PairwiseMeansSigPVals_blocks_00 :
  match src_PairwiseMeansSigPVals_blocks_00 with
  | Some e => forall nr nc nrs ncs sel blk pblk cubem flag cdf,
      shaped (cM cubem) nr nc -> shaped (cS cubem) nr nc -> (sel < Z.of_nat nc)%Z ->
      pagrees_mat (penv_std nr nc nrs ncs sel blk pblk cubem flag cdf)
                  (pev false (penv_std nr nc nrs ncs sel blk pblk cubem flag cdf) e) DR DC
                  (mnth (welch_pblock cdf sel (cM cubem) (cS cubem) (cN cubem)))
  | None => True
  end.
Proof. gen_means_p. Qed.

Lemma gen_PairwiseMeansSigPVals_blocks_01 :
  match src_PairwiseMeansSigPVals_blocks_01 with
  | Some e => forall nr nc nrs ncs sel blk pblk cubem flag cdf,
      (sel < Z.of_nat nc)%Z ->
      pagrees_mat (penv_std nr nc nrs ncs sel blk pblk cubem flag cdf)
                  (pev false (penv_std nr nc nrs ncs sel blk pblk cubem flag cdf) e) DR DCS
                  (fun _ _ => NaN)
  | None => True
  end.
Proof. gen_means_nan. Qed.

Lemma gen_PairwiseMeansSigPVals_blocks_10 :
  match src_PairwiseMeansSigPVals_blocks_10 with
  | Some e => forall nr nc nrs ncs sel blk pblk cubem flag cdf,
      (sel < Z.of_nat nc)%Z ->
      pagrees_mat (penv_std nr nc nrs ncs sel blk pblk cubem flag cdf)
                  (pev false (penv_std nr nc nrs ncs sel blk pblk cubem flag cdf) e) DRS DC
                  (fun _ _ => NaN)
  | None => True
  end.
Proof. gen_means_nan. Qed.

Lemma gen_PairwiseMeansSigPVals_blocks_11 :
  match src_PairwiseMeansSigPVals_blocks_11 with
  | Some e => forall nr nc nrs ncs sel blk pblk cubem flag cdf,
      (sel < Z.of_nat nc)%Z ->
      pagrees_mat (penv_std nr nc nrs ncs sel blk pblk cubem flag cdf)
                  (pev false (penv_std nr nc nrs ncs sel blk pblk cubem flag cdf) e) DRS DCS
                  (fun _ _ => NaN)
  | None => True
  end.
Proof. gen_means_nan. Qed.
