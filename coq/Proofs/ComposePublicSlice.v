(* Proofs/ComposePublicSlice.v -- the COMPOSITION of the source translators, part 4: a survey.

   The context of a CAT / MR x CAT / MR slice (2-D, or partition k of a 3-D cube) of a SURVEY S:
   the cube-measure arrays are the four base arrays Model/CubeCounts.v::slice_counts extracts from the
   flat payload of `tabulate S` ([survey_payload], Proofs/ComposePayload.v); any subtotals, any flags,
   any pair of in-range signed display orders (every ordered / hidden / pruned / subtotal-bearing
   display is such a pair).

   COMPOSED THEOREMS (Proofs/ComposePublicC03.v, C11, C12, C16, C02; this file has the context and the generic
   steps only, no link lemma is used here):  IF the generated terms of the chain are available THEN for every survey,
   every such display, the public value
        [public_slice C p] = the wiring term of p (Gen/WiringSrc.v)
                             over the evaluation of the generated `_assemble_matrix` term (Gen/AssembleSrc.v)
                             over the evaluations of the generated block terms (Gen/MeasureSrc.v, BasesSrc.v)
   has the shape (|row order|, |column order|) and at display cell (i, j)
     * of two base elements r = ro[i], c = co[j]:  the respondent-level number of the property --
         counts:              w(row r and column c)
         column proportions:  w(row r and column c) / w(eligible for row r, in column c),
                              NaN iff that base is 0, else a number in [0, 1]          ([ratio_spec])
         (row / table proportions alike);
     * of a subtotal row (negative ro[i]) without subtrahends of a categorical rows dimension:
         the same number for the MERGED category in the survey recoded by Spec/Merge.v.
   The last step is Proofs/ComposeBase.v / ComposeProportions.v / MergeMeasures.v (C01-C04 END TO END). *)
From Coq Require Import QArith ZArith List Bool Lia Arith String.
From CC Require Import Base.XQ Base.ListX Base.WiringExp Spec.Survey Spec.Merge
     Model.Subtotals Model.Proportions Model.CubeCounts
     Proofs.CubeCountsProofs Proofs.ComposeBase Proofs.ComposeProportions Proofs.ComposePayload
     Proofs.MergeSurvey Proofs.MergeMeasures
     Proofs.ComposePublicSem Proofs.ComposePublicLinks Proofs.ComposePublicChainDefs.
From CC Require Base.MeasureExp Gen.WiringSrc Gen.AssembleSrc Proofs.AssembleProofs Proofs.GenAgreeMeasTac.
Import ListNotations.
Local Close Scope Q_scope.
Local Open Scope string_scope.
Local Open Scope nat_scope.
Local Infix "=s" := String.eqb (at level 70).

Import CC.Gen.WiringSrc.

(* ------------------------------------------------------------------------------------ *)
(** * the context of a survey slice *)

(* self._cube_measures.weighted_cube_counts.<a> *)
Definition cubem_so (so : slice_out) (c a : string) : mat :=
  if c =s "weighted_cube_counts" then
    if a =s "counts" then so_counts so
    else if a =s "row_bases" then so_row_bases so
    else if a =s "column_bases" then so_column_bases so
    else if a =s "table_bases" then so_table_bases so
    else []
  else [].

Definition ctx_so (nr nc : nat) (rsubs csubs : list subtotal) (dn rd cd : bool)
           (flag : string -> bool) (so : slice_out) (ro co : list Z) : pctx :=
  mkPctx nr nc rsubs csubs rd cd (cubem_so so) (fun _ _ => dn) flag
         false (fun _ _ => NaN) [] [] ro co.

Section Survey.
  Variable S : survey.
  Variable tv : tvar.
  Variable vr : nat.
  Variable kr : kind.
  Variable mr : list bool.
  Variable vc : nat.
  Variable kc : kind.
  Variable mc : list bool.
  Variable k : nat.
  Variables rsubs csubs : list subtotal.
  Variables dn rd cd : bool.
  Variable flag : string -> bool.
  Variables ro co : list Z.
  Variable so : slice_out.

  Hypothesis Ht : t_ok tv.
  Hypothesis Hr : cat_or_mr kr.
  Hypothesis Hc : cat_or_mr kc.
  Hypothesis Hk : k < t_n tv.
  (* the payload of the cube query for S, read by the model of the cube layer *)
  Hypothesis Hso :
    slice_counts (cube_dims tv kr mr kc mc) (survey_payload tv vr kr mr vc kc mc S) k = Some so.

  Definition Cs : pctx := ctx_so (nval mr) (nval mc) rsubs csubs dn rd cd flag so ro co.

  Lemma so_fields :
    so_counts so = t_counts S tv vr kr mr vc kc mc k /\
    so_row_bases so = t_rb S tv vr kr mr vc kc mc k /\
    so_column_bases so = t_cb S tv vr kr mr vc kc mc k /\
    so_table_bases so = t_tb S tv vr kr mr vc kc mc k.
  Proof.
    destruct (slice_counts_of_survey S tv vr kr mr vc kc mc k Ht Hr Hc Hk) as [so' [E F]].
    rewrite Hso in E. injection E as <-. exact F.
  Qed.

  Lemma Cs_counts : m_counts Cs = t_counts S tv vr kr mr vc kc mc k.
  Proof. exact (proj1 so_fields). Qed.
  Lemma Cs_rb : m_rb Cs = t_rb S tv vr kr mr vc kc mc k.
  Proof. exact (proj1 (proj2 so_fields)). Qed.
  Lemma Cs_cb : m_cb Cs = t_cb S tv vr kr mr vc kc mc k.
  Proof. exact (proj1 (proj2 (proj2 so_fields))). Qed.
  Lemma Cs_tb : m_tb Cs = t_tb S tv vr kr mr vc kc mc k.
  Proof. exact (proj2 (proj2 (proj2 so_fields))). Qed.

  Lemma Cs_cube_tab a :
    a = "counts" \/ a = "row_bases" \/ a = "column_bases" \/ a = "table_bases" -> cube_tab Cs a.
  Proof.
    unfold cube_tab. intros [-> | [-> | [-> | ->]]].
    - change (is_tab (nval mr) (nval mc) (m_counts Cs)). rewrite Cs_counts. apply is_tab_tab2.
    - change (is_tab (nval mr) (nval mc) (m_rb Cs)). rewrite Cs_rb. apply is_tab_tab2.
    - change (is_tab (nval mr) (nval mc) (m_cb Cs)). rewrite Cs_cb. apply is_tab_tab2.
    - change (is_tab (nval mr) (nval mc) (m_tb Cs)). rewrite Cs_tb. apply is_tab_tab2.
  Qed.

  Lemma Cs_first_order : 0 < nval mr -> 0 < nval mc -> first_order_ok Cs.
  Proof.
    intros H1 H2. unfold first_order_ok. repeat split; try (apply Cs_cube_tab; tauto); assumption.
  Qed.

  (* the model structures of the context are the ones of the END TO END theorems *)
  Lemma Cs_B_counts :
    B_counts Cs = count_blocks (nval mr) (nval mc) rsubs csubs (t_counts S tv vr kr mr vc kc mc k) dn.
  Proof. unfold B_counts. rewrite Cs_counts. reflexivity. Qed.
  Lemma Cs_B_rowp : B_rowp Cs = s_row_props S tv vr kr mr vc kc mc k rsubs csubs dn rd cd.
  Proof. unfold B_rowp, s_row_props. rewrite Cs_counts, Cs_rb. reflexivity. Qed.
  Lemma Cs_B_colp : B_colp Cs = s_col_props S tv vr kr mr vc kc mc k rsubs csubs dn rd cd.
  Proof. unfold B_colp, s_col_props. rewrite Cs_counts, Cs_cb. reflexivity. Qed.
  Lemma Cs_B_tabp : B_tabp Cs = s_tab_props S tv vr kr mr vc kc mc k rsubs csubs dn.
  Proof. unfold B_tabp, s_tab_props. rewrite Cs_counts, Cs_tb. reflexivity. Qed.

  (* the display: in-range signed orders *)
  Definition display_ok : Prop :=
    Forall (AssembleProofs.in_range (List.length rsubs) (nval mr)) ro /\
    Forall (AssembleProofs.in_range (List.length csubs) (nval mc)) co.

  Lemma Cs_orders : display_ok -> orders_ok Cs.
  Proof. intros H. exact H. Qed.

  (* the signed indexes of a display cell *)
  Definition rsel (i : nat) : Z := nth i ro 0%Z.
  Definition csel (j : nat) : Z := nth j co 0%Z.

  Lemma rsel_base i : display_ok -> i < List.length ro -> (0 <= rsel i)%Z -> Z.to_nat (rsel i) < nval mr.
  Proof.
    intros [Or _] Hi H0. unfold rsel in *. apply (in_range_nonneg (List.length rsubs)); [|exact H0].
    apply Forall_nth_in; assumption.
  Qed.
  Lemma csel_base j : display_ok -> j < List.length co -> (0 <= csel j)%Z -> Z.to_nat (csel j) < nval mc.
  Proof.
    intros [_ Oc] Hj H0. unfold csel in *. apply (in_range_nonneg (List.length csubs)); [|exact H0].
    apply Forall_nth_in; assumption.
  Qed.
  Lemma rsel_sub i : display_ok -> i < List.length ro -> (rsel i < 0)%Z ->
    Z.to_nat (rsel i + Z.of_nat (List.length rsubs)) < List.length rsubs.
  Proof.
    intros [Or _] Hi H0. unfold rsel in *. apply (in_range_neg _ (nval mr)); [|exact H0].
    apply Forall_nth_in; assumption.
  Qed.
  Lemma csel_sub j : display_ok -> j < List.length co -> (csel j < 0)%Z ->
    Z.to_nat (csel j + Z.of_nat (List.length csubs)) < List.length csubs.
  Proof.
    intros [_ Oc] Hj H0. unfold csel in *. apply (in_range_neg _ (nval mc)); [|exact H0].
    apply Forall_nth_in; assumption.
  Qed.
End Survey.

(* ------------------------------------------------------------------------------------ *)
(** * links 1 + 3 for a member wired as self._assemble_matrix(self._measures.<m>.blocks) *)

(* the public member p: shape of the value and every cell as (h of) the signed cell of the model
   structure B *)
Definition member_spec (C : pctx) (p : string) (h : xq -> xq) (B : blocks) : Prop :=
  pshape (public_slice C p) = Some (List.length (c_ro C), List.length (c_co C)) /\
  forall i j, i < List.length (c_ro C) -> j < List.length (c_co C) ->
    pcell (public_slice C p) i j = h (signed_cell C B (nth i (c_ro C) 0%Z) (nth j (c_co C) 0%Z)).
Definition matrix_member_spec (C : pctx) (p : string) (B : blocks) : Prop :=
  member_spec C p (fun x => x) B.

(* what [public_matrix_of_realizes] gives for a term w *)
Definition assembled (C : pctx) (v : pval) (B : blocks) : Prop :=
  exists M, v = PMat (List.length (c_ro C)) (List.length (c_co C)) M /\
    AssembleProofs.rect (List.length (c_ro C)) (List.length (c_co C)) M /\
    forall i j, i < List.length (c_ro C) -> j < List.length (c_co C) ->
      mnth M i j = signed_cell C B (nth i (c_ro C) 0%Z) (nth j (c_co C) 0%Z).

Lemma matrix_member_of_weval C p w B :
  slice_member p = Some w -> assembled C (weval wiring_fuel C w) B -> matrix_member_spec C p B.
Proof.
  intros Hp [M [HM [_ Hc]]]. unfold matrix_member_spec, member_spec, public_slice. rewrite Hp, HM.
  split; [reflexivity|]. exact Hc.
Qed.

(* `self.<q> * 100` *)
Definition times (z : Z) (x : xq) : xq := xmul x (Fin (inject_Z z)).

Lemma scaled_member_of_weval C p w z v B :
  slice_member p = Some w -> weval wiring_fuel C w = pmap (times z) v -> assembled C v B ->
  member_spec C p (times z) B.
Proof.
  intros Hp Hw [M [HM [HR Hc]]]. unfold member_spec, public_slice. rewrite Hp, Hw, HM.
  split; [reflexivity|]. intros i j Hi Hj. cbn [pmap pcell].
  rewrite (mnth_map_map (times z) M i j _ _ HR Hi Hj). rewrite (Hc i j Hi Hj). reflexivity.
Qed.

Definition terms_asm_matrix : bool := is_some AssembleSrc.asm_Slice__assemble_matrix.

Ltac wiring_some :=
  lazymatch goal with |- need (is_some None && _) _ => exact I | _ => idtac end;
  cbn [is_some andb].

