(* C18: the history theorem instantiated for array dimensions (Model/Shim.v) and the response part
   (CubeSet inflation, JSON text / dict / envelope).  Since the repairs 51c19c01 (transforms) and
   3e9f35f8 (inflate) neither theorem has a hypothesis. *)
From Coq Require Import ZArith List Bool Lia Arith String.
From CC Require Import Base.Ident Model.Shim Model.History Proofs.ShimSpec Proofs.ShimTranslate
  Proofs.ShimSlots Proofs.HistoryProofs.
Import ListNotations.
Local Open Scope nat_scope.

Lemma aprop_eqb_sound a b : aprop_eqb a b = true -> a = b.
Proof.
  destruct a, b; simpl; intros H; try discriminate; reflexivity.
Qed.

(* every read of EVERY history over shared transforms dicts - any dicts, any dimensions, one dict
   used with any number of different dimensions, raising translations included - equals the read on
   pristine copies *)
Theorem array_reads_pure (ts : nat -> xf) ops : arun ts ops = arun_pristine ts ops.
Proof.
  unfold arun, arun_pristine.
  apply (reads_pure adim xf aprop aval shim_xf acons aprop_eqb (fun _ => true) aprop_eqb_sound ts).
Qed.

(* ... and the caller's dicts are the pristine ones afterwards *)
Theorem array_dicts_unchanged (ts : nat -> xf) ops i : arun_dict ts ops i = ts i.
Proof.
  unfold arun_dict, afinal.
  rewrite (dicts_unchanged adim xf aprop aval shim_xf acons aprop_eqb (fun _ => true) ts ops).
  reflexivity.
Qed.

(* a raising translation leaves the caller's dict as the function's first component: there is no
   half-rewritten dict any more *)
Lemma shim_xf_raise_untouched d t ex : snd (shim_xf d t) = Some ex -> fst (shim_xf d t) = t.
Proof.
  unfold shim_xf.
  destruct (opt_res (replaced_elements d) (x_elements t)); [|reflexivity].
  destruct (opt_res (replaced_ids d) (x_ids t)); [|reflexivity].
  destruct (opt_res (replaced_ids d) (x_top t)); [|reflexivity].
  destruct (opt_res (replaced_ids d) (x_bottom t)); [|reflexivity].
  simpl. discriminate.
Qed.

(* ---- responses ---------------------------------------------------------------------------- *)
Definition pristine_out (r0 : nat -> nat) (x : rop) : list pkind :=
  match snd (rstep (r0, []) x) with [k] => k | _ => [] end.

Lemma rstep_spec r out x : rstep (r, out) x = (r, out ++ [pristine_out r x]).
Proof. destruct x as [i|l]; reflexivity. Qed.

Lemma rrun_fold r0 ops : forall out,
  fold_left rstep ops (r0, out) = (r0, out ++ map (pristine_out r0) ops).
Proof.
  induction ops as [|x ops IH]; intros out; simpl; [rewrite app_nil_r; reflexivity|].
  change (fold_left rstep ops (rstep (r0, out) x) = (r0, out ++ pristine_out r0 x :: map (pristine_out r0) ops)).
  rewrite rstep_spec, IH, <- app_assoc. reflexivity.
Qed.

(* THE CubeSet history theorem: EVERY list of MkCube / MkSet operations over shared responses -
   numeric-measure sets included, any number of times, sharing responses with anything *)
Theorem response_reads_pure r0 ops : rrun r0 ops = rrun_pristine r0 ops.
Proof. unfold rrun, rrun_pristine. rewrite (rrun_fold r0 ops []). reflexivity. Qed.

(* ... and the caller's responses have the number of dimension dicts they came with *)
Theorem rrun_state_unchanged r0 ops : rrun_state r0 ops = r0.
Proof. unfold rrun_state. rewrite (rrun_fold r0 ops []). reflexivity. Qed.

(* re-using the responses of a CubeSet for the SAME CubeSet (the one history the former design made
   safe: the second inflation was skipped because the response was no longer 0-D) *)
Theorem inflate_stable r0 l :
  rrun r0 [MkSet l; MkSet l] = rrun_pristine r0 [MkSet l; MkSet l].
Proof. apply response_reads_pure. Qed.

Theorem envelope_agree {R} (r : R) :
  cube_response (ArgDict (JResp r)) = JResp r /\
  cube_response (ArgText (JResp r)) = JResp r /\
  cube_response (ArgDict (JEnvelope (JResp r))) = JResp r /\
  cube_response (ArgText (JEnvelope (JResp r))) = JResp r.
Proof. repeat split. Qed.

(* the summary response a CubeSet augments its filter cubes against is the same however the first
   response was supplied (repair 537d2a70) *)
Theorem summary_forms_agree {R} (r : R) (rest : list (rarg R)) :
  set_summary (ArgDict (JResp r) :: rest) = Some (JResp r) /\
  set_summary (ArgText (JResp r) :: rest) = Some (JResp r) /\
  set_summary (ArgDict (JEnvelope (JResp r)) :: rest) = Some (JResp r) /\
  set_summary (ArgText (JEnvelope (JResp r)) :: rest) = Some (JResp r).
Proof. repeat split. Qed.

(* ---- the response's dimension dict -------------------------------------------------------- *)
Theorem shim_dim_dict_idem els : shim_dim_dict (shim_dim_dict els) = shim_dim_dict els.
Proof. unfold shim_dim_dict. rewrite map_map. reflexivity. Qed.

(* whatever "subvar_alias" fields an earlier cube left behind, the element ids are the aliases *)
Theorem element_ids_after_shim els :
  map build_element_id (shim_dim_dict els) = map (fun p => alias_of (fst p)) els.
Proof. unfold shim_dim_dict. rewrite map_map. reflexivity. Qed.
