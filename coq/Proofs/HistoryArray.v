(* C18: the history theorem instantiated for array dimensions (Model/Shim.v), the refutations
   of its hypotheses, and the response part (CubeSet inflation, JSON text / dict / envelope). *)
From Coq Require Import ZArith List Bool Lia Arith String.
From CC Require Import Base.Ident Model.Shim Model.History Proofs.ShimSpec Proofs.ShimTranslate
  Proofs.ShimSlots Proofs.HistoryProofs.
Import ListNotations.
Local Open Scope nat_scope.

Lemma aprop_eqb_sound a b : aprop_eqb a b = true -> a = b.
Proof.
  destruct a, b; simpl; intros H; try discriminate; reflexivity.
Qed.

Definition aop_ok (used : nat -> Prop) (dimof : nat -> adim) (x : op adim aprop) : Prop :=
  match x with
  | New d i => used i /\ d = dimof i
  | Read _ _ => True
  end.

(* after the repair of translate_element_id(None) the former hypothesis H1 (the shim does not raise
   on the pristine dict and leaves no None in a list slot) is a THEOREM (shim_xf_total,
   shim_xf_fixed): what remains is a condition on the dimensions alone *)
Theorem array_reads_pure (ts : nat -> xf) (used : nat -> Prop) (dimof : nat -> adim) ops :
  (forall i, used i -> ~ In key_str (aliases (dimof i))) ->
  (forall i, used i -> ids_not_none (dimof i)) ->
  (* H2: dict i is only ever used with the dimension dimof i *)
  Forall (aop_ok used dimof) ops ->
  arun ts ops = arun_pristine ts ops.
Proof.
  intros HK HN H2. unfold arun, arun_pristine.
  apply (reads_pure adim xf aprop aval shim_xf acons aprop_eqb (fun _ => true) aprop_eqb_sound
           ts used dimof).
  - intros i U. apply shim_xf_total. exact (proj1 (HN i U)).
  - intros i U. apply shim_xf_fixed; [apply HK; exact U | apply HN; exact U].
  - exact H2.
Qed.

(* ---- responses ---------------------------------------------------------------------------- *)
Lemma inflate_all_mono l : forall r j, r j <= inflate_all r l j.
Proof.
  unfold inflate_all. induction l as [|a t IH]; intros r j; simpl; [lia|].
  apply Nat.le_trans with ((fun j0 => if Nat.eqb j0 a then S (r j0) else r j0) j);
    [cbv beta; destruct (Nat.eqb j a); lia
    | exact (IH (fun j0 => if Nat.eqb j0 a then S (r j0) else r j0) j)].
Qed.

Lemma inflate_all_in l : forall r i, In i l -> S (r i) <= inflate_all r l i.
Proof.
  unfold inflate_all. induction l as [|a t IH]; intros r i Hin; simpl; [contradiction|].
  destruct Hin as [E|Hin]; [subst i|].
  - apply Nat.le_trans with ((fun j0 => if Nat.eqb j0 a then S (r j0) else r j0) a);
      [cbv beta; rewrite Nat.eqb_refl; lia
      | exact (inflate_all_mono t (fun j0 => if Nat.eqb j0 a then S (r j0) else r j0) a)].
  - apply Nat.le_trans with (S ((fun j0 => if Nat.eqb j0 a then S (r j0) else r j0) i));
      [cbv beta; destruct (Nat.eqb i a); lia
      | exact (IH (fun j0 => if Nat.eqb j0 a then S (r j0) else r j0) i Hin)].
Qed.

(* re-using the responses of a CubeSet for the SAME CubeSet is safe *)
Theorem inflate_stable r0 l :
  rrun r0 [MkSet l; MkSet l] = rrun_pristine r0 [MkSet l; MkSet l].
Proof.
  unfold rrun, rrun_pristine. simpl.
  destruct (is_numeric_set r0 l) eqn:E.
  - assert (E2 : is_numeric_set (inflate_all r0 l) l = false).
    { destruct l as [|i [|j t]]; try discriminate. unfold is_numeric_set.
      apply Nat.eqb_neq. pose proof (inflate_all_in (i :: j :: t) r0 i (or_introl eq_refl)). lia. }
    rewrite E2. reflexivity.
  - rewrite E. reflexivity.
Qed.

Definition rop_ok (r0 : nat -> nat) (x : rop) : Prop :=
  match x with
  | MkCube _ => True
  | MkSet l => is_numeric_set r0 l = false
  end.

Lemma rrun_fold r0 ops : forall out,
  Forall (rop_ok r0) ops ->
  fold_left rstep ops (r0, out) =
  (r0, out ++ map (fun x => match snd (rstep (r0, []) x) with [k] => k | _ => [] end) ops).
Proof.
  induction ops as [|x ops IH]; intros out HF; simpl; [rewrite app_nil_r; reflexivity|].
  inversion HF as [|? ? Hx HF']; subst. destruct x as [i|l]; simpl.
  - rewrite IH by exact HF'. rewrite <- app_assoc. reflexivity.
  - simpl in Hx. rewrite Hx. rewrite IH by exact HF'. rewrite <- app_assoc. reflexivity.
Qed.

(* H3: no numeric-measure CubeSet (>= 2 responses, the first one 0-D) in the history *)
Theorem response_reads_pure r0 ops :
  Forall (rop_ok r0) ops -> rrun r0 ops = rrun_pristine r0 ops.
Proof.
  intros HF. unfold rrun, rrun_pristine. rewrite (rrun_fold r0 ops [] HF). reflexivity.
Qed.

Theorem envelope_agree {R} (r : R) :
  cube_response (ArgDict (JResp r)) = JResp r /\
  cube_response (ArgText (JResp r)) = JResp r /\
  cube_response (ArgDict (JEnvelope (JResp r))) = JResp r /\
  cube_response (ArgText (JEnvelope (JResp r))) = JResp r.
Proof. repeat split. Qed.

(* ---- the response's dimension dict -------------------------------------------------------- *)
Theorem shim_dim_dict_idem els : shim_dim_dict (shim_dim_dict els) = shim_dim_dict els.
Proof. unfold shim_dim_dict. rewrite map_map. reflexivity. Qed.

(* whatever "subvar_alias" fields an earlier cube left behind, the element ids are the aliases *)
Theorem element_ids_after_shim els :
  map build_element_id (shim_dim_dict els) = map (fun p => alias_of (fst p)) els.
Proof. unfold shim_dim_dict. rewrite map_map. reflexivity. Qed.
