(* GenAgreeCollatorAnchored: the members of PayloadOrderCollator and ExplicitOrderCollator, as
   generated from src/cr/cube/collator.py (Gen/CollatorSrc.v), ARE the definitions of
   Model/Collator.v the theorems of C07 / C09 are about - for all dimensions, order specs, empty
   sets and both order formats.  [pyself_of d spec empties fmt vals svals] is the collator object
   over the Python view of the model dimension [d]. *)
From Coq Require Import List ZArith String Bool Lia Arith.
From CC Require Import Base.XQ Base.SortX Base.PyList Spec.OrderSpec Model.Collator Model.PyCollator
  Gen.CollatorSrc Proofs.OrderCollate Proofs.OrderExplicit Proofs.GenAgreeCollatorLib.
Import ListNotations.
Local Open Scope Z_scope.

(* what the public members return: the signed order as entries, or the 'ins_N' rendering *)
Definition display_result (fmt : order_format) (signed : res (list Z)) (bogus : res (list entry))
  : res (list entry) :=
  match fmt with
  | SIGNED_INDEXES => bind signed (fun l => Ok (map EBase l))
  | BOGUS_IDS => bogus
  end.

(* ============================================================================================ *)
(** * PayloadOrderCollator *)
Lemma gen_Payload__elements :
  match src_PayloadOrderCollator__elements with
  | Some f => forall d spec empties fmt vals svals,
      f (pyself_of d spec empties fmt vals svals) = d_elems d
  | None => True end.
Proof.
  unfold src_PayloadOrderCollator__elements.
  first [exact I |
  gen_open;
  reflexivity].
Qed.

Lemma gen_Payload__element_ids :
  match src_PayloadOrderCollator__element_ids with
  | Some f => forall d spec empties fmt vals svals,
      f (pyself_of d spec empties fmt vals svals) = d_ids d
  | None => True end.
Proof.
  unfold src_PayloadOrderCollator__element_ids.
  first [exact I |
  gen_open;
  reflexivity].
Qed.

Lemma hidden_idxs_agree d empties :
  (if d_prune d then map Z.of_nat empties else []) ++ map Z.of_nat (hidden_idxs d)
  = map Z.of_nat (collator_hidden d empties).
Proof.
  unfold collator_hidden, hidden_set. rewrite map_app. destruct (d_prune d); reflexivity.
Qed.

Lemma gen_Payload__hidden_idxs :
  match src_PayloadOrderCollator__hidden_idxs with
  | Some f => forall d spec empties fmt vals svals,
      f (pyself_of d spec empties fmt vals svals) = map Z.of_nat (collator_hidden d empties)
  | None => True end.
Proof.
  unfold src_PayloadOrderCollator__hidden_idxs.
  first [exact I |
  gen_open;
  py_proj;
  cbv zeta;
  unfold py_frozenset;
  apply hidden_idxs_agree].
Qed.

Lemma pysubs_of_ids d subs : pysubs_bogus_ids (pysubs_of d subs) = map fst subs.
Proof. unfold pysubs_bogus_ids, pysubs_of, ps_insertion_id. rewrite map_map. reflexivity. Qed.

Lemma pysubs_of_insertion_ids d subs : pysubs_insertion_ids (pysubs_of d subs) = map fst subs.
Proof. apply pysubs_of_ids. Qed.

Lemma gen_Payload__subtotals_bogus_ids :
  match src_PayloadOrderCollator__subtotals_bogus_ids with
  | Some f => forall d spec empties fmt vals svals,
      f (pyself_of d spec empties fmt vals svals) = payload_bogus_ids d
  | None => True end.
Proof.
  unfold src_PayloadOrderCollator__subtotals_bogus_ids.
  first [exact I |
  gen_open;
  py_proj;
  cbv zeta;
  rewrite !pysubs_of_ids;
  reflexivity].
Qed.

Lemma order_mapping_agree (f : Z -> Z) (bogus : list Z) :
  (forall i, f i = i - py_len bogus) ->
  py_dict_of_pairs Z.eqb (py_zip (map f (py_range (py_len bogus))) bogus) = order_mapping bogus.
Proof. intros H. apply py_order_mapping. apply py_neg_idxs. exact H. Qed.

Lemma gen_Payload__order_mapping :
  match src_PayloadOrderCollator__order_mapping with
  | Some f => forall d spec empties fmt vals svals,
      f (pyself_of d spec empties fmt vals svals) = order_mapping (payload_bogus_ids d)
  | None => True end.
Proof.
  unfold src_PayloadOrderCollator__order_mapping.
  first [exact I |
  dep gen_Payload__subtotals_bogus_ids src_PayloadOrderCollator__subtotals_bogus_ids;
  gen_open;
  rewrite !H;
  cbv zeta;
  apply order_mapping_agree;
  reflexivity].
Qed.

Lemma gen_Payload__order_spec :
  match src_PayloadOrderCollator__order_spec with
  | Some f => forall d spec empties fmt vals svals,
      f (pyself_of d spec empties fmt vals svals) = spec
  | None => True end.
Proof.
  unfold src_PayloadOrderCollator__order_spec.
  first [exact I |
  gen_open;
  reflexivity].
Qed.

Lemma gen_Payload__subtotals :
  match src_PayloadOrderCollator__subtotals with
  | Some f => forall d spec empties fmt vals svals,
      f (pyself_of d spec empties fmt vals svals) = pysubs_of d (subtotals d)
  | None => True end.
Proof.
  unfold src_PayloadOrderCollator__subtotals.
  first [exact I |
  gen_open;
  reflexivity].
Qed.

(* (idx, idx, id) for idx, id in enumerate(ids) *)
Lemma enum_from_twice {A} s (l : list A) :
  enum_from s (enum_from s l) = map (fun p => (fst p, p)) (enum_from s l).
Proof.
  revert s. induction l as [|x t IH]; intros s; [reflexivity|].
  rewrite (enum_from_cons s x t), enum_from_cons. simpl. rewrite IH. reflexivity.
Qed.

Lemma payload_descriptors (f : Z * ident -> Z * Z * ident) (ids : list ident) :
  (forall i e, f (i, e) = (i, i, e)) -> map f (py_enumerate ids) = zdesc (enumerate ids).
Proof.
  intros H. rewrite py_enumerate_spec, map_map. unfold zdesc.
  rewrite !enumerate_enum_from. unfold bel. rewrite enum_from_twice, map_map.
  apply map_ext. intros [i e]. apply H.
Qed.

Lemma gen_Payload__element_order_descriptors :
  match src_PayloadOrderCollator__element_order_descriptors with
  | Some f => forall d spec empties fmt vals svals,
      f (pyself_of d spec empties fmt vals svals) = Ok (zdesc (desc_of d OPayload))
  | None => True end.
Proof.
  unfold src_PayloadOrderCollator__element_order_descriptors.
  first [exact I |
  dep gen_Payload__element_ids src_PayloadOrderCollator__element_ids;
  gen_open;
  rewrite !H;
  apply f_equal;
  apply payload_descriptors;
  reflexivity].
Qed.

Lemma gen_Payload__base_element_orderings :
  match src_PayloadOrderCollator__base_element_orderings with
  | Some f => forall d spec empties fmt vals svals,
      f (pyself_of d spec empties fmt vals svals) = Ok (base_keys (desc_of d OPayload))
  | None => True end.
Proof.
  unfold src_PayloadOrderCollator__base_element_orderings.
  first [exact I |
  dep gen_Payload__element_order_descriptors src_PayloadOrderCollator__element_order_descriptors;
  gen_open;
  rewrite !H;
  cbn [bind];
  apply f_equal;
  apply base_keys_zdesc;
  reflexivity].
Qed.

Lemma pbi_dict_agree (f : Z * Z * ident -> ident * Z) desc :
  (forall p i e, f (p, i, e) = (e, p)) ->
  py_dict_of_pairs ident_eqb (map f (zdesc desc)) = pbi_dict desc.
Proof.
  intros H. unfold pbi_dict. f_equal. apply map_ext. intros [[p i] e]. apply H.
Qed.

Lemma gen_Payload__element_positions_by_id :
  match src_PayloadOrderCollator__element_positions_by_id with
  | Some f => forall d spec empties fmt vals svals,
      f (pyself_of d spec empties fmt vals svals) = Ok (pbi_dict (desc_of d OPayload))
  | None => True end.
Proof.
  unfold src_PayloadOrderCollator__element_positions_by_id.
  first [exact I |
  dep gen_Payload__element_order_descriptors src_PayloadOrderCollator__element_order_descriptors;
  gen_open;
  rewrite !H;
  cbn [bind];
  apply f_equal;
  apply pbi_dict_agree;
  reflexivity].
Qed.

(* the body of _insertion_position once `self._element_positions_by_id` is known *)
Ltac insertion_position_body :=
  cbn [bind]; cbv zeta;
  match goal with |- context [ps_anchor ?s] => destruct s as [?id [| |?z|?o]] end;
  unfold ps_anchor, ins_pos; cbn [snd fst nanchor_eq_str py_int_nanchor bind is_other place_of_nanchor];
  try reflexivity;
  cbn [String.eqb Ascii.eqb Bool.eqb]; try reflexivity;
  unfold py_dict_mem, py_dict_getitem; rewrite ?pbi_dict_get; unfold place_pos, float_key; cbn [fst snd];
  destruct (positions_by_id _ _); reflexivity.

Lemma gen_Payload__insertion_position :
  match src_PayloadOrderCollator__insertion_position with
  | Some f => forall d spec empties fmt vals svals sub,
      f (pyself_of d spec empties fmt vals svals) sub = ins_pos (desc_of d OPayload) (snd sub)
  | None => True end.
Proof.
  unfold src_PayloadOrderCollator__insertion_position.
  first [exact I |
  dep gen_Payload__element_positions_by_id src_PayloadOrderCollator__element_positions_by_id;
  gen_open;
  rewrite !H;
  insertion_position_body].
Qed.

Lemma pysubs_of_anchors d subs : map snd (pysubs_of d subs) = anchors_of d subs.
Proof. unfold pysubs_of, anchors_of. rewrite map_map. reflexivity. Qed.

Lemma pysubs_of_length d subs : List.length (pysubs_of d subs) = List.length subs.
Proof. apply map_length. Qed.

(* the body of _insertion_orderings / _view_insertions_ordering over a subtotal list, once
   `self._insertion_position` is known: the starred position of each subtotal followed by its negative index *)
Lemma insertion_orderings_agree desc (ip : pysub -> res (Z * Z)) (f : pysub * Z -> res key)
      (g : Z -> Z) (subs : list pysub) :
  (forall sub, ip sub = ins_pos desc (snd sub)) ->
  (forall sub neg, f (sub, neg) = bind (ip sub) (fun t => Ok (fst t, snd t, neg))) ->
  (forall i, g i = i - py_len subs) ->
  bind (py_mapM f (py_zip subs (map g (py_range (py_len subs))))) (fun t => Ok t)
  = ins_keys desc (map snd subs).
Proof.
  intros Hip Hf Hg. rewrite bind_ret. apply mapM_ins_keys.
  - intros sub neg. rewrite Hf, Hip. reflexivity.
  - apply py_neg_idxs. exact Hg.
Qed.

Lemma gen_Payload__insertion_orderings :
  match src_PayloadOrderCollator__insertion_orderings with
  | Some f => forall d spec empties fmt vals svals,
      f (pyself_of d spec empties fmt vals svals)
      = ins_keys (desc_of d OPayload) (anchors_of d (subtotals d))
  | None => True end.
Proof.
  unfold src_PayloadOrderCollator__insertion_orderings.
  first [exact I |
  dep gen_Payload__subtotals src_PayloadOrderCollator__subtotals;
  dep gen_Payload__insertion_position src_PayloadOrderCollator__insertion_position;
  gen_open;
  rewrite !H;
  cbv zeta;
  rewrite <- pysubs_of_anchors;
  eapply insertion_orderings_agree; [intros sub; apply H0 | reflexivity | reflexivity]].
Qed.

Lemma gen_Payload__derived_element_orderings :
  match src_PayloadOrderCollator__derived_element_orderings with
  | Some f => forall d spec empties fmt vals svals,
      f (pyself_of d spec empties fmt vals svals) = Ok []
  | None => True end.
Proof.
  unfold src_PayloadOrderCollator__derived_element_orderings.
  first [exact I |
  gen_open;
  reflexivity].
Qed.

Lemma gen_Payload__display_order_mapping :
  match src_PayloadOrderCollator__display_order_mapping with
  | Some f => forall d spec empties fmt vals svals,
      f (pyself_of d spec empties fmt vals svals) = order_mapping (plain_bogus_ids d)
  | None => True end.
Proof.
  unfold src_PayloadOrderCollator__display_order_mapping.
  first [exact I |
  gen_open;
  py_proj;
  cbv zeta;
  rewrite !pysubs_of_ids;
  apply order_mapping_agree;
  reflexivity].
Qed.

(* the tail of _display_order / payload_order: the sorted keys read off, hidden ones dropped,
   then rendered *)
Lemma collate_display (f : key -> Z) (p : key -> bool) (h : list nat) desc (ins der : list flt)
      (insk derk : list key) :
  (forall k, f k = kidx k) -> (forall k, p k = negb (py_in Z.eqb (kidx k) (map Z.of_nat h))) ->
  insk = map (float_key desc) ins -> derk = map (float_key desc) der ->
  map f (filter p (py_sorted_keys ((base_keys desc ++ insk) ++ derk)))
  = displayed h (collate desc (ins ++ der)).
Proof.
  intros Hf Hp -> ->. unfold collate, py_sorted_keys. rewrite map_app, app_assoc.
  apply map_filter_keys; assumption.
Qed.

Lemma render_agree (f : Z -> res entry) m l l' :
  (forall idx, f idx = bind (if Z.ltb idx 0 then bind (py_dict_getitem Z.eqb m idx) (fun t => Ok (EIns t))
                            else Ok (EBase idx)) (fun t => Ok t)) ->
  l = l' ->
  bind (py_mapM f l) (fun t => Ok t) = render_bogus m l'.
Proof.
  intros H ->. rewrite bind_ret. apply py_mapM_render. intros idx. rewrite H. apply render_step_getitem.
Qed.

Lemma gen_Payload__display_order :
  match src_PayloadOrderCollator__display_order with
  | Some f => forall d spec empties fmt vals svals,
      f (pyself_of d spec empties fmt vals svals)
      = display_result fmt (anchored_display d OPayload empties)
                           (anchored_display_bogus d OPayload empties)
  | None => True end.
Proof.
  unfold src_PayloadOrderCollator__display_order.
  first [exact I |
  dep gen_Payload__hidden_idxs src_PayloadOrderCollator__hidden_idxs;
  dep gen_Payload__base_element_orderings src_PayloadOrderCollator__base_element_orderings;
  dep gen_Payload__insertion_orderings src_PayloadOrderCollator__insertion_orderings;
  dep gen_Payload__derived_element_orderings src_PayloadOrderCollator__derived_element_orderings;
  dep gen_Payload__display_order_mapping src_PayloadOrderCollator__display_order_mapping;
  gen_open;
  rewrite !H, !H0, !H1, !H2, !H3;
  unfold anchored_display_bogus, anchored_display, anchored_display_over, ins_keys, bogus_ids_for;
  cbn [bind];
  cbv zeta;
  destruct (existsb is_other (anchors_of d (subtotals d))); [destruct fmt; reflexivity|];
  cbn [bind];
  cbv zeta;
  unfold floats_of;
  py_proj;
  destruct fmt; cbn [order_format_eqb display_result bind];
    [do 2 apply f_equal | apply render_agree; [reflexivity|]];
    apply collate_display with (der := []); try reflexivity; intros [[? ?] ?]; reflexivity].
Qed.

(* the view subtotals the transforms also name *)
Definition view_subs (d : dimension) : list (Z * insertion) :=
  filter (fun s => zmem (fst s) (map fst (subtotals d))) (subtotals_in_payload_order d).

Lemma view_subs_agree (p : pysub -> bool) d :
  (forall s, p s = py_in Z.eqb (ps_insertion_id s) (map fst (subtotals d))) ->
  filter p (pysubs_of d (subtotals_in_payload_order d)) = pysubs_of d (view_subs d).
Proof.
  intros H. unfold pysubs_of, view_subs. rewrite filter_map. f_equal.
  apply filter_ext. intros s. rewrite H. reflexivity.
Qed.

Lemma gen_Payload__view_insertions_ordering :
  match src_PayloadOrderCollator__view_insertions_ordering with
  | Some f => forall d spec empties fmt vals svals,
      f (pyself_of d spec empties fmt vals svals)
      = ins_keys (desc_of d OPayload) (anchors_of d (view_subs d))
  | None => True end.
Proof.
  unfold src_PayloadOrderCollator__view_insertions_ordering.
  first [exact I |
  dep gen_Payload__insertion_position src_PayloadOrderCollator__insertion_position;
  gen_open;
  cbv zeta;
  py_proj;
  rewrite pysubs_of_insertion_ids;
  rewrite (view_subs_agree _ d) by reflexivity;
  rewrite <- pysubs_of_anchors;
  eapply insertion_orderings_agree; [intros sub; apply H | reflexivity | reflexivity]].
Qed.

Lemma gen_Payload_payload_order :
  match src_PayloadOrderCollator_payload_order with
  | Some f => forall d spec empties fmt vals svals,
      f (pyself_of d spec empties fmt vals svals) = payload_order d empties
  | None => True end.
Proof.
  unfold src_PayloadOrderCollator_payload_order.
  first [exact I |
  dep gen_Payload__hidden_idxs src_PayloadOrderCollator__hidden_idxs;
  dep gen_Payload__base_element_orderings src_PayloadOrderCollator__base_element_orderings;
  dep gen_Payload__view_insertions_ordering src_PayloadOrderCollator__view_insertions_ordering;
  dep gen_Payload__derived_element_orderings src_PayloadOrderCollator__derived_element_orderings;
  dep gen_Payload__order_mapping src_PayloadOrderCollator__order_mapping;
  gen_open;
  rewrite !H, !H0, !H1, !H2;
  unfold payload_order, anchored_display_over, ins_keys;
  fold (view_subs d);
  cbn [bind];
  cbv zeta;
  destruct (existsb is_other (anchors_of d (view_subs d))); [reflexivity|];
  cbn [bind];
  cbv zeta;
  unfold floats_of;
  apply render_agree; [intros idx; rewrite !H3; reflexivity|];
  apply collate_display with (der := []); try reflexivity; intros [[? ?] ?]; reflexivity].
Qed.

(* ============================================================================================ *)
(** * ExplicitOrderCollator *)
Local Notation EX spec := (OExplicit (po_element_ids spec)).

Lemma gen_Explicit__elements :
  match src_ExplicitOrderCollator__elements with
  | Some f => forall d spec empties fmt vals svals,
      f (pyself_of d spec empties fmt vals svals) = d_elems d
  | None => True end.
Proof.
  unfold src_ExplicitOrderCollator__elements.
  first [exact I |
  gen_open;
  reflexivity].
Qed.

Lemma gen_Explicit__element_ids :
  match src_ExplicitOrderCollator__element_ids with
  | Some f => forall d spec empties fmt vals svals,
      f (pyself_of d spec empties fmt vals svals) = d_ids d
  | None => True end.
Proof.
  unfold src_ExplicitOrderCollator__element_ids.
  first [exact I |
  gen_open;
  reflexivity].
Qed.

Lemma gen_Explicit__hidden_idxs :
  match src_ExplicitOrderCollator__hidden_idxs with
  | Some f => forall d spec empties fmt vals svals,
      f (pyself_of d spec empties fmt vals svals) = map Z.of_nat (collator_hidden d empties)
  | None => True end.
Proof.
  unfold src_ExplicitOrderCollator__hidden_idxs.
  first [exact I |
  gen_open;
  py_proj;
  cbv zeta;
  unfold py_frozenset;
  apply hidden_idxs_agree].
Qed.

Lemma gen_Explicit__subtotals_bogus_ids :
  match src_ExplicitOrderCollator__subtotals_bogus_ids with
  | Some f => forall d spec empties fmt vals svals,
      f (pyself_of d spec empties fmt vals svals) = plain_bogus_ids d
  | None => True end.
Proof.
  unfold src_ExplicitOrderCollator__subtotals_bogus_ids.
  first [exact I |
  gen_open;
  py_proj;
  rewrite pysubs_of_ids;
  reflexivity].
Qed.

Lemma gen_Explicit__order_mapping :
  match src_ExplicitOrderCollator__order_mapping with
  | Some f => forall d spec empties fmt vals svals,
      f (pyself_of d spec empties fmt vals svals) = order_mapping (plain_bogus_ids d)
  | None => True end.
Proof.
  unfold src_ExplicitOrderCollator__order_mapping.
  first [exact I |
  dep gen_Explicit__subtotals_bogus_ids src_ExplicitOrderCollator__subtotals_bogus_ids;
  gen_open;
  rewrite !H;
  cbv zeta;
  apply order_mapping_agree;
  reflexivity].
Qed.

Lemma gen_Explicit__order_spec :
  match src_ExplicitOrderCollator__order_spec with
  | Some f => forall d spec empties fmt vals svals,
      f (pyself_of d spec empties fmt vals svals) = spec
  | None => True end.
Proof.
  unfold src_ExplicitOrderCollator__order_spec.
  first [exact I |
  gen_open;
  reflexivity].
Qed.

Lemma gen_Explicit__subtotals :
  match src_ExplicitOrderCollator__subtotals with
  | Some f => forall d spec empties fmt vals svals,
      f (pyself_of d spec empties fmt vals svals) = pysubs_of d (subtotals d)
  | None => True end.
Proof.
  unfold src_ExplicitOrderCollator__subtotals.
  first [exact I |
  gen_open;
  reflexivity].
Qed.

Lemma known_of_elems d : known_of (d_elems d) = known_elems d.
Proof. reflexivity. Qed.

(* the nested generator with its OrderedDict, then the enumeration of what it yields *)
Lemma gen_Explicit__element_order_descriptors :
  match src_ExplicitOrderCollator__element_order_descriptors with
  | Some f => forall d spec empties fmt vals svals, NoDup (d_ids d) ->
      f (pyself_of d spec empties fmt vals svals) = Ok (zdesc (desc_of d (EX spec)))
  | None => True end.
Proof.
  unfold src_ExplicitOrderCollator__element_order_descriptors.
  first [exact I |
  dep gen_Explicit__elements src_ExplicitOrderCollator__elements;
  dep gen_Explicit__order_spec src_ExplicitOrderCollator__order_spec;
  gen_open;
  rewrite !H, !H0;
  cbv zeta;
  py_proj;
  rewrite (known_pairs _ _ (d_elems d)) by reflexivity;
  rewrite known_of_elems;
  rewrite (py_dict_of_pairs_nodup ident_eqb ident_eqb_eq)
    by (rewrite zr_keys; apply known_elems_ids_nodup; assumption);
  match goal with |- context [py_foldM ?F ?L (?y0, zr ?rem)] =>
    destruct (explicit_loop1 F L (fun y r i => pop_step_agree y r i) rem y0)
      as (taken & left & -> & E)
  end;
  cbn [bind];
  rewrite (explicit_loop2 _ left) by reflexivity;
  cbn [bind app];
  apply f_equal;
  unfold desc_of, descriptors_explicit;
  rewrite E;
  unfold zy;
  rewrite <- map_app;
  apply zdesc_zy;
  reflexivity].
Qed.

Lemma gen_Explicit__base_element_orderings :
  match src_ExplicitOrderCollator__base_element_orderings with
  | Some f => forall d spec empties fmt vals svals, NoDup (d_ids d) ->
      f (pyself_of d spec empties fmt vals svals) = Ok (base_keys (desc_of d (EX spec)))
  | None => True end.
Proof.
  unfold src_ExplicitOrderCollator__base_element_orderings.
  first [exact I |
  dep gen_Explicit__element_order_descriptors src_ExplicitOrderCollator__element_order_descriptors;
  gen_open;
  rewrite !H by assumption;
  cbn [bind];
  apply f_equal;
  apply base_keys_zdesc;
  reflexivity].
Qed.

Lemma gen_Explicit__element_positions_by_id :
  match src_ExplicitOrderCollator__element_positions_by_id with
  | Some f => forall d spec empties fmt vals svals, NoDup (d_ids d) ->
      f (pyself_of d spec empties fmt vals svals) = Ok (pbi_dict (desc_of d (EX spec)))
  | None => True end.
Proof.
  unfold src_ExplicitOrderCollator__element_positions_by_id.
  first [exact I |
  dep gen_Explicit__element_order_descriptors src_ExplicitOrderCollator__element_order_descriptors;
  gen_open;
  rewrite !H by assumption;
  cbn [bind];
  apply f_equal;
  apply pbi_dict_agree;
  reflexivity].
Qed.

Lemma gen_Explicit__insertion_position :
  match src_ExplicitOrderCollator__insertion_position with
  | Some f => forall d spec empties fmt vals svals sub, NoDup (d_ids d) ->
      f (pyself_of d spec empties fmt vals svals) sub = ins_pos (desc_of d (EX spec)) (snd sub)
  | None => True end.
Proof.
  unfold src_ExplicitOrderCollator__insertion_position.
  first [exact I |
  dep gen_Explicit__element_positions_by_id src_ExplicitOrderCollator__element_positions_by_id;
  gen_open;
  rewrite !H by assumption;
  insertion_position_body].
Qed.

Lemma gen_Explicit__insertion_orderings :
  match src_ExplicitOrderCollator__insertion_orderings with
  | Some f => forall d spec empties fmt vals svals, NoDup (d_ids d) ->
      f (pyself_of d spec empties fmt vals svals)
      = ins_keys (desc_of d (EX spec)) (anchors_of d (subtotals d))
  | None => True end.
Proof.
  unfold src_ExplicitOrderCollator__insertion_orderings.
  first [exact I |
  dep gen_Explicit__subtotals src_ExplicitOrderCollator__subtotals;
  dep gen_Explicit__insertion_position src_ExplicitOrderCollator__insertion_position;
  gen_open;
  rewrite !H;
  cbv zeta;
  rewrite <- pysubs_of_anchors;
  eapply insertion_orderings_agree; [intros sub; apply H0; assumption | reflexivity | reflexivity]].
Qed.

(* _derived_element_position, for the id of a derived element of the dimension *)
Lemma gen_Explicit__derived_element_position :
  match src_ExplicitOrderCollator__derived_element_position with
  | Some f => forall d spec empties fmt vals svals el,
      NoDup (d_ids d) -> In el (d_elems d) -> e_derived el = true ->
      f (pyself_of d spec empties fmt vals svals) (e_id el)
      = Ok (danchor_pos (desc_of d (EX spec)) (e_danchor el))
  | None => True end.
Proof.
  unfold src_ExplicitOrderCollator__derived_element_position.
  first [exact I |
  dep gen_Explicit__elements src_ExplicitOrderCollator__elements;
  dep gen_Explicit__element_positions_by_id src_ExplicitOrderCollator__element_positions_by_id;
  gen_open;
  rewrite !H, !H0 by assumption;
  rewrite get_by_id_found by assumption;
  cbn [bind];
  cbv zeta;
  unfold py_elem_anchor, danchor_pos;
  rewrite H3;
  destruct (e_danchor el) as [| | |[|] alias];
    cbn [danchor_is_none danchor_eq_str danchor_get_ident danchor_get_str place_of_danchor];
    cbn [String.eqb Ascii.eqb Bool.eqb bind]; try reflexivity;
    unfold py_dict_mem, py_dict_getitem; rewrite ?pbi_dict_get; unfold place_pos, float_key; cbn [fst snd];
    destruct (positions_by_id _ _); reflexivity].
Qed.

Lemma gen_Explicit__derived_element_orderings :
  match src_ExplicitOrderCollator__derived_element_orderings with
  | Some f => forall d spec empties fmt vals svals, NoDup (d_ids d) ->
      f (pyself_of d spec empties fmt vals svals)
      = Ok (map (float_key (desc_of d (EX spec))) (derived_floats d))
  | None => True end.
Proof.
  unfold src_ExplicitOrderCollator__derived_element_orderings.
  first [exact I |
  dep gen_Explicit__elements src_ExplicitOrderCollator__elements;
  dep gen_Explicit__derived_element_position src_ExplicitOrderCollator__derived_element_position;
  gen_open;
  rewrite !H;
  rewrite bind_ret;
  unfold derived_floats;
  apply derived_keys; [reflexivity|];
  intros k e Hin Hd;
  cbv beta iota;
  rewrite H0; [reflexivity|assumption| |assumption];
  apply in_enumerate_snd in Hin;
  exact Hin].
Qed.

Lemma gen_Explicit__display_order_mapping :
  match src_ExplicitOrderCollator__display_order_mapping with
  | Some f => forall d spec empties fmt vals svals,
      f (pyself_of d spec empties fmt vals svals) = order_mapping (plain_bogus_ids d)
  | None => True end.
Proof.
  unfold src_ExplicitOrderCollator__display_order_mapping.
  first [exact I |
  gen_open;
  py_proj;
  cbv zeta;
  rewrite !pysubs_of_ids;
  apply order_mapping_agree;
  reflexivity].
Qed.

Lemma gen_Explicit__display_order :
  match src_ExplicitOrderCollator__display_order with
  | Some f => forall d spec empties fmt vals svals, NoDup (d_ids d) ->
      f (pyself_of d spec empties fmt vals svals)
      = display_result fmt (anchored_display d (EX spec) empties)
                           (anchored_display_bogus d (EX spec) empties)
  | None => True end.
Proof.
  unfold src_ExplicitOrderCollator__display_order.
  first [exact I |
  dep gen_Explicit__hidden_idxs src_ExplicitOrderCollator__hidden_idxs;
  dep gen_Explicit__base_element_orderings src_ExplicitOrderCollator__base_element_orderings;
  dep gen_Explicit__insertion_orderings src_ExplicitOrderCollator__insertion_orderings;
  dep gen_Explicit__derived_element_orderings src_ExplicitOrderCollator__derived_element_orderings;
  dep gen_Explicit__display_order_mapping src_ExplicitOrderCollator__display_order_mapping;
  gen_open;
  rewrite !H, !H0, !H1, !H2, !H3 by assumption;
  unfold anchored_display_bogus, anchored_display, anchored_display_over, ins_keys, bogus_ids_for;
  cbn [bind];
  cbv zeta;
  destruct (existsb is_other (anchors_of d (subtotals d))); [destruct fmt; reflexivity|];
  cbn [bind];
  cbv zeta;
  unfold floats_of;
  py_proj;
  destruct fmt; cbn [order_format_eqb display_result bind];
    [do 2 apply f_equal | apply render_agree; [reflexivity|]];
    apply collate_display; try reflexivity; intros [[? ?] ?]; reflexivity].
Qed.

(* ============================================================================================ *)
(** * the constructor and the public classmethod `display_order(dimension, empty_idxs, format)` *)
Lemma gen_Payload___init__ :
  match src_PayloadOrderCollator___init__ with
  | Some f => forall (dim : pydim) (empty : list Z) (fmt : order_format),
      f dim empty fmt = mkPyCollator dim empty fmt [] []
  | None => True end.
Proof.
  unfold src_PayloadOrderCollator___init__.
  first [exact I |
  gen_open; cbv zeta; rewrite py_truthy_self; reflexivity].
Qed.

Lemma gen_Payload_display_order :
  match src_PayloadOrderCollator_display_order with
  | Some f => forall d spec empties fmt,
      f (pydim_of d spec) (map Z.of_nat empties) fmt
      = display_result fmt (anchored_display d OPayload empties)
                           (anchored_display_bogus d OPayload empties)
  | None => True end.
Proof.
  unfold src_PayloadOrderCollator_display_order.
  first [exact I |
  dep gen_Payload___init__ src_PayloadOrderCollator___init__;
  dep gen_Payload__display_order src_PayloadOrderCollator__display_order;
  gen_open; rewrite H, bind_ret; apply (H0 d spec empties fmt [] [])].
Qed.

Lemma gen_Explicit___init__ :
  match src_ExplicitOrderCollator___init__ with
  | Some f => forall (dim : pydim) (empty : list Z) (fmt : order_format),
      f dim empty fmt = mkPyCollator dim empty fmt [] []
  | None => True end.
Proof.
  unfold src_ExplicitOrderCollator___init__.
  first [exact I |
  gen_open; cbv zeta; rewrite py_truthy_self; reflexivity].
Qed.

Lemma gen_Explicit_display_order :
  match src_ExplicitOrderCollator_display_order with
  | Some f => forall d spec empties fmt, NoDup (d_ids d) ->
      f (pydim_of d spec) (map Z.of_nat empties) fmt
      = display_result fmt (anchored_display d (EX spec) empties)
                           (anchored_display_bogus d (EX spec) empties)
  | None => True end.
Proof.
  unfold src_ExplicitOrderCollator_display_order.
  first [exact I |
  dep gen_Explicit___init__ src_ExplicitOrderCollator___init__;
  dep gen_Explicit__display_order src_ExplicitOrderCollator__display_order;
  gen_open; rewrite H, bind_ret; apply (H0 d spec empties fmt [] []); assumption].
Qed.
