(* Proofs/CubeCountsBases.v -- C02: margins are collapsed bases, defined-ness of the 1-D
   margins and of the scalar table base, ranges are true minima / maxima, the min-base mask. *)
From Coq Require Import QArith ZArith List Bool Lia Arith Btauto Setoid Morphisms.
From CC Require Import Base.XQ Base.ListX Spec.Survey Model.CubeCounts Proofs.CubeCountsProofs.
Import ListNotations.
Local Close Scope Q_scope.
Local Open Scope nat_scope.

(* ------------------------------------------------------------------------------------ *)
(** * margins are the collapsed forms of the 2-D bases (all nine class pairs) *)

Lemma rows_base_collapse V nc sc rc cc f i j :
  rows_base_of V nc rc cc = Some f -> f i = row_bases_of V nc sc rc cc i j.
Proof. destruct rc, cc; simpl; intros H; inversion H; reflexivity. Qed.

Lemma columns_base_collapse V nr sr rc cc f i j :
  columns_base_of V nr rc cc = Some f -> f j = column_bases_of V nr sr rc cc i j.
Proof. destruct rc, cc; simpl; intros H; inversion H; reflexivity. Qed.

Lemma rows_table_base_collapse V nr nc sr sc rc cc f i j :
  rows_table_base_of V nr nc sr rc cc = Some f -> f i = table_bases_of V nr nc sr sc rc cc i j.
Proof. destruct rc, cc; simpl; intros H; inversion H; reflexivity. Qed.

Lemma columns_table_base_collapse V nr nc sr sc rc cc f i j :
  columns_table_base_of V nr nc sc rc cc = Some f -> f j = table_bases_of V nr nc sr sc rc cc i j.
Proof. destruct rc, cc; simpl; intros H; inversion H; reflexivity. Qed.

Lemma table_base_collapse V nr nc sr sc rc cc x i j :
  table_base_of V nr nc rc cc = Some x -> x = table_bases_of V nr nc sr sc rc cc i j.
Proof. destruct rc, cc; simpl; intros H; inversion H; reflexivity. Qed.

(* when is a margin defined: the OPPOSING dimension must be categorical (cannot add across
   MR items or array subvariables); the scalar table base needs both *)
Lemma rows_base_defined V nc rc cc : (exists f, rows_base_of V nc rc cc = Some f) <-> cc = CCat.
Proof. destruct rc, cc; simpl; split; intros H; try reflexivity; try discriminate;
         try (destruct H as [? H]; discriminate); eexists; reflexivity. Qed.
Lemma columns_base_defined V nr rc cc : (exists f, columns_base_of V nr rc cc = Some f) <-> rc = CCat.
Proof. destruct rc, cc; simpl; split; intros H; try reflexivity; try discriminate;
         try (destruct H as [? H]; discriminate); eexists; reflexivity. Qed.
Lemma rows_table_base_defined V nr nc sr rc cc :
  (exists f, rows_table_base_of V nr nc sr rc cc = Some f) <-> cc = CCat.
Proof. destruct rc, cc; simpl; split; intros H; try reflexivity; try discriminate;
         try (destruct H as [? H]; discriminate); eexists; reflexivity. Qed.
Lemma columns_table_base_defined V nr nc sc rc cc :
  (exists f, columns_table_base_of V nr nc sc rc cc = Some f) <-> rc = CCat.
Proof. destruct rc, cc; simpl; split; intros H; try reflexivity; try discriminate;
         try (destruct H as [? H]; discriminate); eexists; reflexivity. Qed.
Lemma table_base_defined V nr nc rc cc :
  (exists x, table_base_of V nr nc rc cc = Some x) <-> rc = CCat /\ cc = CCat.
Proof. destruct rc, cc; simpl; split; intros H; try (split; reflexivity);
         try (destruct H as [x H]; discriminate); try (destruct H; discriminate); eexists; reflexivity. Qed.

(* the public fall-backs of cubepart.py are exactly the undefined cases *)
Lemma public_rows_margin_cases so :
  (exists v, so_rows_base so = Some v /\ public_rows_margin so = PVector v)
  \/ (so_rows_base so = None /\ public_rows_margin so = PMatrix (so_row_bases so)).
Proof. unfold public_rows_margin. destruct (so_rows_base so) as [v|]; [left; exists v; auto| right; auto]. Qed.
Lemma public_columns_margin_cases so :
  (exists v, so_columns_base so = Some v /\ public_columns_margin so = PVector v)
  \/ (so_columns_base so = None /\ public_columns_margin so = PMatrix (so_column_bases so)).
Proof. unfold public_columns_margin. destruct (so_columns_base so) as [v|]; [left; exists v; auto| right; auto]. Qed.
Lemma public_table_base_cases so :
  (exists x, so_table_base so = Some x /\ public_table_base so = PScalar x)
  \/ (so_table_base so = None /\ exists v, so_columns_table_base so = Some v /\ public_table_base so = PVector v)
  \/ (so_table_base so = None /\ so_columns_table_base so = None /\
      exists v, so_rows_table_base so = Some v /\ public_table_base so = PVector v)
  \/ (so_table_base so = None /\ so_columns_table_base so = None /\ so_rows_table_base so = None /\
      public_table_base so = PMatrix (so_table_bases so)).
Proof.
  unfold public_table_base.
  destruct (so_table_base so) as [x|]; [left; exists x; auto|].
  destruct (so_columns_table_base so) as [v|]; [right; left; split; auto; exists v; auto|].
  destruct (so_rows_table_base so) as [v|]; [right; right; left; repeat split; auto; exists v; auto|].
  right; right; right; auto.
Qed.

(* ------------------------------------------------------------------------------------ *)
(** * the 1-D margins at the survey level *)

Section Margins.
  Variable S : survey.
  Variable tv : tvar.
  Variables vr vc : nat.
  Variables mr mc : list bool.
  Variable k : nat.
  Hypothesis Ht : t_ok tv.
  Hypothesis Hk : k < t_n tv.

  Ltac popfix2 :=
    match goal with
    | |- _ =x= Fin (wsum ?S (fun r => pop_of ?tv ?k r && @?A r && @?B r)) =>
        transitivity (Fin (wsum S (fun r => pop_raw tv k r && A r && B r)));
        [| simpl; apply wsum_ext; intros r _; rewrite (pop_raw_eq tv k r Ht Hk); reflexivity]
    end.

  (* rows margin (columns categorical): w(row element i, any valid column category) *)
  Theorem rows_base_spec kr i : cat_or_mr kr -> i < nval mr ->
    exists f, rows_base_of (slice_of tv vr kr mr vc KCat mc S k) (nval mc) (kcls kr) CCat = Some f /\
      f i =x= Fin (wsum S (fun r => pop_of tv k r && in_el kr mr (ans r vr) i && ok_cat mc (ans r vc))).
  Proof.
    intros Hr Hi.
    pose proof (slice_of_cell_spec tv vr kr mr vc KCat mc S k Ht Hr (or_introl eq_refl)) as HV.
    destruct Hr as [-> | ->]; simpl kcls; simpl rows_base_of; eexists; (split; [reflexivity|]);
      simpl in_el; popfix2.
    - apply (cc_rows_base_spec S _ vr vc mr mc _ HV i Hi).
    - apply (mc_rows_base_spec S _ vr vc mr mc _ HV i).
  Qed.

  (* columns margin (rows categorical) *)
  Theorem columns_base_spec kc j : cat_or_mr kc -> j < nval mc ->
    exists f, columns_base_of (slice_of tv vr KCat mr vc kc mc S k) (nval mr) CCat (kcls kc) = Some f /\
      f j =x= Fin (wsum S (fun r => pop_of tv k r && ok_cat mr (ans r vr) && in_el kc mc (ans r vc) j)).
  Proof.
    intros Hc Hj.
    pose proof (slice_of_cell_spec tv vr KCat mr vc kc mc S k Ht (or_introl eq_refl) Hc) as HV.
    destruct Hc as [-> | ->]; simpl kcls; simpl columns_base_of; eexists; (split; [reflexivity|]);
      simpl in_el; popfix2.
    - apply (cc_columns_base_spec S _ vr vc mr mc _ HV j Hj).
    - apply (cm_columns_base_spec S _ vr vc mr mc _ HV j).
  Qed.

  (* scalar table base (both categorical): respondents valid on both *)
  Theorem table_base_spec :
    exists x, table_base_of (slice_of tv vr KCat mr vc KCat mc S k) (nval mr) (nval mc) CCat CCat = Some x /\
      x =x= Fin (wsum S (fun r => pop_of tv k r && ok_cat mr (ans r vr) && ok_cat mc (ans r vc))).
  Proof.
    pose proof (slice_of_cell_spec tv vr KCat mr vc KCat mc S k Ht (or_introl eq_refl) (or_introl eq_refl)) as HV.
    simpl table_base_of. eexists. split; [reflexivity|]. popfix2.
    apply (cc_table_base_spec S _ vr vc mr mc _ HV).
  Qed.
End Margins.

(* ------------------------------------------------------------------------------------ *)
(** * ranges: [xmin_list] / [xmax_list] of finite values are the least / greatest element *)

Definition all_fin (l : list xq) : Prop := Forall (fun x => exists q, x = Fin q) l.

Lemma xmin_fin a b : exists c, xmin (Fin a) (Fin b) = Fin c /\ (c <= a)%Q /\ (c <= b)%Q /\ (c = a \/ c = b).
Proof.
  unfold xmin, xltb. destruct (Qlt_le_dec b a) as [L|L].
  - exists b. repeat split; auto. apply Qlt_le_weak. exact L. apply Qle_refl.
  - exists a. repeat split; auto. apply Qle_refl.
Qed.
Lemma xmax_fin a b : exists c, xmax (Fin a) (Fin b) = Fin c /\ (a <= c)%Q /\ (b <= c)%Q /\ (c = a \/ c = b).
Proof.
  unfold xmax, xltb. destruct (Qlt_le_dec a b) as [L|L].
  - exists b. repeat split; auto. apply Qlt_le_weak. exact L. apply Qle_refl.
  - exists a. repeat split; auto. apply Qle_refl.
Qed.

Lemma fold_xmin_fin t a : all_fin t ->
  exists q, fold_left xmin t (Fin a) = Fin q /\ In (Fin q) (Fin a :: t) /\ (q <= a)%Q /\
            forall q', In (Fin q') t -> (q <= q')%Q.
Proof.
  revert a. induction t as [|x t IH]; intros a H; cbn [fold_left].
  - exists a. split; [reflexivity|]. split; [left; reflexivity|]. split; [apply Qle_refl|]. intros q' [].
  - inversion H as [|? ? [b ->] Ht]; subst.
    destruct (xmin_fin a b) as [c [Ec [Ca [Cb Cor]]]]. rewrite Ec.
    destruct (IH c Ht) as [q [Eq [Hin [Hc Hall]]]].
    exists q. split; [exact Eq|]. split.
    + destruct Hin as [Hin|Hin].
      * inversion Hin; subst. destruct Cor as [-> | ->]; [left; reflexivity| right; left; reflexivity].
      * right. right. exact Hin.
    + split; [eapply Qle_trans; eassumption|].
      intros q' [Hq|Hq].
      * inversion Hq; subst. eapply Qle_trans; eassumption.
      * apply Hall. exact Hq.
Qed.

Lemma fold_xmax_fin t a : all_fin t ->
  exists q, fold_left xmax t (Fin a) = Fin q /\ In (Fin q) (Fin a :: t) /\ (a <= q)%Q /\
            forall q', In (Fin q') t -> (q' <= q)%Q.
Proof.
  revert a. induction t as [|x t IH]; intros a H; cbn [fold_left].
  - exists a. split; [reflexivity|]. split; [left; reflexivity|]. split; [apply Qle_refl|]. intros q' [].
  - inversion H as [|? ? [b ->] Ht]; subst.
    destruct (xmax_fin a b) as [c [Ec [Ca [Cb Cor]]]]. rewrite Ec.
    destruct (IH c Ht) as [q [Eq [Hin [Hc Hall]]]].
    exists q. split; [exact Eq|]. split.
    + destruct Hin as [Hin|Hin].
      * inversion Hin; subst. destruct Cor as [-> | ->]; [left; reflexivity| right; left; reflexivity].
      * right. right. exact Hin.
    + split; [eapply Qle_trans; eassumption|].
      intros q' [Hq|Hq].
      * inversion Hq; subst. eapply Qle_trans; eassumption.
      * apply Hall. exact Hq.
Qed.

Theorem xmin_list_least l : l <> [] -> all_fin l ->
  exists q, xmin_list l = Fin q /\ In (Fin q) l /\ forall q', In (Fin q') l -> (q <= q')%Q.
Proof.
  destruct l as [|x t]; [congruence|]. intros _ H.
  inversion H as [|? ? [a ->] Ht]; subst. cbn [xmin_list].
  destruct (fold_xmin_fin t a Ht) as [q [Eq [Hin [Ha Hall]]]].
  exists q. split; [exact Eq|]. split; [exact Hin|].
  intros q' [Hq|Hq]; [inversion Hq; subst; exact Ha| apply Hall; exact Hq].
Qed.

Theorem xmax_list_greatest l : l <> [] -> all_fin l ->
  exists q, xmax_list l = Fin q /\ In (Fin q) l /\ forall q', In (Fin q') l -> (q' <= q)%Q.
Proof.
  destruct l as [|x t]; [congruence|]. intros _ H.
  inversion H as [|? ? [a ->] Ht]; subst. cbn [xmax_list].
  destruct (fold_xmax_fin t a Ht) as [q [Eq [Hin [Ha Hall]]]].
  exists q. split; [exact Eq|]. split; [exact Hin|].
  intros q' [Hq|Hq]; [inversion Hq; subst; exact Ha| apply Hall; exact Hq].
Qed.

(* ------------------------------------------------------------------------------------ *)
(** * the minimum-base mask *)

Lemma mask_cell_fin b s : mask_cell (Fin b) (Fin s) = true <-> (b < s)%Q.
Proof.
  unfold mask_cell, xltb. destruct (Qlt_le_dec b s) as [L|L]; split; auto; try discriminate.
  intros L'. exfalso. apply (Qlt_not_le _ _ L' L).
Qed.
Lemma mask_cell_nan s : mask_cell NaN s = false.
Proof. reflexivity. Qed.
