(* GOLDEN obligations of the wiring translator for C05 (generated ONCE by tools/gen_wiring_props.py,
   then committed): what each public member of cubepart.py that C05 relies on IS, as a term of
   Base/WiringExp.v.  Gen/WiringSrc.v is regenerated from /repo on every check; an edit of the
   public layer that changes one of these members breaks the lemma below (reflexivity). *)
From Coq Require Import List ZArith String.
From CC Require Import Base.WiringExp Gen.WiringSrc.
Import ListNotations.
Local Open Scope string_scope.

(* CubePartition._dimensions *)
Lemma gen_wiring_CubePartition__dimensions :
  wsrc_CubePartition__dimensions = Some (WRaise "NotImplementedError").
Proof. reflexivity. Qed.

(* CubePartition._transforms_dict *)
Lemma gen_wiring_CubePartition__transforms_dict :
  wsrc_CubePartition__transforms_dict = Some (WIf (WCmp "is" (WSelf "_transforms_arg") (WNone)) (WDict
      []) (WSelf "_transforms_arg")).
Proof. reflexivity. Qed.

(* _Slice.column_order *)
Lemma gen_wiring_Slice_column_order :
  wsrc_Slice_column_order = Some (WCall (WGlobal "__defaults__") [WIf (WCmp "==" (WVar "format")
      (WAttr (WGlobal "ORDER_FORMAT") "BOGUS_IDS")) (WCall (WAttr (WGlobal "_BaseOrderHelper")
      "column_display_order") [WSelf "_dimensions"; WSelf "_measures"] [("format", WAttr (WGlobal
      "ORDER_FORMAT") "BOGUS_IDS")]) (WSelf "_column_order_signed_indexes")] [("format", WAttr
      (WGlobal "ORDER_FORMAT") "SIGNED_INDEXES")]).
Proof. reflexivity. Qed.

(* _Slice.inserted_column_idxs *)
Lemma gen_wiring_Slice_inserted_column_idxs :
  wsrc_Slice_inserted_column_idxs = Some (WCall (WGlobal "tuple") [WComp "gen" (WVar "i") [(["i";
      "col_idx"], WCall (WGlobal "enumerate") [WSelf "_column_order_signed_indexes"] [], [WCmp "<"
      (WVar "col_idx") (WInt (0)%Z)])]] []).
Proof. reflexivity. Qed.

(* _Slice.inserted_row_idxs *)
Lemma gen_wiring_Slice_inserted_row_idxs :
  wsrc_Slice_inserted_row_idxs = Some (WCall (WGlobal "tuple") [WComp "gen" (WVar "i") [(["i";
      "row_idx"], WCall (WGlobal "enumerate") [WSelf "_row_order_signed_indexes"] [], [WCmp "<"
      (WVar "row_idx") (WInt (0)%Z)])]] []).
Proof. reflexivity. Qed.

(* _Slice.derived_column_idxs *)
Lemma gen_wiring_Slice_derived_column_idxs :
  wsrc_Slice_derived_column_idxs = Some (WCall (WSelf "_derived_element_idxs") [WIndex (WSelf
      "_dimensions") [WInt (1)%Z]; WSelf "_column_order_signed_indexes"] []).
Proof. reflexivity. Qed.

(* _Slice.derived_row_idxs *)
Lemma gen_wiring_Slice_derived_row_idxs :
  wsrc_Slice_derived_row_idxs = Some (WCall (WSelf "_derived_element_idxs") [WSelf "_rows_dimension";
      WSelf "_row_order_signed_indexes"] []).
Proof. reflexivity. Qed.

(* _Slice.diff_column_idxs *)
Lemma gen_wiring_Slice_diff_column_idxs :
  wsrc_Slice_diff_column_idxs = Some (WCall (WSelf "_diff_element_idxs") [WIndex (WSelf "_dimensions")
      [WInt (1)%Z]; WSelf "_column_order_signed_indexes"] []).
Proof. reflexivity. Qed.

(* _Slice.diff_row_idxs *)
Lemma gen_wiring_Slice_diff_row_idxs :
  wsrc_Slice_diff_row_idxs = Some (WCall (WSelf "_diff_element_idxs") [WSelf "_rows_dimension"; WSelf
      "_row_order_signed_indexes"] []).
Proof. reflexivity. Qed.

(* _Slice.row_order *)
Lemma gen_wiring_Slice_row_order :
  wsrc_Slice_row_order = Some (WCall (WGlobal "__defaults__") [WIf (WCmp "==" (WVar "format") (WAttr
      (WGlobal "ORDER_FORMAT") "BOGUS_IDS")) (WCall (WAttr (WGlobal "_BaseOrderHelper")
      "row_display_order") [WSelf "_dimensions"; WSelf "_measures"] [("format", WAttr (WGlobal
      "ORDER_FORMAT") "BOGUS_IDS")]) (WSelf "_row_order_signed_indexes")] [("format", WAttr (WGlobal
      "ORDER_FORMAT") "SIGNED_INDEXES")]).
Proof. reflexivity. Qed.

(* _Slice._assemble_marginal *)
Lemma gen_wiring_Slice__assemble_marginal :
  wsrc_Slice__assemble_marginal = Some (WIf (WUn "not" (WAttr (WVar "marginal") "is_defined")) (WNone)
      (WIndex (WCall (WAttr (WGlobal "np") "hstack") [WAttr (WVar "marginal") "blocks"] []) [WIf
      (WCmp "==" (WAttr (WVar "marginal") "orientation") (WAttr (WGlobal "MO") "ROWS")) (WSelf
      "_row_order_signed_indexes") (WSelf "_column_order_signed_indexes")])).
Proof. reflexivity. Qed.

(* _Slice._assemble_matrix *)
Lemma gen_wiring_Slice__assemble_matrix :
  wsrc_Slice__assemble_matrix = Some (WIndex (WCall (WAttr (WGlobal "np") "block") [WVar "blocks"] [])
      [WCall (WAttr (WGlobal "np") "ix_") [WSelf "_row_order_signed_indexes"; WSelf
      "_column_order_signed_indexes"] []]).
Proof. reflexivity. Qed.

(* _Slice._column_order_signed_indexes *)
Lemma gen_wiring_Slice__column_order_signed_indexes :
  wsrc_Slice__column_order_signed_indexes = Some (WCall (WAttr (WGlobal "_BaseOrderHelper")
      "column_display_order") [WSelf "_dimensions"; WSelf "_measures"] [("format", WAttr (WGlobal
      "ORDER_FORMAT") "SIGNED_INDEXES")]).
Proof. reflexivity. Qed.

(* _Slice._derived_element_idxs *)
Lemma gen_wiring_Slice__derived_element_idxs :
  wsrc_Slice__derived_element_idxs = Some (WCall (WGlobal "tuple") [WIndex (WCall (WAttr (WGlobal
      "np") "where") [WIndex (WCall (WAttr (WGlobal "np") "array") [WBin "+" (WComp "list" (WAttr
      (WVar "e") "derived") [(["e"], WAttr (WVar "dimension") "valid_elements", [])]) (WBin "*"
      (WList [WFalse]) (WCall (WGlobal "len") [WAttr (WVar "dimension") "subtotals"] []))] []) [WVar
      "order"]] []) [WInt (0)%Z]] []).
Proof. reflexivity. Qed.

(* _Slice._diff_element_idxs *)
Lemma gen_wiring_Slice__diff_element_idxs :
  wsrc_Slice__diff_element_idxs = Some (WCall (WGlobal "tuple") [WIndex (WCall (WAttr (WGlobal "np")
      "where") [WIndex (WCall (WAttr (WGlobal "np") "array") [WBin "+" (WBin "*" (WList [WFalse])
      (WCall (WGlobal "len") [WAttr (WVar "dimension") "valid_elements"] [])) (WComp "list" (WAttr
      (WVar "e") "is_difference") [(["e"], WAttr (WVar "dimension") "subtotals", [])])] []) [WVar
      "order"]] []) [WInt (0)%Z]] []).
Proof. reflexivity. Qed.

(* _Slice._dimensions *)
Lemma gen_wiring_Slice__dimensions :
  wsrc_Slice__dimensions = Some (WCall (WGlobal "tuple") [WComp "gen" (WCall (WAttr (WVar "dimension")
      "apply_transforms") [WVar "transforms"] []) [(["dimension"; "transforms"], WCall (WGlobal
      "zip") [WIndex (WAttr (WSelf "_cube") "dimensions") [WSlice (WInt (-2)%Z) (WNone)]; WSelf
      "_transform_dicts"] [], [])]] []).
Proof. reflexivity. Qed.

(* _Slice._row_order_signed_indexes *)
Lemma gen_wiring_Slice__row_order_signed_indexes :
  wsrc_Slice__row_order_signed_indexes = Some (WCall (WAttr (WGlobal "_BaseOrderHelper")
      "row_display_order") [WSelf "_dimensions"; WSelf "_measures"] [("format", WAttr (WGlobal
      "ORDER_FORMAT") "SIGNED_INDEXES")]).
Proof. reflexivity. Qed.

(* _Slice._rows_dimension *)
Lemma gen_wiring_Slice__rows_dimension :
  wsrc_Slice__rows_dimension = Some (WIndex (WSelf "_dimensions") [WInt (0)%Z]).
Proof. reflexivity. Qed.

(* _Slice._transform_dicts *)
Lemma gen_wiring_Slice__transform_dicts :
  wsrc_Slice__transform_dicts = Some (WTuple [WCall (WAttr (WSelf "_transforms_dict") "get") [WStr
      "rows_dimension"; WDict []] []; WCall (WAttr (WSelf "_transforms_dict") "get") [WStr
      "columns_dimension"; WDict []] []]).
Proof. reflexivity. Qed.

(* _Strand.derived_row_idxs *)
Lemma gen_wiring_Strand_derived_row_idxs :
  wsrc_Strand_derived_row_idxs = Some (WCall (WGlobal "tuple") [WIndex (WCall (WAttr (WGlobal "np")
      "where") [WIndex (WCall (WAttr (WGlobal "np") "array") [WBin "+" (WComp "list" (WAttr (WVar
      "e") "derived") [(["e"], WAttr (WSelf "_rows_dimension") "valid_elements", [])]) (WBin "*"
      (WList [WFalse]) (WCall (WGlobal "len") [WAttr (WSelf "_rows_dimension") "subtotals"] []))]
      []) [WSelf "_row_order_signed_indexes"]] []) [WInt (0)%Z]] []).
Proof. reflexivity. Qed.

(* _Strand.diff_row_idxs *)
Lemma gen_wiring_Strand_diff_row_idxs :
  wsrc_Strand_diff_row_idxs = Some (WCall (WGlobal "tuple") [WIndex (WCall (WAttr (WGlobal "np")
      "where") [WIndex (WCall (WAttr (WGlobal "np") "array") [WBin "+" (WBin "*" (WList [WFalse])
      (WCall (WGlobal "len") [WAttr (WSelf "_rows_dimension") "valid_elements"] [])) (WComp "list"
      (WAttr (WVar "e") "is_difference") [(["e"], WAttr (WSelf "_rows_dimension") "subtotals",
      [])])] []) [WSelf "_row_order_signed_indexes"]] []) [WInt (0)%Z]] []).
Proof. reflexivity. Qed.

(* _Strand.inserted_row_idxs *)
Lemma gen_wiring_Strand_inserted_row_idxs :
  wsrc_Strand_inserted_row_idxs = Some (WCall (WGlobal "tuple") [WComp "gen" (WVar "i") [(["i";
      "row_idx"], WCall (WGlobal "enumerate") [WSelf "_row_order_signed_indexes"] [], [WCmp "<"
      (WVar "row_idx") (WInt (0)%Z)])]] []).
Proof. reflexivity. Qed.

(* _Strand.row_count *)
Lemma gen_wiring_Strand_row_count :
  wsrc_Strand_row_count = Some (WCall (WGlobal "len") [WSelf "_row_order_signed_indexes"] []).
Proof. reflexivity. Qed.

(* _Strand.row_order *)
Lemma gen_wiring_Strand_row_order :
  wsrc_Strand_row_order = Some (WCall (WGlobal "__defaults__") [WIf (WCmp "==" (WVar "format") (WAttr
      (WGlobal "ORDER_FORMAT") "BOGUS_IDS")) (WSelf "_row_order_bogus_ids") (WSelf
      "_row_order_signed_indexes")] [("format", WAttr (WGlobal "ORDER_FORMAT") "SIGNED_INDEXES")]).
Proof. reflexivity. Qed.

(* _Strand._assemble_vector *)
Lemma gen_wiring_Strand__assemble_vector :
  wsrc_Strand__assemble_vector = Some (WIndex (WCall (WAttr (WGlobal "np") "concatenate") [WVar
      "blocks"] []) [WSelf "_row_order_signed_indexes"]).
Proof. reflexivity. Qed.

(* _Strand._dimensions *)
Lemma gen_wiring_Strand__dimensions :
  wsrc_Strand__dimensions = Some (WTuple [WSelf "_rows_dimension"]).
Proof. reflexivity. Qed.

(* _Strand._rows_dimension *)
Lemma gen_wiring_Strand__rows_dimension :
  wsrc_Strand__rows_dimension = Some (WCall (WAttr (WIndex (WAttr (WSelf "_cube") "dimensions") [WInt
      (-1)%Z]) "apply_transforms") [WSelf "_row_transforms_dict"] []).
Proof. reflexivity. Qed.

(* _Strand._row_transforms_dict *)
Lemma gen_wiring_Strand__row_transforms_dict :
  wsrc_Strand__row_transforms_dict = Some (WCall (WAttr (WSelf "_transforms_dict") "get") [WStr
      "rows_dimension"; WDict []] []).
Proof. reflexivity. Qed.

(* _Strand._row_order_signed_indexes *)
Lemma gen_wiring_Strand__row_order_signed_indexes :
  wsrc_Strand__row_order_signed_indexes = Some (WCall (WAttr (WGlobal "np") "array") [WCall (WAttr
      (WGlobal "stripe_BaseOrderHelper") "display_order") [WSelf "_rows_dimension"; WSelf
      "_measures"] [("format", WAttr (WGlobal "ORDER_FORMAT") "SIGNED_INDEXES")]] [("dtype", WGlobal
      "int")]).
Proof. reflexivity. Qed.

(* _Nub._dimensions *)
Lemma gen_wiring_Nub__dimensions :
  wsrc_Nub__dimensions = Some (WTuple []).
Proof. reflexivity. Qed.
