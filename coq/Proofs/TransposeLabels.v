(* Proofs/TransposeLabels.v -- C10 for what the assembly step shows (Model/Assemble.v,
   Model/TransposeView.v): the view of the exchanged raw slice under the exchanged display orders is
   the view of the original with rows and columns exchanged -

     shape swapped; row labels / row marginals / inserted row positions of B x A = the column ones of
     A x B and vice versa; scalars unchanged (all Leibniz equalities, every order, every input);
     every assembled matrix measure is the transpose, cell by cell (well-shaped blocks, orders in range).

   And the per-dimension public lists (labels, codes, aliases, fills, inserted / derived / difference
   positions): the ROWS lists of B x A are the COLUMNS lists of A x B. *)
From Coq Require Import List ZArith Bool Lia Arith QArith.
From CC Require Import Base.XQ Base.ListX Model.Assemble Model.TransposeView Proofs.AssembleProofs.
Import ListNotations.
Local Close Scope Q_scope.
Local Close Scope Z_scope.
Local Open Scope nat_scope.

(* ---- the list-of-lists transpose ---------------------------------------------------------- *)
Lemma ltranspose_rect {A} (d : A) n p M : rect p n (ltranspose d n p M).
Proof.
  unfold rect, ltranspose. split.
  - rewrite map_length, seq_length. reflexivity.
  - apply Forall_forall. intros r Hr. apply in_map_iff in Hr. destruct Hr as (j & <- & _).
    rewrite map_length, seq_length. reflexivity.
Qed.

Lemma ltranspose_gnth {A} (d : A) n p M i j : i < n -> j < p ->
  gnth d (ltranspose d n p M) j i = gnth d M i j.
Proof.
  intros Hi Hj. unfold gnth at 1. unfold ltranspose.
  rewrite (nth_map_lt _ (seq 0 p) j 0 [] ) by (rewrite seq_length; exact Hj).
  rewrite seq_nth by exact Hj. simpl.
  rewrite (nth_map_lt _ (seq 0 n) i 0 d) by (rewrite seq_length; exact Hi).
  rewrite seq_nth by exact Hi. reflexivity.
Qed.

Lemma blocks_T_wf {A} (d : A) n m p q (B : blocks A) : wf_blocks p q n m (blocks_T d n m p q B).
Proof. unfold wf_blocks, blocks_T. simpl. repeat split; apply ltranspose_rect. Qed.

(* the cell named by the signed pair (c, r) in the exchanged blocks is the cell (r, c) *)
Lemma block_cell_T {A} (d : A) n m p q (B : blocks A) r c :
  in_range m n r -> in_range q p c ->
  block_cell d q m (blocks_T d n m p q B) c r = block_cell d m q B r c.
Proof.
  unfold in_range, block_cell, blocks_T. intros Rr Rc. simpl.
  destruct (Z.leb 0 r) eqn:Er, (Z.leb 0 c) eqn:Ec;
    try apply Z.leb_le in Er; try apply Z.leb_le in Ec;
    try apply Z.leb_gt in Er; try apply Z.leb_gt in Ec;
    apply ltranspose_gnth; lia.
Qed.

(* ---- one assembled measure ------------------------------------------------------------------ *)
Theorem assemble_T {A} (d : A) n m p q (B : blocks A) ro co i j :
  wf_blocks n m p q B ->
  i < length ro -> j < length co ->
  in_range m n (nth i ro 0%Z) -> in_range q p (nth j co 0%Z) ->
  gnth d (assemble d p q n m (blocks_T d n m p q B) co ro) j i
  = gnth d (assemble d n m p q B ro co) i j.
Proof.
  intros W Hi Hj Ri Rj.
  rewrite (assemble_cell d p q n m (blocks_T d n m p q B) co ro j i (blocks_T_wf d n m p q B) Hj Hi Rj Ri).
  rewrite (assemble_cell d n m p q B ro co i j W Hi Hj Ri Rj).
  apply block_cell_T; assumption.
Qed.

(* ---- the whole view ---------------------------------------------------------------------------- *)
(* everything that is a vector, a position list or a scalar: equal as lists, for EVERY raw slice and
   EVERY pair of orders (no hypothesis) *)
Theorem slice_view_T_lists R ro co :
  let V := slice_view R ro co in
  let V' := slice_view (raw_T R) co ro in
  v_shape V' = (snd (v_shape V), fst (v_shape V)) /\
  v_row_labels V' = v_col_labels V /\ v_col_labels V' = v_row_labels V /\
  v_row_marginals V' = v_col_marginals V /\ v_col_marginals V' = v_row_marginals V /\
  v_inserted_rows V' = v_inserted_cols V /\ v_inserted_cols V' = v_inserted_rows V /\
  v_scalars V' = v_scalars V /\
  length (v_measures V') = length (v_measures V).
Proof.
  cbv zeta. unfold slice_view, raw_T. simpl. repeat split. rewrite !map_length. reflexivity.
Qed.

(* the k-th matrix measure of B x A is the transpose of the k-th matrix measure of A x B *)
Theorem slice_view_T_measures R ro co k i j :
  Forall (wf_blocks (r_n R) (r_m R) (r_p R) (r_q R)) (r_measures R) ->
  Forall (in_range (r_m R) (r_n R)) ro -> Forall (in_range (r_q R) (r_p R)) co ->
  k < length (r_measures R) -> i < length ro -> j < length co ->
  gnth NaN (nth k (v_measures (slice_view (raw_T R) co ro)) []) j i
  = gnth NaN (nth k (v_measures (slice_view R ro co)) []) i j.
Proof.
  intros W Fr Fc Hk Hi Hj. unfold slice_view, raw_T. simpl.
  set (B0 := mkBlocks (A:=xq) [] [] [] []).
  rewrite (nth_map_lt _ _ k B0 []) by (rewrite map_length; exact Hk).
  rewrite (nth_map_lt _ (r_measures R) k B0 B0 Hk).
  rewrite (nth_map_lt _ (r_measures R) k B0 [] Hk).
  rewrite Forall_forall in W, Fr, Fc.
  apply assemble_T; try assumption.
  - apply W. apply nth_In. exact Hk.
  - apply Fr. apply nth_In. exact Hi.
  - apply Fc. apply nth_In. exact Hj.
Qed.

(* ---- the per-dimension public lists -------------------------------------------------------------- *)
(* labels, codes, aliases, fills, inserted / derived / difference positions: the ROWS lists of the
   exchanged slice (rows dimension B, its order) are the COLUMNS lists of the original, and vice
   versa - for every pair of dimensions and orders *)
Theorem slice_lists_T A_dim B_dim ro co :
  fst (slice_lists B_dim A_dim co ro) = snd (slice_lists A_dim B_dim ro co) /\
  snd (slice_lists B_dim A_dim co ro) = fst (slice_lists A_dim B_dim ro co).
Proof. split; reflexivity. Qed.

(* what those lists say, readably: position k shows the attribute of the element / subtotal the signed
   index names; k is an inserted position iff the index is negative; a difference position iff the
   index names a difference subtotal *)
Theorem rows_lists_spec D ro k :
  Forall (in_range (length (snd (da_labels D))) (length (fst (da_labels D)))) ro -> k < length ro ->
  nth k (dl_labels (rows_lists D ro)) 0%Z = vec_cell 0%Z (fst (da_labels D)) (snd (da_labels D)) (nth k ro 0%Z) /\
  nth k (dl_labels (columns_lists D ro)) 0%Z = vec_cell 0%Z (fst (da_labels D)) (snd (da_labels D)) (nth k ro 0%Z) /\
  (In k (dl_inserted (rows_lists D ro)) <-> (nth k ro 0%Z < 0)%Z) /\
  (In k (dl_inserted (columns_lists D ro)) <-> (nth k ro 0%Z < 0)%Z).
Proof.
  intros F Hk. rewrite Forall_forall in F.
  assert (R : in_range (length (snd (da_labels D))) (length (fst (da_labels D))) (nth k ro 0%Z))
    by (apply F; apply nth_In; exact Hk).
  unfold rows_lists, columns_lists. simpl. repeat split;
    try (apply assemble_vec_nth; assumption);
    try (intros H; apply inserted_idxs_spec in H; tauto);
    try (intros H; apply inserted_idxs_spec; tauto).
Qed.
