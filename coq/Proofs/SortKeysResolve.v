(* C08: the readings of the keyword tables order like their sort keys; the payload-order fallback; the
   sort key is the named vector of the named measure; the population proportions carry NaN at difference
   subtotals, so the population key orders like the public population counts (+ the former witness). *)
From Coq Require Import List Sorting Permutation ZArith String Bool Lia Arith QArith Lqa.
From CC Require Import Base.XQ Base.ListX Base.SortX Spec.OrderSpec Model.Collator Model.SortKeys
  Proofs.OrderCollate Proofs.OrderExplicit Proofs.OrderIds Proofs.OrderVisible Proofs.OrderSbv
  Proofs.SortKeysProofs.
Import ListNotations.
Local Close Scope Q_scope.
Local Open Scope nat_scope.

(* --- num_leb and =x= -------------------------------------------------------------------------------- *)
Lemma Qle_bool_compat p p' q q' : (p == p')%Q -> (q == q')%Q -> Qle_bool p q = Qle_bool p' q'.
Proof.
  intros Hp Hq. destruct (Qle_bool p q) eqn:E, (Qle_bool p' q') eqn:E'; auto.
  - apply Qle_bool_iff in E. rewrite Hp, Hq in E. apply Qle_bool_iff in E. congruence.
  - apply Qle_bool_iff in E'. rewrite <- Hp, <- Hq in E'. apply Qle_bool_iff in E'. congruence.
Qed.

Lemma num_leb_xeq a a' b b' : a =x= a' -> b =x= b' -> num_leb a b = num_leb a' b'.
Proof.
  destruct a as [p|[|]|], a' as [p'|[|]|]; simpl; try tauto; try discriminate;
    destruct b as [q|[|]|], b' as [q'|[|]|]; simpl; try tauto; try discriminate; auto.
  apply Qle_bool_compat.
Qed.

Lemma is_nan_xeq a b : a =x= b -> is_nan a = is_nan b.
Proof. destruct a, b; simpl; tauto. Qed.

Lemma is_nan_false a : is_nan a = false <-> a <> NaN.
Proof. destruct a; simpl; split; intros H; try discriminate; try congruence; auto. Qed.

(* --- every reading of the tables orders like its key -------------------------------------------------- *)
Lemma same_value_order key pub : (forall z, pub z =x= key z) -> same_order key pub.
Proof.
  intros H a b. split; [apply is_nan_xeq, H|].
  intros L _ _. rewrite (num_leb_xeq _ _ _ _ (H a) (H b)). exact L.
Qed.

Local Open Scope Q_scope.
Lemma scale_l_nan k x : 0 < k -> is_nan (xmul (Fin k) x) = is_nan x.
Proof.
  intros Hk. destruct x as [q|s|]; simpl; auto.
  assert (Z : qzero k = false) by (apply qzero_false; intros E; rewrite E in Hk; apply (Qlt_irrefl 0 Hk)).
  rewrite Z. reflexivity.
Qed.

Lemma scale_l_mono k x y : 0 < k ->
  num_leb x y = true -> num_leb (xmul (Fin k) x) (xmul (Fin k) y) = true.
Proof.
  intros Hk.
  assert (Z : qzero k = false) by (apply qzero_false; intros E; rewrite E in Hk; apply (Qlt_irrefl 0 Hk)).
  assert (N : qneg k = false) by (apply qneg_false; apply Qlt_le_weak; exact Hk).
  destruct x as [p|[|]|], y as [q|[|]|]; simpl; rewrite ?Z, ?N; simpl; auto.
  rewrite !Qle_bool_iff. intros L. nra.
Qed.

Lemma scale_order k key pub : 0 < k ->
  (forall z, pub z =x= xmul (Fin k) (key z)) -> same_order key pub.
Proof.
  intros Hk H a b. split.
  - rewrite (is_nan_xeq _ _ (H a)). apply scale_l_nan, Hk.
  - intros L _ _. rewrite (num_leb_xeq _ _ _ _ (H a) (H b)). apply scale_l_mono; auto.
Qed.

Lemma xmul_comm_fin k x : xmul x (Fin k) =x= xmul (Fin k) x.
Proof. apply xmul_comm. Qed.

(* square roots, stated through squares *)
Lemma root_order key pub :
  (forall z, (pub z = NaN /\ key z = NaN) \/ (nonneg (pub z) /\ xmul (pub z) (pub z) =x= key z)) ->
  same_order key pub.
Proof.
  intros H a b. split.
  - destruct (H a) as [[-> ->]|[[_ N] E]]; auto.
    destruct (pub a) as [p|s|], (key a) as [q|t|]; simpl in *; try tauto; try congruence.
  - intros L Ka Kb.
    destruct (H a) as [[_ Ea]|[[Pa Na] Ea]]; [rewrite Ea in Ka; discriminate|].
    destruct (H b) as [[_ Eb]|[[Pb Nb] Eb]]; [rewrite Eb in Kb; discriminate|].
    rewrite <- (num_leb_xeq _ _ _ _ Ea Eb) in L. clear Ea Eb Ka Kb.
    destruct (pub a) as [p|[|]|], (pub b) as [q|[|]|]; simpl in *; try congruence; auto.
    rewrite Qle_bool_iff in *. nra.
Qed.

Theorem reads_same_order (r : reading) (c : Q) key pub :
  0 < c -> (forall z, reads r c (key z) (pub z)) -> same_order key pub.
Proof.
  intros Hc H. destruct r; simpl in H.
  - apply same_value_order, H.
  - apply root_order, H.
  - apply (scale_order Z975); [reflexivity|exact H].
  - apply (scale_order c); auto. intros z. rewrite (H z). apply xmul_comm.
  - apply (scale_order (Z975 * c)); auto.
    apply Qmult_lt_0_compat; [reflexivity|exact Hc].
Qed.
Local Close Scope Q_scope.

(* --- fallback ------------------------------------------------------------------------------------------ *)
Local Opaque matrix_table strand_table marginal_table measure_enum marginal_enum.
Lemma find_index_none x ids : find_index x ids = None <-> ~ In x ids.
Proof.
  induction ids as [|y t IH]; simpl; [tauto|].
  destruct (ident_eqb y x) eqn:E.
  - apply ident_eqb_eq in E. split; [discriminate|]. intros H. exfalso. apply H. auto.
  - apply ident_eqb_neq in E. destruct (find_index x t) eqn:F; simpl.
    + split; [discriminate|]. intros H. exfalso.
      assert (H0 : ~ In x t) by (intros X; apply H; auto). apply IH in H0. discriminate.
    + split; auto. intros _ [H|H]; [contradiction|].
      assert (X : ~ In x t) by (apply IH; reflexivity). contradiction.
Qed.

Lemma find_index_some x ids j :
  find_index x ids = Some j ->
  j < List.length ids /\ nth j ids INone = x /\ forall k, k < j -> nth k ids INone <> x.
Proof.
  revert j. induction ids as [|y t IH]; simpl; intros j H; [discriminate|].
  destruct (ident_eqb y x) eqn:E.
  - inversion H; subst. apply ident_eqb_eq in E. repeat split; [lia|auto|intros k Hk; lia].
  - destruct (find_index x t) as [j'|]; [|discriminate]. inversion H; subst.
    destruct (IH j' eq_refl) as (L & N & F). apply ident_eqb_neq in E.
    repeat split; [lia|auto|]. intros [|k] Hk; simpl; auto. apply F. lia.
Qed.

Lemma find_indexZ_none x ids : find_indexZ x ids = None <-> ~ In x ids.
Proof.
  induction ids as [|y t IH]; simpl; [tauto|].
  destruct (Z.eqb y x) eqn:E.
  - apply Z.eqb_eq in E. split; [discriminate|]. intros H. exfalso. apply H. auto.
  - apply Z.eqb_neq in E. destruct (find_indexZ x t) eqn:F; simpl.
    + split; [discriminate|]. intros H. exfalso.
      assert (H0 : ~ In x t) by (intros X; apply H; auto). apply IH in H0. discriminate.
    + split; auto. intros _ [H|H]; [contradiction|].
      assert (X : ~ In x t) by (apply IH; reflexivity). contradiction.
Qed.

Lemma find_indexZ_some x ids j :
  find_indexZ x ids = Some j -> j < List.length ids /\ nth j ids 0%Z = x.
Proof.
  revert j. induction ids as [|y t IH]; simpl; intros j H; [discriminate|].
  destruct (Z.eqb y x) eqn:E.
  - inversion H; subst. apply Z.eqb_eq in E. split; [lia|auto].
  - destruct (find_indexZ x t) as [j'|]; [|discriminate]. inversion H; subst.
    destruct (IH j' eq_refl). split; [lia|auto].
Qed.

Lemma find_ins_none x ids : find_ins x ids = None <-> forall z, x = IInt z -> ~ In z ids.
Proof.
  destruct x as [z|s|]; simpl.
  - rewrite find_indexZ_none. split; [intros H z' E; inversion E; subst; auto|intros H; apply H; auto].
  - split; auto. intros _ z E. discriminate.
  - split; auto. intros _ z E. discriminate.
Qed.

(* whenever the values cannot be found (ValueError inside the helper), the order is exactly the
   anchored payload order of C07 - for rows, columns and strands alike *)
Theorem unresolved_is_payload_order d o m empties psub :
  is_value_method m = true ->
  partition_order d o m (Ok None) empties psub
  = display_order d (ByAnchor OPayload) empties psub.
Proof. destruct m; simpl; intros H; try discriminate; reflexivity. Qed.

(* when does the measure lookup end in a ValueError *)
Theorem matrix_measure_unresolved env kw :
  matrix_measure env kw = Ok None <->
  exists k, kw = Some k /\
    (smem k measure_enum = false \/
     exists r, find_kw matrix_table k = Some r /\ env (kw_prop r) = None).
Proof.
  unfold matrix_measure. destruct kw as [k|].
  2:{ split; [discriminate|]. intros (k & E & _). discriminate. }
  destruct (smem k measure_enum) eqn:M; simpl.
  - destruct (find_kw matrix_table k) as [r|] eqn:F.
    + split.
      * intros H. exists k. split; auto. right. exists r. split; auto. now inversion H.
      * intros (k' & E & H). inversion E; subst k'. destruct H as [H|(r' & F' & H)].
        -- rewrite M in H. discriminate.
        -- rewrite F in F'. inversion F'; subst. rewrite H. reflexivity.
    + split; [discriminate|]. intros (k' & E & H). inversion E; subst k'.
      destruct H as [H|(r' & F' & H)]; [rewrite M in H|rewrite F in F']; discriminate.
  - split; auto. intros _. exists k. auto.
Qed.

Section RowsFallback.
  Context (d : dimension) (o : order_req) (opp : opposing) (env : menv) (marg : venv)
          (labels sublabels : list string) (empties : list nat) (psub : bool).
  Let payload := display_order d (ByAnchor OPayload) empties psub.

  (* measure keyword unknown, or the response lacks what the measure needs *)
  Theorem rows_measure_unresolved :
    (method_of PRows (o_type o) = MOppElement \/ method_of PRows (o_type o) = MOppInsertion) ->
    matrix_measure env (o_measure o) = Ok None ->
    rows_order d o opp env marg labels sublabels empties psub = payload.
  Proof.
    unfold rows_order. intros [M|M] H; rewrite M; simpl; rewrite H; simpl; reflexivity.
  Qed.

  (* the opposing element id is not an element of the opposing dimension *)
  Theorem rows_unknown_element b x :
    method_of PRows (o_type o) = MOppElement ->
    matrix_measure env (o_measure o) = Ok (Some b) ->
    o_element_id o = Some x -> ~ In x (p_ids opp) ->
    rows_order d o opp env marg labels sublabels empties psub = payload.
  Proof.
    unfold rows_order. intros M H E N. rewrite M. simpl. rewrite H, E. simpl.
    apply find_index_none in N. rewrite N. reflexivity.
  Qed.

  (* the opposing insertion id is not an insertion of the opposing dimension *)
  Theorem rows_unknown_insertion b x :
    method_of PRows (o_type o) = MOppInsertion -> p_array opp = false ->
    matrix_measure env (o_measure o) = Ok (Some b) ->
    o_insertion_id o = Some x -> (forall z, x = IInt z -> ~ In z (p_ins_ids opp)) ->
    rows_order d o opp env marg labels sublabels empties psub = payload.
  Proof.
    unfold rows_order. intros M A H E N. rewrite M. simpl. rewrite H, A, E. simpl.
    apply find_ins_none in N. rewrite N. reflexivity.
  Qed.

  (* ... or, for an opposing array dimension, not one of its (derived) elements *)
  Theorem rows_unknown_derived b x :
    method_of PRows (o_type o) = MOppInsertion -> p_array opp = true ->
    matrix_measure env (o_measure o) = Ok (Some b) ->
    o_insertion_id o = Some x -> ~ In x (p_ids opp) ->
    rows_order d o opp env marg labels sublabels empties psub = payload.
  Proof.
    unfold rows_order. intros M A H E N. rewrite M. simpl. rewrite H, A, E. simpl.
    apply find_index_none in N. rewrite N. reflexivity.
  Qed.

  (* marginal keyword unknown, or the marginal is not defined for this slice *)
  Theorem rows_marginal_unresolved k :
    method_of PRows (o_type o) = MMarginal -> o_marginal o = Some k ->
    (smem k marginal_enum = false \/
     exists r, find_kw marginal_table k = Some r /\ marg (kw_prop r) = None) ->
    rows_order d o opp env marg labels sublabels empties psub = payload.
  Proof.
    unfold rows_order. intros M K H. rewrite M. simpl. rewrite K.
    destruct H as [H|(r & F & H)].
    - rewrite H. reflexivity.
    - destruct (smem k marginal_enum); simpl; [|reflexivity]. rewrite F, H. reflexivity.
  Qed.
End RowsFallback.

Section ColumnsFallback.
  Context (d : dimension) (o : order_req) (opp : opposing) (env : menv)
          (labels sublabels : list string) (empties : list nat) (psub : bool).
  Let payload := display_order d (ByAnchor OPayload) empties psub.

  Theorem columns_measure_unresolved :
    (method_of PColumns (o_type o) = MOppElement \/ method_of PColumns (o_type o) = MOppInsertion) ->
    matrix_measure env (o_measure o) = Ok None ->
    columns_order d o opp env labels sublabels empties psub = payload.
  Proof.
    unfold columns_order. intros [M|M] H; rewrite M; simpl; rewrite H; simpl; reflexivity.
  Qed.

  Theorem columns_unknown_element b x :
    method_of PColumns (o_type o) = MOppElement ->
    matrix_measure env (o_measure o) = Ok (Some b) ->
    o_element_id o = Some x -> ~ In x (p_ids opp) ->
    columns_order d o opp env labels sublabels empties psub = payload.
  Proof.
    unfold columns_order. intros M H E N. rewrite M. simpl. rewrite H, E. simpl.
    apply find_index_none in N. rewrite N. reflexivity.
  Qed.

  Theorem columns_unknown_insertion b x :
    method_of PColumns (o_type o) = MOppInsertion ->
    matrix_measure env (o_measure o) = Ok (Some b) ->
    o_insertion_id o = Some x -> (forall z, x = IInt z -> ~ In z (p_ins_ids opp)) ->
    columns_order d o opp env labels sublabels empties psub = payload.
  Proof.
    unfold columns_order. intros M H E N. rewrite M. simpl. rewrite H, E. simpl.
    apply find_ins_none in N. rewrite N. reflexivity.
  Qed.
End ColumnsFallback.

(* a strand: keyword not in the table, or the response lacks what the measure needs *)
Theorem strand_measure_unresolved d o (env : venv) labels sublabels empties k :
  method_of PStrand (o_type o) = MUnivariate -> o_measure o = Some k ->
  (find_kw strand_table k = None \/
   exists r, find_kw strand_table k = Some r /\ env (kw_prop r) = None) ->
  strand_order d o env labels sublabels empties
  = display_order d (ByAnchor OPayload) empties false.
Proof.
  unfold strand_order. intros M K H. rewrite M. simpl. rewrite K.
  destruct H as [H|(r & F & H)]; [rewrite H|rewrite F, H]; reflexivity.
Qed.

(* --- the key is the named vector of the named measure -------------------------------------------------- *)
Theorem matrix_measure_resolved env kw b :
  matrix_measure env kw = Ok (Some b) ->
  exists k r, kw = Some k /\ find_kw matrix_table k = Some r /\ env (kw_prop r) = Some b.
Proof.
  unfold matrix_measure. destruct kw as [k|]; [|discriminate].
  destruct (smem k measure_enum); simpl; [|discriminate].
  destruct (find_kw matrix_table k) as [r|] eqn:F; [|discriminate].
  intros H. exists k, r. repeat split; auto. congruence.
Qed.

Lemma find_kw_name tbl k r : find_kw tbl k = Some r -> kw_name r = k.
Proof. unfold find_kw. intros H. apply find_some in H. apply String.eqb_eq, H. Qed.

Lemma with_index_some {A} ix (f : nat -> A) v :
  with_index ix f = Ok (Some v) -> exists j, ix = Some (Some j) /\ v = f j.
Proof. destruct ix as [[j|]|]; simpl; intros H; inversion H. eauto. Qed.

Theorem rows_key_by_element o opp env marg labels sublabels vals svals :
  rows_values o opp env marg labels sublabels MOppElement = Ok (Some (vals, svals)) ->
  exists k r b x j,
    o_measure o = Some k /\ find_kw matrix_table k = Some r /\ kw_name r = k /\
    env (kw_prop r) = Some b /\
    o_element_id o = Some x /\ j < List.length (p_ids opp) /\ nth j (p_ids opp) INone = x /\
    (forall i, i < j -> nth i (p_ids opp) INone <> x) /\
    vals = column_of (mb_base b) j /\ svals = column_of (mb_srows b) j.
Proof.
  simpl. destruct (matrix_measure env (o_measure o)) as [[b|]|c] eqn:M; simpl; try discriminate.
  intros H. apply with_index_some in H. destruct H as (j & E & V).
  destruct (o_element_id o) as [x|] eqn:X; simpl in E; [|discriminate]. inversion E as [F].
  apply matrix_measure_resolved in M. destruct M as (k & r & K & T & B).
  destruct (find_index_some _ _ _ F) as (L & N & First).
  inversion V; subst. exists k, r, b, (nth j (p_ids opp) INone), j.
  repeat split; auto. apply (find_kw_name _ _ _ T).
Qed.

Theorem rows_key_by_insertion o opp env marg labels sublabels vals svals :
  p_array opp = false ->
  rows_values o opp env marg labels sublabels MOppInsertion = Ok (Some (vals, svals)) ->
  exists k r b z j,
    o_measure o = Some k /\ find_kw matrix_table k = Some r /\ kw_name r = k /\
    env (kw_prop r) = Some b /\
    o_insertion_id o = Some (IInt z) /\ j < List.length (p_ins_ids opp) /\
    nth j (p_ins_ids opp) 0%Z = z /\
    vals = column_of (mb_scols b) j /\ svals = column_of (mb_inter b) j.
Proof.
  intros A. simpl. destruct (matrix_measure env (o_measure o)) as [[b|]|c] eqn:M; simpl; try discriminate.
  rewrite A. intros H. apply with_index_some in H. destruct H as (j & E & V).
  destruct (o_insertion_id o) as [x|] eqn:X; simpl in E; [|discriminate]. inversion E as [F].
  destruct x as [z|s|]; simpl in F; try discriminate.
  apply matrix_measure_resolved in M. destruct M as (k & r & K & T & B).
  destruct (find_indexZ_some _ _ _ F) as (L & N).
  inversion V; subst. exists k, r, b, (nth j (p_ins_ids opp) 0%Z), j.
  repeat split; auto. apply (find_kw_name _ _ _ T).
Qed.

Theorem columns_key_by_element o opp env labels sublabels vals svals :
  columns_values o opp env labels sublabels MOppElement = Ok (Some (vals, svals)) ->
  exists k r b x i,
    o_measure o = Some k /\ find_kw matrix_table k = Some r /\ kw_name r = k /\
    env (kw_prop r) = Some b /\
    o_element_id o = Some x /\ i < List.length (p_ids opp) /\ nth i (p_ids opp) INone = x /\
    vals = row_of (mb_base b) i /\ svals = row_of (mb_scols b) i.
Proof.
  simpl. destruct (matrix_measure env (o_measure o)) as [[b|]|c] eqn:M; simpl; try discriminate.
  intros H. apply with_index_some in H. destruct H as (j & E & V).
  destruct (o_element_id o) as [x|] eqn:X; simpl in E; [|discriminate]. inversion E as [F].
  apply matrix_measure_resolved in M. destruct M as (k & r & K & T & B).
  destruct (find_index_some _ _ _ F) as (L & N & _).
  inversion V; subst. exists k, r, b, (nth j (p_ids opp) INone), j.
  repeat split; auto. apply (find_kw_name _ _ _ T).
Qed.

Theorem columns_key_by_insertion o opp env labels sublabels vals svals :
  columns_values o opp env labels sublabels MOppInsertion = Ok (Some (vals, svals)) ->
  exists k r b z j,
    o_measure o = Some k /\ find_kw matrix_table k = Some r /\ kw_name r = k /\
    env (kw_prop r) = Some b /\
    o_insertion_id o = Some (IInt z) /\ j < List.length (p_ins_ids opp) /\
    nth j (p_ins_ids opp) 0%Z = z /\
    vals = row_of (mb_srows b) j /\ svals = row_of (mb_inter b) j.
Proof.
  simpl. destruct (matrix_measure env (o_measure o)) as [[b|]|c] eqn:M; simpl; try discriminate.
  intros H. apply with_index_some in H. destruct H as (j & E & V).
  destruct (o_insertion_id o) as [x|] eqn:X; simpl in E; [|discriminate]. inversion E as [F].
  destruct x as [z|s|]; simpl in F; try discriminate.
  apply matrix_measure_resolved in M. destruct M as (k & r & K & T & B).
  destruct (find_indexZ_some _ _ _ F) as (L & N).
  inversion V; subst. exists k, r, b, (nth j (p_ins_ids opp) 0%Z), j.
  repeat split; auto. apply (find_kw_name _ _ _ T).
Qed.

Theorem rows_key_by_marginal o opp env marg labels sublabels vals svals :
  rows_values o opp env marg labels sublabels MMarginal = Ok (Some (vals, svals)) ->
  exists k r base subs,
    o_marginal o = Some k /\ find_kw marginal_table k = Some r /\ kw_name r = k /\
    marg (kw_prop r) = Some (base, subs) /\ vals = map VNum base /\ svals = map VNum subs.
Proof.
  simpl. destruct (o_marginal o) as [k|]; [|discriminate].
  destruct (smem k marginal_enum); simpl; [|discriminate].
  destruct (find_kw marginal_table k) as [r|] eqn:T; [|discriminate].
  destruct (marg (kw_prop r)) as [[base subs]|] eqn:B; [|discriminate].
  intros H. inversion H; subst. exists k, r, base, subs. repeat split; auto.
  apply (find_kw_name _ _ _ T).
Qed.

Theorem strand_key_by_measure o (env : venv) labels sublabels vals svals :
  strand_values o env labels sublabels MUnivariate = Ok (Some (vals, svals)) ->
  exists k r base subs,
    o_measure o = Some k /\ find_kw strand_table k = Some r /\ kw_name r = k /\
    env (kw_prop r) = Some (base, subs) /\ vals = map VNum base /\ svals = map VNum subs.
Proof.
  simpl. destruct (o_measure o) as [k|]; [|discriminate].
  destruct (find_kw strand_table k) as [r|] eqn:T; [|discriminate].
  destruct (env (kw_prop r)) as [[base subs]|] eqn:B; [|discriminate].
  intros H. inversion H; subst. exists k, r, base, subs. repeat split; auto.
  apply (find_kw_name _ _ _ T).
Qed.

Local Transparent matrix_table strand_table marginal_table measure_enum marginal_enum.
(* which keywords sort on something else than what the reader sees *)
Theorem surrogate_keywords :
  map kw_name (filter (fun r => match kw_reading r with SameValue => false | _ => true end) matrix_table)
  = ["col_percent_moe"; "col_std_dev"; "population"; "population_moe"; "row_percent_moe";
     "row_std_dev"; "table_percent_moe"; "table_std_dev"]%string
  /\ map kw_name (filter (fun r => match kw_reading r with SameValue => false | _ => true end) strand_table)
     = ["percent_moe"; "population"; "population_moe"]%string
  /\ filter (fun r => match kw_reading r with SameValue => false | _ => true end) marginal_table = [].
Proof. repeat split; reflexivity. Qed.

(* every member of MEASURE is either sortable or rejected with NotImplementedError; the tables have
   no duplicate keyword *)
Theorem tables_wellformed :
  (forall r, In r matrix_table -> smem (kw_name r) measure_enum = true)
  /\ NoDup (map kw_name matrix_table) /\ NoDup (map kw_name strand_table)
  /\ map kw_name marginal_table = marginal_enum.
Proof.
  split; [|split; [|split]].
  - intros r H. repeat (destruct H as [<-|H]; [reflexivity|]). destruct H.
  - repeat (constructor; [simpl; intuition discriminate|]). constructor.
  - repeat (constructor; [simpl; intuition discriminate|]). constructor.
  - reflexivity.
Qed.

(* --- the population keyword and difference subtotals ---------------------------------------------------- *)
(* population_counts is NaN for a difference subtotal; since /repo e7676546 so is the population
   PROPORTION the helpers sort on ([population_blocks], [population_vblocks]): the sort key of the
   `population` keyword has the NaN set of the public value, for every element and every subtotal. *)
Lemma nan_where_length flags v : List.length (nan_where flags v) = List.length v.
Proof. revert flags. induction v as [|x t IH]; intros flags; simpl; auto. Qed.

Lemma nth_tl_flags (flags : list bool) k : nth k (tl flags) false = nth (S k) flags false.
Proof. destruct flags; simpl; auto. destruct k; reflexivity. Qed.

Lemma hd_flags (flags : list bool) : hd false flags = nth 0 flags false.
Proof. destruct flags; reflexivity. Qed.

Theorem nan_where_nth flags v k :
  nth k (nan_where flags v) NaN = if nth k flags false then NaN else nth k v NaN.
Proof.
  revert flags k. induction v as [|x t IH]; intros flags k; simpl.
  - destruct k; destruct (nth _ flags false); reflexivity.
  - destruct k as [|k].
    + rewrite hd_flags. reflexivity.
    + rewrite IH, nth_tl_flags. reflexivity.
Qed.

Lemma nth_map_nan (r : list xq) j : nth j (map (fun _ => NaN) r) NaN = NaN.
Proof. revert j. induction r as [|x t IH]; intros [|j]; simpl; auto. Qed.

Lemma nan_rows_nth flags m k :
  nth k (nan_rows flags m) []
  = if nth k flags false then map (fun _ => NaN) (nth k m []) else nth k m [].
Proof.
  revert flags k. induction m as [|r t IH]; intros flags k; simpl.
  - destruct k; destruct (nth _ flags false); reflexivity.
  - destruct k as [|k].
    + rewrite hd_flags. reflexivity.
    + rewrite IH, nth_tl_flags. reflexivity.
Qed.

Lemma nan_rows_length flags m : List.length (nan_rows flags m) = List.length m.
Proof. revert flags. induction m as [|r t IH]; intros flags; simpl; auto. Qed.

Lemma mnth_nan_cols flags m i j :
  mnth (nan_cols flags m) i j = if nth j flags false then NaN else mnth m i j.
Proof.
  unfold mnth, vnth, nan_cols. change (@nil xq) with (nan_where flags []) at 1.
  rewrite map_nth. apply nan_where_nth.
Qed.

Lemma mnth_nan_rows flags m i j :
  mnth (nan_rows flags m) i j = if nth i flags false then NaN else mnth m i j.
Proof.
  unfold mnth, vnth. rewrite nan_rows_nth. destruct (nth i flags false); auto. apply nth_map_nan.
Qed.

(* the blocks of the population proportions, cell by cell *)
Theorem population_blocks_spec drows dcols b :
  let p := population_blocks drows dcols b in
  mb_base p = mb_base b /\
  (forall i j, mnth (mb_scols p) i j = if nth j dcols false then NaN else mnth (mb_scols b) i j) /\
  (forall k j, mnth (mb_srows p) k j = if nth k drows false then NaN else mnth (mb_srows b) k j) /\
  (forall k j, mnth (mb_inter p) k j
               = if nth k drows false || nth j dcols false then NaN else mnth (mb_inter b) k j).
Proof.
  simpl. split; [reflexivity|split; [|split]]; intros.
  - apply mnth_nan_cols.
  - apply mnth_nan_rows.
  - rewrite mnth_nan_cols, mnth_nan_rows.
    destruct (nth k drows false), (nth j dcols false); reflexivity.
Qed.

Theorem population_vblocks_spec diffs base subs :
  fst (population_vblocks diffs (base, subs)) = base /\
  List.length (snd (population_vblocks diffs (base, subs))) = List.length subs /\
  forall k, vnth (snd (population_vblocks diffs (base, subs))) k
            = if nth k diffs false then NaN else vnth subs k.
Proof.
  simpl. split; [reflexivity|split; [apply nan_where_length|]]. intros k. apply nan_where_nth.
Qed.

(* the key vectors of the helpers, cell by cell *)
Theorem column_of_nth m i j : nth i (column_of m j) (VNum NaN) = VNum (mnth m i j).
Proof.
  unfold column_of, mnth, vnth. revert i. induction m as [|r t IH]; intros [|i]; simpl; auto.
  - destruct j; reflexivity.
  - destruct j; reflexivity.
Qed.

Theorem row_of_nth m i j : nth j (row_of m i) (VNum NaN) = VNum (mnth m i j).
Proof. unfold row_of, mnth, vnth. apply (map_nth VNum). Qed.

Theorem key_vectors_pointwise m i j :
  nth i (column_of m j) (VNum NaN) = VNum (mnth m i j)
  /\ nth j (row_of m i) (VNum NaN) = VNum (mnth m i j).
Proof. split; [apply column_of_nth|apply row_of_nth]. Qed.

(* only the `population` keyword reads the population proportions *)
Theorem population_keyword :
  filter (fun r => String.eqb (kw_prop r) population_prop) matrix_table
  = [mkKw "population" population_prop "population_counts" TimesPopulation]
  /\ filter (fun r => String.eqb (kw_prop r) population_prop) strand_table
     = [mkKw "population" population_prop "population_counts" TimesPopulation]
  /\ forall drows dcols diffs (raw : menv) (vraw : venv) p,
       p <> population_prop ->
       slice_measures drows dcols raw p = raw p /\ strand_measures diffs vraw p = vraw p.
Proof.
  split; [reflexivity|split; [reflexivity|]].
  intros drows dcols diffs raw vraw p N. apply String.eqb_neq in N.
  unfold slice_measures, strand_measures. rewrite N. auto.
Qed.

Lemma population_row_matrix :
  find_kw matrix_table "population"
  = Some (mkKw "population" population_prop "population_counts" TimesPopulation).
Proof. reflexivity. Qed.
Lemma population_row_strand :
  find_kw strand_table "population"
  = Some (mkKw "population" population_prop "population_counts" TimesPopulation).
Proof. reflexivity. Qed.

Lemma slice_measures_population drows dcols raw b' :
  slice_measures drows dcols raw population_prop = Some b' ->
  exists b, raw population_prop = Some b /\ b' = population_blocks drows dcols b.
Proof.
  unfold slice_measures. rewrite String.eqb_refl.
  destruct (raw population_prop) as [b|]; simpl; intros H; inversion H. eauto.
Qed.

(* what a sort by `population` sorts on: the proportion, and NaN at every difference subtotal - of the
   sorted dimension (the subtotal group) and of the opposing one (a key taken at a difference) *)
Theorem population_rows_key_by_element o opp drows dcols raw marg labels sublabels vals svals :
  o_measure o = Some "population"%string ->
  rows_values o opp (slice_measures drows dcols raw) marg labels sublabels MOppElement = Ok (Some (vals, svals)) ->
  exists b x j,
    raw population_prop = Some b /\
    o_element_id o = Some x /\ j < List.length (p_ids opp) /\ nth j (p_ids opp) INone = x /\
    (forall i, nth i vals (VNum NaN) = VNum (mnth (mb_base b) i j)) /\
    (forall k, nth k svals (VNum NaN)
               = VNum (if nth k drows false then NaN else mnth (mb_srows b) k j)).
Proof.
  intros K H. apply rows_key_by_element in H.
  destruct H as (k & r & b' & x & j & Km & T & _ & B & X & L & N & _ & V & S).
  rewrite K in Km. inversion Km; subst k. rewrite population_row_matrix in T. inversion T; subst r.
  apply slice_measures_population in B. destruct B as (b & R & ->).
  exists b, x, j. repeat split; auto.
  - intros i. rewrite V. apply column_of_nth.
  - intros i. rewrite S, column_of_nth. f_equal. apply mnth_nan_rows.
Qed.

Theorem population_rows_key_by_insertion o opp drows dcols raw marg labels sublabels vals svals :
  o_measure o = Some "population"%string ->
  p_array opp = false ->
  rows_values o opp (slice_measures drows dcols raw) marg labels sublabels MOppInsertion = Ok (Some (vals, svals)) ->
  exists b z j,
    raw population_prop = Some b /\
    o_insertion_id o = Some (IInt z) /\ j < List.length (p_ins_ids opp) /\
    nth j (p_ins_ids opp) 0%Z = z /\
    (forall i, nth i vals (VNum NaN)
               = VNum (if nth j dcols false then NaN else mnth (mb_scols b) i j)) /\
    (forall k, nth k svals (VNum NaN)
               = VNum (if nth k drows false || nth j dcols false then NaN
                       else mnth (mb_inter b) k j)).
Proof.
  intros K A H. apply rows_key_by_insertion in H; auto.
  destruct H as (k & r & b' & z & j & Km & T & _ & B & X & L & N & V & S).
  rewrite K in Km. inversion Km; subst k. rewrite population_row_matrix in T. inversion T; subst r.
  apply slice_measures_population in B. destruct B as (b & R & ->).
  destruct (population_blocks_spec drows dcols b) as (_ & Sc & _ & In).
  exists b, z, j. repeat split; auto.
  - intros i. rewrite V, column_of_nth. f_equal. apply Sc.
  - intros i. rewrite S, column_of_nth. f_equal. apply In.
Qed.

Theorem population_columns_key_by_element o opp drows dcols raw labels sublabels vals svals :
  o_measure o = Some "population"%string ->
  columns_values o opp (slice_measures drows dcols raw) labels sublabels MOppElement = Ok (Some (vals, svals)) ->
  exists b x i,
    raw population_prop = Some b /\
    o_element_id o = Some x /\ i < List.length (p_ids opp) /\ nth i (p_ids opp) INone = x /\
    (forall j, nth j vals (VNum NaN) = VNum (mnth (mb_base b) i j)) /\
    (forall j, nth j svals (VNum NaN)
               = VNum (if nth j dcols false then NaN else mnth (mb_scols b) i j)).
Proof.
  intros K H. apply columns_key_by_element in H.
  destruct H as (k & r & b' & x & i & Km & T & _ & B & X & L & N & V & S).
  rewrite K in Km. inversion Km; subst k. rewrite population_row_matrix in T. inversion T; subst r.
  apply slice_measures_population in B. destruct B as (b & R & ->).
  exists b, x, i. repeat split; auto.
  - intros j. rewrite V. apply row_of_nth.
  - intros j. rewrite S, row_of_nth. f_equal. apply mnth_nan_cols.
Qed.

Theorem population_columns_key_by_insertion o opp drows dcols raw labels sublabels vals svals :
  o_measure o = Some "population"%string ->
  columns_values o opp (slice_measures drows dcols raw) labels sublabels MOppInsertion = Ok (Some (vals, svals)) ->
  exists b z k,
    raw population_prop = Some b /\
    o_insertion_id o = Some (IInt z) /\ k < List.length (p_ins_ids opp) /\
    nth k (p_ins_ids opp) 0%Z = z /\
    (forall j, nth j vals (VNum NaN)
               = VNum (if nth k drows false then NaN else mnth (mb_srows b) k j)) /\
    (forall j, nth j svals (VNum NaN)
               = VNum (if nth k drows false || nth j dcols false then NaN
                       else mnth (mb_inter b) k j)).
Proof.
  intros K H. apply columns_key_by_insertion in H.
  destruct H as (kw & r & b' & z & k & Km & T & _ & B & X & L & N & V & S).
  rewrite K in Km. inversion Km; subst kw. rewrite population_row_matrix in T. inversion T; subst r.
  apply slice_measures_population in B. destruct B as (b & R & ->).
  destruct (population_blocks_spec drows dcols b) as (_ & _ & Sr & In).
  exists b, z, k. repeat split; auto.
  - intros j. rewrite V, row_of_nth. f_equal. apply Sr.
  - intros j. rewrite S, row_of_nth. f_equal. apply In.
Qed.

Theorem population_strand_key o diffs (raw : venv) labels sublabels vals svals :
  o_measure o = Some "population"%string ->
  strand_values o (strand_measures diffs raw) labels sublabels MUnivariate = Ok (Some (vals, svals)) ->
  exists base subs,
    raw population_prop = Some (base, subs) /\ vals = map VNum base /\
    List.length svals = List.length subs /\
    forall k, nth k svals (VNum NaN) = VNum (if nth k diffs false then NaN else vnth subs k).
Proof.
  intros K H. apply strand_key_by_measure in H.
  destruct H as (k & r & base & subs' & Km & T & _ & B & V & S).
  rewrite K in Km. inversion Km; subst k. rewrite population_row_strand in T. inversion T; subst r.
  unfold strand_measures in B. rewrite String.eqb_refl in B. simpl kw_prop in B.
  destruct (raw population_prop) as [[b0 s0]|] eqn:R; simpl in B; [|discriminate].
  injection B as E1 E2. subst base subs' vals svals.
  exists b0, s0. repeat split; auto.
  - rewrite map_length. apply nan_where_length.
  - intros k. rewrite (map_nth VNum). f_equal. apply nan_where_nth.
Qed.

(* THE POSITIVE STATEMENT that replaces the refutation: with [key] = the proportion, NaN at differences
   (the repaired code) and [pub] = proportion * population * fraction, NaN at differences (the public
   population_counts), the public value READS the key as the keyword table says - differences
   included - so it has the NaN set and the weak order of the key *)
Theorem population_difference_reads (c : Q) (diff : Z -> bool) (prop key pub : Z -> xq) :
  (forall z, key z = if diff z then NaN else prop z) ->
  (forall z, pub z =x= if diff z then NaN else xmul (prop z) (Fin c)) ->
  forall z, reads TimesPopulation c (key z) (pub z).
Proof.
  intros Hk Hp z. simpl. eapply xeq_trans; [apply Hp|]. rewrite Hk.
  destruct (diff z); reflexivity.
Qed.

Theorem population_difference_same_order (c : Q) (diff : Z -> bool) (prop key pub : Z -> xq) :
  (0 < c)%Q ->
  (forall z, key z = if diff z then NaN else prop z) ->
  (forall z, pub z =x= if diff z then NaN else xmul (prop z) (Fin c)) ->
  same_order key pub.
Proof.
  intros Hc Hk Hp. apply (reads_same_order TimesPopulation c); auto.
  apply (population_difference_reads c diff prop); auto.
Qed.

(* the subtotal group of a sort by population, differences included: weakly sorted in the public
   population counts, the NaN-valued (difference) subtotals last in payload order *)
Theorem population_display_subtotals d s vals (c : Q) (diffs : list bool) (props spubs : list xq)
        empties :
  (0 < c)%Q -> List.length props = List.length spubs ->
  (forall k, k < List.length props ->
     nth k spubs NaN =x= if nth k diffs false then NaN else xmul (nth k props NaN) (Fin c)) ->
  StronglySorted (weakly_precedes (s_desc s) (skeyf spubs))
    (filter (fun z => (z <? 0)%Z)
            (sbv_display d s vals (map VNum (nan_where diffs props)) empties)).
Proof.
  intros Hc L P. apply surrogate_display_subtotals; [rewrite nan_where_length; exact L|].
  apply (reads_same_order TimesPopulation c); auto.
  intros z. unfold skeyf. rewrite nan_where_length, <- L.
  set (k := Z.to_nat (z + Z.of_nat (List.length props))). simpl. rewrite nan_where_nth.
  destruct (lt_dec k (List.length props)) as [I|O].
  - eapply xeq_trans; [apply (P k I)|]. destruct (nth k diffs false); reflexivity.
  - rewrite (nth_overflow spubs) by lia. rewrite (nth_overflow props) by lia.
    destruct (nth k diffs false); reflexivity.
Qed.

(* a key taken at an opposing DIFFERENCE insertion is NaN for every vector: the sorted dimension
   keeps its payload order (body and subtotal group), as the all-NaN public values ask *)
Theorem all_nan_payload_order d s (vals svals : list sval) empties :
  (forall i, sval_nan (nth i vals (VNum NaN)) = true) ->
  (forall k, sval_nan (nth k svals (VNum NaN)) = true) ->
  StronglySorted Z.lt (filter (free_base (all_fixed d s)) (sbv_display d s vals svals empties))
  /\ StronglySorted Z.lt (filter (fun z => (z <? 0)%Z) (sbv_display d s vals svals empties)).
Proof.
  intros Hv Hs. split.
  - eapply SS_impl_in; [|apply display_body_monotone].
    intros a b _ _. unfold may_precede, base_val. rewrite !Hv. auto.
  - eapply SS_impl_in; [|apply display_subtotals_monotone].
    intros a b _ _. unfold may_precede, sub_val. rewrite !Hs. auto.
Qed.

(* --- the former witness of finding C08-population-difference-subtotals ---------------------------------- *)
(* 3x2 counts [[3,1],[1,1],[4,0]] (table proportions /10), row subtotals "1 minus 2" (a difference) and
   "1 or 2", column subtotal "1 minus 2" (a difference), population 1000.
   (1) rows ascending by the population of column id 1: public subtotal values NaN, 400 - the valued
       subtotal -1 now stands before the NaN-valued difference -2 (the former code, sorting on the
       unmasked proportions 2/10, 4/10, gave -2 before -1);
   (2) rows descending by the population of the column DIFFERENCE (insertion id 1): every public value
       is NaN - payload order now (formerly the order of the hidden proportions). *)
Local Open Scope string_scope.
Definition fw_dim : dimension :=
  mkDim [mkElem (IInt 1) false DNone; mkElem (IInt 2) false DNone; mkElem (IInt 3) false DNone]
        false
        [mkIns (Some 1%Z) (IStr "bottom") true false [IInt 1; IInt 2];
         mkIns (Some 2%Z) (IStr "bottom") true false [IInt 1; IInt 2]]
        None [] false.
Definition fw_props : mblocks :=
  mkBlocks [[Fin (3 # 10); Fin (1 # 10)]; [Fin (1 # 10); Fin (1 # 10)]; [Fin (4 # 10); Fin 0]]%Q
           [[Fin (2 # 10)]; [Fin 0]; [Fin (4 # 10)]]%Q
           [[Fin (2 # 10); Fin 0]; [Fin (4 # 10); Fin (2 # 10)]]%Q
           [[Fin (2 # 10)]; [Fin (2 # 10)]]%Q.
Definition fw_raw : menv := single_menv population_prop (Some fw_props).
Definition fw_opp : opposing := mkOpp [IInt 1; IInt 2] [1%Z] false.
Definition fw_by_element : order_req :=
  mkOrd (Some "opposing_element") (Some "population") None (Some (IInt 1)) None
        (mkSort false [] []) [].
Definition fw_by_insertion : order_req :=
  mkOrd (Some "opposing_insertion") (Some "population") None None (Some (IInt 1))
        (mkSort true [] []) [].
Definition fw_order (o : order_req) (env : menv) : res (list Z) :=
  rows_order fw_dim o fw_opp env (fun _ => None) [] [] [] false.

Theorem population_difference_former_witness :
  let repaired := slice_measures [true; false] [true] fw_raw in
  fw_order fw_by_element repaired = Ok [1; 0; 2; -1; -2]%Z /\
  fw_order fw_by_element fw_raw = Ok [1; 0; 2; -2; -1]%Z /\
  StronglySorted (weakly_precedes false (skeyf [NaN; Fin 400])) [-1; -2]%Z /\
  ~ StronglySorted (weakly_precedes false (skeyf [NaN; Fin 400])) [-2; -1]%Z /\
  fw_order fw_by_insertion repaired = Ok [-2; -1; 0; 1; 2]%Z /\
  fw_order fw_by_insertion fw_raw = Ok [-1; -2; 2; 0; 1]%Z.
Proof.
  cbv zeta. split; [vm_compute; reflexivity|]. split; [vm_compute; reflexivity|].
  split; [|split; [|split; vm_compute; reflexivity]].
  - repeat constructor.
  - intros H. inversion H as [|a l S F]; subst. inversion F as [|b m W R]; subst.
    vm_compute in W. exact W.
Qed.
