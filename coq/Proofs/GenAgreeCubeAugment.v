(* GenAgreeCubeAugment: what the closed form of Cube.augment_response (Model/PyCube.v aug_values,
   aug_positions, aug_fill - tied to the source text by gen_cube_Cube_augment_response) MEANS on the
   elements / counts of Model/Partition.v: the values are the model's [keys_of], the positions its
   [augment_positions], the filled lists its [augment_counts] ([place] on a list of zeros; None = the code
   raises) - for all element lists and counts.  And what the new responses keep of the old ones. *)
From Coq Require Import List ZArith QArith String Bool Lia Arith.
From CC Require Import Base.XQ Base.ListX Base.PyList Base.PyJson Spec.Survey Model.CubeCounts Model.DimType
  Model.Partition Model.PyCube Proofs.GenAgreeCubeLib.
Import ListNotations.
Local Close Scope Q_scope.
Local Open Scope Z_scope.
Local Open Scope string_scope.

(* an element of an enum dimension as the response carries it: its value is an int (the model's key) or,
   for the missing element, the object {"?": -1} *)
Definition key_json (k : nat) : json := JInt (Z.of_nat k).
Definition elem_value_json (k : option nat) : json :=
  match k with Some n => key_json n | None => JDict [("?", JInt (-1))] end.
Definition elem_json (e : elem) : json :=
  JDict [("id", JInt (e_id e)); ("missing", JBool (e_missing e)); ("value", elem_value_json (e_key e))].

(* a filled list read as numbers *)
Definition float_of (l : list json) : list xq :=
  map (fun j => match json_num j with Some x => x | None => NaN end) l.
Definition to_option {A} (r : pres A) : option A := match r with POk a => Some a | PErr _ => None end.

Lemma json_eqb_key a b : json_eqb (key_json a) (key_json b) = Nat.eqb a b.
Proof.
  unfold key_json. cbn. unfold Qeq_bool. cbn. rewrite !Z.mul_1_r.
  destruct (Nat.eqb_spec a b) as [->|N].
  - apply Zeq_is_eq_bool. reflexivity.
  - destruct (Zeq_bool (Z.of_nat a) (Z.of_nat b)) eqn:E; [|reflexivity].
    apply Zeq_bool_eq in E. lia.
Qed.

Lemma aug_values_model own :
  aug_values (map elem_json own) = POk (map key_json (keys_of own)).
Proof.
  unfold aug_values.
  rewrite (pfilterM_ok _ (fun j => match j with
                                   | JDict d => match py_dict_get String.eqb d "value" with
                                                | Some v => json_is_int_or_str v | None => false end
                                   | _ => false end)).
  2:{ intros x Hx. apply in_map_iff in Hx. destruct Hx as [e [<- _]]. reflexivity. }
  cbn [pbind].
  induction own as [|[id ms [k|]] t IH]; [reflexivity| |].
  - cbn [map]. unfold elem_json at 1. cbn. cbn in IH. rewrite IH. reflexivity.
  - cbn [map]. unfold elem_json at 1. cbn. cbn in IH. exact IH.
Qed.

Lemma json_in_keys (k : option nat) ks :
  json_in (elem_value_json k) (map key_json ks)
  = match k with Some n => existsb (Nat.eqb n) ks | None => false end.
Proof.
  unfold json_in. induction ks as [|x t IH]; cbn [map existsb].
  - destruct k; reflexivity.
  - rewrite IH. destruct k as [n|]; cbn [elem_value_json].
    + rewrite json_eqb_key. reflexivity.
    + reflexivity.
Qed.

Lemma aug_positions_model summary ks :
  aug_positions (map elem_json summary) (map key_json ks)
  = POk (map (fun e => JInt (e_id e)) (filter (key_in ks) summary)).
Proof.
  unfold aug_positions.
  rewrite (pfilterM_ok _ (fun j => match j with
                                   | JDict d => match py_dict_get String.eqb d "value" with
                                                | Some v => json_in v (map key_json ks) | None => false end
                                   | _ => false end)).
  2:{ intros x Hx. apply in_map_iff in Hx. destruct Hx as [e [<- _]]. reflexivity. }
  cbn [pbind].
  induction summary as [|[id ms key] t IH]; [reflexivity|].
  cbn [map filter]. unfold elem_json at 1. cbn [py_dict_get String.eqb Ascii.eqb Bool.eqb e_key e_id e_missing].
  rewrite json_in_keys.
  change (key_in ks {| e_id := id; e_missing := ms; e_key := key |})
    with (match key with Some k => existsb (Nat.eqb k) ks | None => false end).
  destruct (match key with Some n => existsb (Nat.eqb n) ks | None => false end).
  - unfold elem_json at 1.
    cbn [pmapM map pbind py_getitem_str py_dict_get String.eqb Ascii.eqb Bool.eqb pres_of_option e_id].
    rewrite IH. reflexivity.
  - exact IH.
Qed.

(* for pos, value in zip(positions, counts): data[pos] = value  =  the model's [place] *)
Lemma aug_fold_place ps (cs : list xq) (data : list json) :
  option_map float_of
    (to_option (pfoldM (fun data pv => py_list_setitem data (fst pv) (snd pv))
                       (py_zip (map JInt ps) (map JFloat cs)) data))
  = place ps cs (float_of data).
Proof.
  revert cs data. induction ps as [|p ps IH]; intros cs data; [reflexivity|].
  destruct cs as [|x cs]; [reflexivity|].
  cbn [map py_zip combine pfoldM fst snd place].
  unfold py_list_setitem. cbn [json_int].
  unfold float_of at 2. rewrite map_length.
  change (Partition.py_index (List.length data) p) with (PyJson.py_index (List.length data) p).
  destruct (PyJson.py_index (List.length data) p) as [i|]; [|reflexivity].
  cbn [pbind]. rewrite IH. f_equal.
  unfold float_of. clear. revert i. induction data as [|a t IHd]; intros [|i]; simpl; auto.
  rewrite IHd. reflexivity.
Qed.

Lemma float_of_zeros n : float_of (map JInt (py_list_repeat [0] (Z.of_nat n))) = repeat (Fin 0) n.
Proof.
  unfold py_list_repeat. rewrite Nat2Z.id. induction n as [|n IH]; [reflexivity|].
  cbn [repeat List.concat app map float_of]. f_equal. exact IH.
Qed.

(* the counts an augmented cube gets: Model/Partition.v augment_counts *)
(*@ C06 *)
Lemma cube_aug_fill_model :
  forall summary own n cs,
  option_map float_of
    (to_option (pbind (aug_values (map elem_json own)) (fun values =>
                pbind (aug_positions (map elem_json summary) values) (fun positions =>
                aug_fill (Z.of_nat n) positions (map JFloat cs)))))
  = augment_counts summary own n cs.
Proof.
  intros summary own n cs.
  rewrite aug_values_model. cbn [pbind]. rewrite aug_positions_model. cbn [pbind].
  unfold aug_fill, augment_counts, augment_positions.
  rewrite <- (map_map e_id JInt). rewrite aug_fold_place, float_of_zeros. reflexivity.
Qed.

(* --- what the new responses keep ---------------------------------------------------------------------------- *)
Lemma dget_dset d k v k' : dget (dset d k v) k' = if String.eqb k k' then Some v else dget d k'.
Proof. unfold dget, dset. apply (py_dict_get_set String.eqb String.eqb_eq). Qed.
Lemma dget_dset_same d k v : dget (dset d k v) k = Some v.
Proof. rewrite dget_dset, String.eqb_refl. reflexivity. Qed.
Lemma dget_dset_other d k v k' : k <> k' -> dget (dset d k v) k' = dget d k'.
Proof. intros N. rewrite dget_dset. destruct (String.eqb_spec k k'); [contradiction|reflexivity]. Qed.

(* Cube.inflate: the rows dimension is the FIRST dimension dict of the new response; every other key of the
   response and of its result is the one of the old response *)
(*@ C06 C18 *)
Lemma cube_inflated_response_spec :
  forall top res dimsj alias name,
  exists top' res',
    inflated_response top res dimsj alias name = JDict top' /\
    dget top' "result" = Some (JDict res') /\
    dget res' "dimensions" = Some (JList (rows_dimension_json alias name :: dimsj)) /\
    (forall k, k <> "result" -> dget top' k = dget top k) /\
    (forall k, k <> "dimensions" -> dget res' k = dget res k).
Proof.
  intros top res dimsj alias name.
  exists (dset top "result" (JDict (dset res "dimensions" (JList (rows_dimension_json alias name :: dimsj))))),
    (dset res "dimensions" (JList (rows_dimension_json alias name :: dimsj))).
  split; [reflexivity|]. repeat split.
  - apply dget_dset_same.
  - apply dget_dset_same.
  - intros k N. apply dget_dset_other. congruence.
  - intros k N. apply dget_dset_other. congruence.
Qed.

(* Cube.augment_response: counts and the data of the count measure are the positioned lists, each its own;
   dimension 0 carries the summary's elements; everything else is the one of the old response *)
(*@ C06 C18 *)
Lemma cube_augmented_response_spec :
  forall top res ms cm dim0 ty0 drest data cdata sels,
  exists top' res' ms' cm' dim0' ty0',
    augmented_response top res ms cm dim0 ty0 drest data cdata sels = JDict top' /\
    dget top' "result" = Some (JDict res') /\
    dget res' "counts" = Some (JList data) /\
    dget res' "measures" = Some (JDict ms') /\ dget ms' "count" = Some (JDict cm') /\
    dget cm' "data" = Some (JList cdata) /\
    dget res' "dimensions" = Some (JList (JDict dim0' :: drest)) /\
    dget dim0' "type" = Some (JDict ty0') /\ dget ty0' "elements" = Some (JList sels) /\
    (forall k, k <> "result" -> dget top' k = dget top k) /\
    (forall k, k <> "counts" -> k <> "measures" -> k <> "dimensions" -> dget res' k = dget res k) /\
    (forall k, k <> "count" -> dget ms' k = dget ms k) /\
    (forall k, k <> "data" -> dget cm' k = dget cm k) /\
    (forall k, k <> "type" -> dget dim0' k = dget dim0 k) /\
    (forall k, k <> "elements" -> dget ty0' k = dget ty0 k).
Proof.
  intros top res ms cm dim0 ty0 drest data cdata sels.
  unfold augmented_response.
  eexists _, (dset (dset (dset res "counts" (JList data)) "measures" _) "dimensions" _),
    (dset ms "count" _), (dset cm "data" (JList cdata)), (dset dim0 "type" _),
    (dset ty0 "elements" (JList sels)).
  split; [reflexivity|]. repeat split;
    try (intros k; intros; rewrite ?dget_dset_other by congruence; reflexivity).
  - apply dget_dset_same.
  - rewrite !dget_dset_other by discriminate. apply dget_dset_same.
  - rewrite dget_dset_other by discriminate. apply dget_dset_same.
  - apply dget_dset_same.
  - apply dget_dset_same.
  - apply dget_dset_same.
  - apply dget_dset_same.
  - apply dget_dset_same.
Qed.
