(* Model/CubeCounts.v -- canonical, readable definitions of what
     src/cr/cube/cube.py            (raw_cube_array, Cube._valid_idxs, measure cascade,
                                     counts_with_missings, _slice_idxs)
     src/cr/cube/matrix/cubemeasure.py  (_slice_idx_expr, the nine _XxY CubeCounts classes,
                                     pass-through measures, _*UnconditionalCubeCounts.baseline)
     src/cr/cube/stripe/cubemeasure.py  (_Cat/_Mr/_NumArr CubeCounts)
     matrix/measure.py::_ColumnIndex, _TableBase, _TableBasesRange, margins,
     cubepart.py 2-D fall-backs, min_base_size_mask.py
   extract from a cube response.  Executable; definitions only (proofs are in
   Proofs/CubeCounts*.v).  Tied to the code by the correspondence checks C01/C02/C16.

   A raw measure is a TENSOR: a function from an index (list nat, one entry per axis of the
   all-dimensions shape, MR selection axis included) to a value.  [of_flat] builds it from
   the flat row-major payload; all theorems are about tensors, pointwise, for any shape. *)
From Coq Require Import QArith ZArith List Bool Lia Arith.
From CC Require Import Base.XQ Base.ListX Spec.Survey.
Import ListNotations.
Local Close Scope Q_scope.
Local Open Scope nat_scope.

Definition tensor := list nat -> xq.

(* ------------------------------------------------------------------------------------ *)
(** * cube.py: _BaseMeasure.raw_cube_array -- flat payload reshaped row-major *)

Fixpoint offset (shape idx : list nat) (acc : nat) : nat :=
  match shape, idx with
  | n :: sh, i :: ix => offset sh ix (acc * n + i)
  | _, _ => acc
  end.

Fixpoint in_boundsb (shape idx : list nat) : bool :=
  match shape, idx with
  | [], [] => true
  | n :: sh, i :: ix => (i <? n) && in_boundsb sh ix
  | _, _ => false
  end.

(* an out-of-range index raises in numpy; here it is NaN and every theorem guards it *)
Definition of_flat (shape : list nat) (data : list xq) : tensor :=
  fun idx => if in_boundsb shape idx then nth (offset shape idx 0) data NaN else NaN.

(* the row-major flattening of a tensor (the payload a tensor would be sent as) *)
Fixpoint flatten (shape : list nat) (T : tensor) : list xq :=
  match shape with
  | [] => [T []]
  | n :: sh => concat (tab n (fun i => flatten sh (fun idx => T (i :: idx))))
  end.

Definition xsumn (n : nat) (f : nat -> xq) : xq := xsum (tab n f).

(* ------------------------------------------------------------------------------------ *)
(** * dimension.py: dimension kinds as far as the cube measures care *)

(* DCat stands for every one-axis dimension whose type-string in
   _BaseCubeCounts.factory is "CAT": CAT, CAT_DATE, LOGICAL, CA_CAT, DATETIME, TEXT,
   BINNED_NUMERIC.  DMrCat is the selection axis [selected, other, missing] of an MR. *)
Inductive dkind := DCat | DMrSubvar | DMrCat | DCaSubvar | DNumArr.
Record dimd := mkDim { dk : dkind; dmiss : list bool }.   (* missing flag per element *)

Definition dvalid (d : dimd) : list nat := valid_idxs (dmiss d).   (* valid_elements.element_idxs *)
Definition nvalid (d : dimd) : nat := length (dvalid d).
Definition dsize (d : dimd) : nat := length (dmiss d).             (* Dimension.shape *)

Definition is_mrcat (d : dimd) : bool := match dk d with DMrCat => true | _ => false end.
Definition is_numarr (d : dimd) : bool := match dk d with DNumArr => true | _ => false end.
(* Dimensions.apparent_dimensions *)
Definition apparent (ds : list dimd) : list dimd := filter (fun d => negb (is_mrcat d)) ds.

Inductive cls := CCat | CMr | CArr.
Definition cls_of (d : dimd) : cls :=
  match dk d with DMrSubvar => CMr | DCaSubvar | DNumArr => CArr | _ => CCat end.
Definition is_mr (d : dimd) : bool := match dk d with DMrSubvar => true | _ => false end.

(* the selection axis of the generated / real MR dimensions: ids [1, 0, -1], -1 missing *)
Definition mr_cat_missing : list bool := [false; false; true].

(* ------------------------------------------------------------------------------------ *)
(** * cube.py: Cube._valid_idxs and [raw_cube_array[self._valid_idxs]] *)

(* np.ix_ of the valid offsets: output index i on an axis reads raw offset (nth i valid) *)
Fixpoint remap (vs : list (list nat)) (idx : list nat) : list nat :=
  match vs, idx with
  | v :: vs', i :: idx' => nth i v 0 :: remap vs' idx'
  | _, _ => []
  end.

(* Dimensions.dimension_order: identity unless a numeric-array dimension is present
   (it is prepended to the dimensions but its axis comes LAST in the payload) *)
Definition dimension_order (ds : list dimd) : list nat :=
  let n := length ds in
  if (2 <=? n) && existsb is_numarr ds then
    (* dim_order[1:] + (dim_order[0],): the rotation for ANY number of dimensions (since the
       repair of finding C01-numarr-four-axes; four or more used to be reversed) *)
    seq 1 (n - 1) ++ [0]
  else seq 0 n.
Definition permute (order : list nat) (l : list nat) : list nat :=
  map (fun i => nth i l 0) order.

(* Dimensions.shape: shape of the raw array = dimension sizes in dimension order *)
Definition raw_shape (ds : list dimd) : list nat := permute (dimension_order ds) (map dsize ds).

(* valid tensor, indexed in all-dimensions order *)
Definition take_valid (ds : list dimd) (T : tensor) : tensor :=
  fun idx => T (remap (map dvalid ds) idx).
Definition take_valid_ord (ds : list dimd) (T : tensor) : tensor :=
  fun idx => T (permute (dimension_order ds) (remap (map dvalid ds) idx)).

(* ------------------------------------------------------------------------------------ *)
(** * cube.py: which payload a count measure comes from *)

Record payload := mkPayload {
  p_counts : list xq;                  (* result.counts *)
  p_count : option (list xq);          (* result.measures.count.data *)
  p_vcu : option (list xq);            (* valid_count_unweighted.data ([] counts as absent) *)
  p_vcw : option (list xq) }.          (* valid_count_weighted.data *)

Fixpoint list_xeqb (a b : list xq) : bool :=
  match a, b with
  | [], [] => true
  | x :: a', y :: b' => xeqb x y && list_xeqb a' b'
  | _, _ => false
  end.
Definition nonempty (o : option (list xq)) : option (list xq) :=
  match o with Some [] => None | _ => o end.

(* _WeightedCountMeasure._flat_values: None when absent or equal to the unweighted counts *)
Definition weighted_payload (p : payload) : option (list xq) :=
  match p_count p with
  | Some d => if list_xeqb (p_counts p) d then None else Some d
  | None => None
  end.
(* Cube.counts_with_missings *)
Definition cwm_payload (p : payload) : list xq :=
  match nonempty (p_vcw p) with
  | Some d => d
  | None => match nonempty (p_vcu p) with
            | Some d => d
            | None => match weighted_payload p with Some d => d | None => p_counts p end
            end
  end.
(* CubeMeasures.weighted_cube_counts / unweighted_cube_counts *)
Definition weighted_counts_payload (p : payload) : list xq := cwm_payload p.
Definition unweighted_counts_payload (p : payload) : list xq :=
  match nonempty (p_vcu p) with Some d => d | None => p_counts p end.

(* ------------------------------------------------------------------------------------ *)
(** * matrix/cubemeasure.py: _slice_idx_expr *)

Definition slice_at (ndim : nat) (table_mr : bool) (k : nat) (T : tensor) : tensor :=
  if ndim <? 3 then T
  else if table_mr then (fun idx => T (k :: 0 :: idx))
  else (fun idx => T (k :: idx)).

(* ------------------------------------------------------------------------------------ *)
(** * matrix/cubemeasure.py: the nine count classes.
      V is the valid slice tensor (self._counts); nr nc the numbers of rows / columns,
      sr sc the lengths of the (valid) selection axes of an MR rows / columns dimension. *)

Section Classes.
  Variable V : tensor.
  Variables nr nc sr sc : nat.

  (* _CatXCatCubeCounts *)
  Definition cc_counts i j := V [i; j].
  Definition cc_rows_base i := xsumn nc (fun j => V [i; j]).
  Definition cc_columns_base j := xsumn nr (fun i => V [i; j]).
  Definition cc_table_base := xsumn nr (fun i => xsumn nc (fun j => V [i; j])).
  Definition cc_row_bases (i j : nat) := cc_rows_base i.
  Definition cc_column_bases (i j : nat) := cc_columns_base j.
  Definition cc_table_bases (i j : nat) := cc_table_base.

  (* _CatXMrCubeCounts: V [row; col item; sel] *)
  Definition cm_counts i j := V [i; j; 0].
  Definition cm_columns_base j := xsumn nr (fun i => V [i; j; 0]).
  Definition cm_column_bases (i j : nat) := cm_columns_base j.
  Definition cm_row_bases i j := xsumn sc (fun s => V [i; j; s]).
  Definition cm_columns_table_base j := xsumn nr (fun i => xsumn sc (fun s => V [i; j; s])).
  Definition cm_table_bases (i j : nat) := cm_columns_table_base j.

  (* _MrXCatCubeCounts: V [row item; sel; col] *)
  Definition mc_counts i j := V [i; 0; j].
  Definition mc_column_bases i j := xsumn sr (fun s => V [i; s; j]).
  Definition mc_rows_base i := xsumn nc (fun j => V [i; 0; j]).
  Definition mc_row_bases (i j : nat) := mc_rows_base i.
  Definition mc_rows_table_base i := xsumn sr (fun s => xsumn nc (fun j => V [i; s; j])).
  Definition mc_table_bases (i j : nat) := mc_rows_table_base i.

  (* _MrXMrCubeCounts: V [row item; sel; col item; sel] *)
  Definition mm_counts i j := V [i; 0; j; 0].
  Definition mm_column_bases i j := xsumn sr (fun s => V [i; s; j; 0]).
  Definition mm_row_bases i j := xsumn sc (fun t => V [i; 0; j; t]).
  Definition mm_table_bases i j := xsumn sr (fun s => xsumn sc (fun t => V [i; s; j; t])).

  (* _ArrXArrCubeCounts *)
  Definition aa_counts i j := V [i; j].

  (* _ArrXCatCubeCounts *)
  Definition ac_counts i j := V [i; j].
  Definition ac_rows_base i := xsumn nc (fun j => V [i; j]).

  (* _ArrXMrCubeCounts: V [row; col item; sel] *)
  Definition am_counts i j := V [i; j; 0].
  Definition am_row_bases i j := xsumn sc (fun s => V [i; j; s]).

  (* _CatXArrCubeCounts *)
  Definition ca_counts i j := V [i; j].
  Definition ca_columns_base j := xsumn nr (fun i => V [i; j]).

  (* _MrXArrCubeCounts: V [row item; sel; col] *)
  Definition ma_counts i j := V [i; 0; j].
  Definition ma_column_bases i j := xsumn sr (fun s => V [i; s; j]).

  (* _BaseCubeCounts.factory dispatch *)
  Definition counts_of (rc cc : cls) (i j : nat) : xq :=
    match rc, cc with
    | CMr, CMr => mm_counts i j
    | CMr, CArr => ma_counts i j
    | CMr, CCat => mc_counts i j
    | CArr, CMr => am_counts i j
    | CArr, CArr => aa_counts i j
    | CArr, CCat => ac_counts i j
    | CCat, CMr => cm_counts i j
    | CCat, CArr => ca_counts i j
    | CCat, CCat => cc_counts i j
    end.
  Definition row_bases_of (rc cc : cls) (i j : nat) : xq :=
    match rc, cc with
    | CMr, CMr => mm_row_bases i j
    | CMr, CArr => ma_counts i j
    | CMr, CCat => mc_row_bases i j
    | CArr, CMr => am_row_bases i j
    | CArr, CArr => aa_counts i j
    | CArr, CCat => ac_rows_base i
    | CCat, CMr => cm_row_bases i j
    | CCat, CArr => ca_counts i j
    | CCat, CCat => cc_row_bases i j
    end.
  Definition column_bases_of (rc cc : cls) (i j : nat) : xq :=
    match rc, cc with
    | CMr, CMr => mm_column_bases i j
    | CMr, CArr => ma_column_bases i j
    | CMr, CCat => mc_column_bases i j
    | CArr, CMr => am_counts i j
    | CArr, CArr => aa_counts i j
    | CArr, CCat => ac_counts i j
    | CCat, CMr => cm_column_bases i j
    | CCat, CArr => ca_columns_base j
    | CCat, CCat => cc_column_bases i j
    end.
  Definition table_bases_of (rc cc : cls) (i j : nat) : xq :=
    match rc, cc with
    | CMr, CMr => mm_table_bases i j
    | CMr, CArr => ma_column_bases i j
    | CMr, CCat => mc_table_bases i j
    | CArr, CMr => am_row_bases i j
    | CArr, CArr => aa_counts i j
    | CArr, CCat => ac_rows_base i
    | CCat, CMr => cm_table_bases i j
    | CCat, CArr => ca_columns_base j
    | CCat, CCat => cc_table_bases i j
    end.

  (* the optional 1-D marginals of the cube measure (None = "not defined", the public API
     then falls back to the 2-D base: cubepart.py rows_margin / columns_margin / ...) *)
  Definition rows_base_of (rc cc : cls) : option (nat -> xq) :=
    match rc, cc with
    | CCat, CCat => Some cc_rows_base
    | CMr, CCat => Some mc_rows_base
    | CArr, CCat => Some ac_rows_base
    | _, _ => None
    end.
  Definition columns_base_of (rc cc : cls) : option (nat -> xq) :=
    match rc, cc with
    | CCat, CCat => Some cc_columns_base
    | CCat, CMr => Some cm_columns_base
    | CCat, CArr => Some ca_columns_base
    | _, _ => None
    end.
  Definition rows_table_base_of (rc cc : cls) : option (nat -> xq) :=
    match rc, cc with
    | CCat, CCat => Some (fun _ => cc_table_base)
    | CMr, CCat => Some mc_rows_table_base
    | CArr, CCat => Some ac_rows_base
    | _, _ => None
    end.
  Definition columns_table_base_of (rc cc : cls) : option (nat -> xq) :=
    match rc, cc with
    | CCat, CCat => Some (fun _ => cc_table_base)
    | CCat, CMr => Some cm_columns_table_base
    | CCat, CArr => Some ca_columns_base
    | _, _ => None
    end.
  Definition table_base_of (rc cc : cls) : option xq :=
    match rc, cc with CCat, CCat => Some cc_table_base | _, _ => None end.

  (* pass-through measures (_BaseCubeMeans/_Sums/_StdDev/_Medians): only MR-ness matters,
     an array dimension is handled by the "Cat" variant *)
  Definition passthrough_of (rmr cmr : bool) (i j : nat) : xq :=
    match rmr, cmr with
    | true, true => V [i; 0; j; 0]
    | true, false => V [i; 0; j]
    | false, true => V [i; j; 0]
    | false, false => V [i; j]
    end.
End Classes.

(* ------------------------------------------------------------------------------------ *)
(** * matrix/cubemeasure.py: _*UnconditionalCubeCounts.baseline
      W = counts_with_missings[_slice_idx_expr] (raw: missing elements and the full
      selection axis included); vr = valid row offsets; nac = number of ALL columns;
      sa = length of a raw selection axis (3) *)

Section Baseline.
  Variable W : tensor.
  Variable vr : list nat.
  Variables nac sa : nat.

  (* _CatXCat: (nrows, 1) *)
  Definition ub_cc_margin (a : nat) := xsumn nac (fun j => W [a; j]).
  Definition ub_cc (i : nat) : xq :=
    xdiv (ub_cc_margin (nth i vr 0)) (xsum (map ub_cc_margin vr)).
  (* _CatXMr: (nrows, ncols); columns are NOT filtered by validity *)
  Definition ub_cm_margin (j a : nat) := xsumn sa (fun s => W [a; j; s]).
  Definition ub_cm (i j : nat) : xq :=
    xdiv (ub_cm_margin j (nth i vr 0)) (xsum (map (ub_cm_margin j) vr)).
  (* _MrXCat: (nrows, 1) *)
  Definition ub_mc (i : nat) : xq :=
    let a := nth i vr 0 in
    xdiv (xsumn nac (fun j => W [a; 0; j]))
         (xsumn (Nat.min 2 sa) (fun s => xsumn nac (fun j => W [a; s; j]))).
  (* _MrXMr: (nrows, ncols); neither rows nor columns are filtered by validity *)
  Definition ub_mm (i j : nat) : xq :=
    xdiv (xsumn sa (fun t => W [i; 0; j; t]))
         (xsumn (Nat.min 2 sa) (fun s => xsumn sa (fun t => W [i; s; j; t]))).

  Definition baseline_of (rmr cmr : bool) (i j : nat) : xq :=
    match rmr, cmr with
    | true, true => ub_mm i j
    | true, false => ub_mc i
    | false, true => ub_cm i j
    | false, false => ub_cc i
    end.
End Baseline.

(* matrix/measure.py: _ColumnIndex._column_index *)
Definition column_index_cell (count colbase baseline : xq) : xq :=
  xmul (Fin 100%Q) (xdiv (xdiv count colbase) baseline).

(* ------------------------------------------------------------------------------------ *)
(** * stripe/cubemeasure.py *)

Section Stripe.
  Variable V : tensor.
  Variables n s : nat.
  Definition sc_counts i := V [i].
  Definition sc_table_base := xsumn n (fun i => V [i]).
  Definition sc_bases (i : nat) := sc_table_base.
  Definition sm_counts i := V [i; 0].
  Definition sm_bases i := xsumn s (fun t => V [i; t]).
  Definition stripe_counts (c : cls) i := match c with CMr => sm_counts i | _ => sc_counts i end.
  Definition stripe_bases (c : cls) i :=
    match c with CMr => sm_bases i | CArr => sc_counts i | CCat => sc_bases i end.
End Stripe.

(* ------------------------------------------------------------------------------------ *)
(** * ranges and masks *)

Definition xmin_list (l : list xq) : xq := match l with [] => NaN | a :: t => fold_left xmin t a end.
Definition xmax_list (l : list xq) : xq := match l with [] => NaN | a :: t => fold_left xmax t a end.
(* _TableBasesRange: [min, max] over all table bases of the base block *)
Definition bases_range (m : list (list xq)) : xq * xq :=
  (xmin_list (concat m), xmax_list (concat m)).
(* MinBaseSizeMask: base < size; NaN compares false *)
Definition mask_cell (base : xq) (size : xq) : bool := xltb base size.

(* ------------------------------------------------------------------------------------ *)
(** * putting it together: one partition of a cube *)

(* the last apparent dimension of a (reversed) dimension list, the length of its valid
   selection axis (0 if not MR), the raw length of that axis, and the remaining dimensions *)
Definition split_last (rev_ds : list dimd) : option (dimd * nat * nat * list dimd) :=
  match rev_ds with
  | c :: d :: rest =>
      if is_mrcat c then Some (d, nvalid c, dsize c, rest) else Some (c, 0, 0, d :: rest)
  | [c] => Some (c, 0, 0, [])
  | [] => None
  end.

Record slice_info := mkSliceInfo {
  si_ndim : nat; si_table_mr : bool;
  si_row : dimd; si_sr : nat; si_sra : nat;
  si_col : dimd; si_sc : nat; si_sca : nat }.

Definition slice_info_of (ds : list dimd) : option slice_info :=
  match split_last (rev ds) with
  | Some (c, sc, sca, rest) =>
      match split_last rest with
      | Some (r, sr, sra, rest') =>
          Some (mkSliceInfo (length (apparent ds))
                            (match rev rest' with t :: _ => is_mr t | [] => false end)
                            r sr sra c sc sca)
      | None => None
      end
  | None => None
  end.

(* the valid slice tensor of partition k for a flat payload *)
Definition slice_tensor (ds : list dimd) (data : list xq) (si : slice_info) (k : nat) : tensor :=
  slice_at (si_ndim si) (si_table_mr si) k
           (take_valid_ord ds (of_flat (raw_shape ds) data)).
(* CubeMeasures.unconditional_cube_counts: the payload offset of the k-th VALID table element
   (cube.dimensions[0].valid_elements.element_idxs[k]); k itself below three dimensions *)
Definition table_offset (ds : list dimd) (si : slice_info) (k : nat) : nat :=
  if si_ndim si <? 3 then k else match ds with d :: _ => nth k (dvalid d) 0 | [] => k end.
(* counts_with_missings[_slice_idx_expr(cube, table offset)]: the raw slice (missing elements of
   every dimension retained) of the table element of partition k *)
Definition raw_slice_tensor (ds : list dimd) (data : list xq) (si : slice_info) (k : nat) : tensor :=
  slice_at (si_ndim si) (si_table_mr si) (table_offset ds si k) (of_flat (raw_shape ds) data).

Definition oapp {A B} (f : A -> B) (o : option A) : option B :=
  match o with Some a => Some (f a) | None => None end.

Record slice_out := mkSliceOut {
  so_counts : list (list xq);
  so_row_bases : list (list xq);
  so_column_bases : list (list xq);
  so_table_bases : list (list xq);
  so_rows_base : option (list xq);
  so_columns_base : option (list xq);
  so_rows_table_base : option (list xq);
  so_columns_table_base : option (list xq);
  so_table_base : option xq;
  so_range : xq * xq }.

Definition slice_counts (ds : list dimd) (data : list xq) (k : nat) : option slice_out :=
  match slice_info_of ds with
  | None => None
  | Some si =>
      let V := slice_tensor ds data si k in
      let nr := nvalid (si_row si) in
      let nc := nvalid (si_col si) in
      let rc := cls_of (si_row si) in
      let cc := cls_of (si_col si) in
      let sr := si_sr si in
      let sc := si_sc si in
      let tb := tab2 nr nc (table_bases_of V nr nc sr sc rc cc) in
      Some (mkSliceOut
        (tab2 nr nc (counts_of V rc cc))
        (tab2 nr nc (row_bases_of V nc sc rc cc))
        (tab2 nr nc (column_bases_of V nr sr rc cc))
        tb
        (oapp (tab nr) (rows_base_of V nc rc cc))
        (oapp (tab nc) (columns_base_of V nr rc cc))
        (oapp (tab nr) (rows_table_base_of V nr nc sr rc cc))
        (oapp (tab nc) (columns_table_base_of V nr nc sc rc cc))
        (table_base_of V nr nc rc cc)
        (bases_range tb))
  end.

(* pass-through measure (means / sums / stddev / medians) of partition k *)
Definition slice_passthrough (ds : list dimd) (data : list xq) (k : nat) : option (list (list xq)) :=
  match slice_info_of ds with
  | None => None
  | Some si =>
      let V := slice_tensor ds data si k in
      Some (tab2 (nvalid (si_row si)) (nvalid (si_col si))
                 (passthrough_of V (is_mr (si_row si)) (is_mr (si_col si))))
  end.

(* _Slice.column_index base block: weighted counts payload [wdata], counts-with-missings
   payload [cdata] (the same list unless the cascade differs) *)
Definition slice_baseline (ds : list dimd) (cdata : list xq) (k : nat) : option (list (list xq)) :=
  match slice_info_of ds with
  | None => None
  | Some si =>
      let W := raw_slice_tensor ds cdata si k in
      let rmr := is_mr (si_row si) in
      let cmr := is_mr (si_col si) in
      let nr := nvalid (si_row si) in
      let nc := nvalid (si_col si) in
      Some (tab2 nr nc (baseline_of W (dvalid (si_row si)) (dsize (si_col si))
                                    (if cmr then si_sca si else si_sra si) rmr cmr))
  end.

Definition slice_column_index (ds : list dimd) (wdata cdata : list xq) (k : nat)
  : option (list (list xq)) :=
  match slice_counts ds wdata k, slice_baseline ds cdata k with
  | Some so, Some bl =>
      Some (tab2 (length (so_counts so)) (ncols (so_counts so))
                 (fun i j => column_index_cell (mnth (so_counts so) i j)
                                               (mnth (so_column_bases so) i j)
                                               (mnth bl i j)))
  | _, _ => None
  end.

(* strands: 1-D cube, or "CA as 0th" (2-D CA cube cut into one strand per subvariable) *)
Record strand_out := mkStrandOut {
  st_counts : list xq; st_bases : list xq; st_table_base : option xq; st_range : xq * xq }.

Definition strand_counts (ds : list dimd) (data : list xq) (ca_as_0th : bool) (k : nat)
  : option strand_out :=
  match split_last (rev ds) with
  | None => None
  | Some (r, s, _, _) =>
      let V0 := take_valid_ord ds (of_flat (raw_shape ds) data) in
      let V := if ca_as_0th then (fun idx => V0 (k :: idx)) else V0 in
      let c := if ca_as_0th then CCat else cls_of r in
      let n := nvalid r in
      let bases := tab n (stripe_bases V n s c) in
      Some (mkStrandOut (tab n (stripe_counts V c)) bases
                        (match c with CCat => Some (sc_table_base V n) | _ => None end)
                        (xmin_list bases, xmax_list bases))
  end.

(* number of partitions: Cube._slice_idxs *)
Definition n_partitions (ds : list dimd) (ca_as_0th : bool) : nat :=
  let ap := apparent ds in
  if (length ap <? 3) && negb ca_as_0th then 1
  else match ap with d :: _ => nvalid d | [] => 1 end.

(* ------------------------------------------------------------------------------------ *)
(** * cubepart.py: the public margins / table base with their 2-D fall-backs *)

Inductive pubval := PScalar (x : xq) | PVector (v : list xq) | PMatrix (m : list (list xq)).

(* _Slice.rows_margin / rows_base: the 1-D margin when defined, else the 2-D row bases *)
Definition public_rows_margin (so : slice_out) : pubval :=
  match so_rows_base so with Some v => PVector v | None => PMatrix (so_row_bases so) end.
Definition public_columns_margin (so : slice_out) : pubval :=
  match so_columns_base so with Some v => PVector v | None => PMatrix (so_column_bases so) end.
(* _Slice.table_margin / table_base: scalar, else per column, else per row, else per cell *)
Definition public_table_base (so : slice_out) : pubval :=
  match so_table_base so with
  | Some x => PScalar x
  | None => match so_columns_table_base so with
            | Some v => PVector v
            | None => match so_rows_table_base so with
                      | Some v => PVector v
                      | None => PMatrix (so_table_bases so)
                      end
            end
  end.
