(* Model of how the order helpers of cr.cube find the values a dimension is sorted on.

     src/cr/cube/matrix/assembler.py   _BaseOrderHelper.row_display_order / column_display_order
                                       (dispatch on the "type" keyword), _BaseOrderHelper._measure
                                       (keyword -> second-order measure table),
                                       _SortRowsBy{BaseColumn,DerivedColumn,InsertedColumn,Label,
                                       Marginal}Helper, _SortColumnsBy{BaseRow,InsertedRow,Label}Helper,
                                       _BaseSort{Rows,Columns}ByValueHelper._order (ValueError ->
                                       payload order)
     src/cr/cube/stripe/assembler.py   _BaseOrderHelper.display_order, _SortByMeasureHelper._measure,
                                       _SortByLabelHelper, _BaseSortByValueHelper._display_order
     src/cr/cube/matrix/measure.py     _PopulationProportions.blocks (NaN for difference subtotals)
     src/cr/cube/stripe/measure.py     _PopulationProportions.subtotal_values (the same)
     src/cr/cube/dimension.py          _OrderSpec (measure / marginal / element_id / insertion_id:
                                       KeyError when the field is absent, ValueError when the keyword
                                       is no member of the enumeration)

   Executable definitions only (proofs: Proofs/SortKeysProofs.v); the three keyword tables and the two
   enumerations are compared with the source text (ast) on every run of harness/props/c08.py, the
   resolution + collation is compared with row_order()/column_order().

   The measures object the helpers read is [slice_measures] / [strand_measures]: the population
   proportions carry NaN in the vectors of difference subtotals (matrix/measure.py, stripe/measure.py
   _PopulationProportions, /repo e7676546), so a sort by `population` has no key where the public
   population_counts has no value.

   A table row also records what the USER reads under the keyword (the public measure of the partition)
   and how that value derives from the quantity the helper sorts on ([reading]); that part is not in the
   source - it is the reading of the property ("the value the corresponding public measure reports"),
   used by the oracle of the check and by the theorems [surrogate_*]. *)
From Coq Require Import List ZArith String Bool Lia Arith QArith.
From CC Require Import Base.XQ Base.SortX Spec.OrderSpec Model.Collator.
Import ListNotations.
Local Close Scope Q_scope.
Local Open Scope nat_scope.
Local Open Scope string_scope.

Definition NotImplementedError : Z := 4%Z.

(* --- keyword tables ---------------------------------------------------------------------------------- *)
(* how the value reported under the keyword derives from the value the helper sorts on *)
Inductive reading : Type :=
  | SameValue               (* the helper sorts on the public value itself *)
  | RootOf                  (* public = sqrt(key)            (std-dev, sorted on the variance) *)
  | TimesZ975               (* public = Z_975 * key          (margin of error, sorted on the std-err) *)
  | TimesPopulation         (* public = key * population * fraction   (sorted on the proportion) *)
  | TimesPopulationZ975.    (* public = Z_975 * population * fraction * key  (sorted on the std-err) *)

Record kwrow : Type := mkKw {
  kw_name : string;         (* keyword in the order transform *)
  kw_prop : string;         (* property of the measures object whose blocks are the sort keys *)
  kw_public : string;       (* property of the partition a user reads under this keyword *)
  kw_reading : reading
}.

(* MEASURE (enums.py): every value; a keyword outside it is a ValueError (-> fallback) *)
Definition measure_enum : list string :=
  ["col_base_unweighted"; "col_base_weighted"; "col_index"; "col_percent"; "col_percent_moe";
   "col_share_sum"; "col_std_dev"; "col_std_err"; "mean"; "median"; "pairwise_t_test"; "population";
   "population_moe"; "p_value"; "row_base_unweighted"; "row_base_weighted"; "row_percent";
   "row_percent_moe"; "row_share_sum"; "row_std_dev"; "row_std_err"; "smoothed_mean";
   "smoothed_col_percent"; "smoothed_col_index"; "stddev"; "sum"; "table_base_unweighted";
   "table_base_weighted"; "table_percent"; "table_percent_moe"; "table_std_dev"; "table_std_err";
   "total_share_sum"; "count_unweighted"; "valid_count_unweighted"; "count_weighted";
   "valid_count_weighted"; "z_score"].

(* _BaseOrderHelper._measure: propname_by_measure *)
Definition matrix_table : list kwrow :=
  [ mkKw "col_base_unweighted" "column_unweighted_bases" "column_unweighted_bases" SameValue;
    mkKw "col_base_weighted" "column_weighted_bases" "column_weighted_bases" SameValue;
    mkKw "col_index" "column_index" "column_index" SameValue;
    mkKw "col_percent" "column_proportions" "column_proportions" SameValue;
    mkKw "col_percent_moe" "column_std_err" "column_proportions_moe" TimesZ975;
    mkKw "col_share_sum" "column_share_sum" "column_share_sum" SameValue;
    mkKw "col_std_dev" "column_proportion_variances" "column_std_dev" RootOf;
    mkKw "col_std_err" "column_std_err" "column_std_err" SameValue;
    mkKw "mean" "means" "means" SameValue;
    mkKw "population" "population_proportions" "population_counts" TimesPopulation;
    mkKw "population_moe" "population_std_err" "population_counts_moe" TimesPopulationZ975;
    mkKw "p_value" "pvalues" "pvals" SameValue;
    mkKw "row_base_unweighted" "row_unweighted_bases" "row_unweighted_bases" SameValue;
    mkKw "row_base_weighted" "row_weighted_bases" "row_weighted_bases" SameValue;
    mkKw "row_percent" "row_proportions" "row_proportions" SameValue;
    mkKw "row_percent_moe" "row_std_err" "row_proportions_moe" TimesZ975;
    mkKw "row_share_sum" "row_share_sum" "row_share_sum" SameValue;
    mkKw "row_std_dev" "row_proportion_variances" "row_std_dev" RootOf;
    mkKw "row_std_err" "row_std_err" "row_std_err" SameValue;
    mkKw "stddev" "stddev" "stddev" SameValue;
    mkKw "sum" "sums" "sums" SameValue;
    mkKw "table_percent" "table_proportions" "table_proportions" SameValue;
    mkKw "table_percent_moe" "table_std_err" "table_proportions_moe" TimesZ975;
    mkKw "table_std_dev" "table_proportion_variances" "table_std_dev" RootOf;
    mkKw "table_std_err" "table_std_err" "table_std_err" SameValue;
    mkKw "table_base_unweighted" "table_unweighted_bases" "table_unweighted_bases" SameValue;
    mkKw "table_base_weighted" "table_weighted_bases" "table_weighted_bases" SameValue;
    mkKw "total_share_sum" "total_share_sum" "total_share_sum" SameValue;
    mkKw "count_unweighted" "unweighted_counts" "unweighted_counts" SameValue;
    mkKw "valid_count_unweighted" "unweighted_counts" "unweighted_counts" SameValue;
    mkKw "count_weighted" "weighted_counts" "counts" SameValue;
    mkKw "valid_count_weighted" "weighted_counts" "counts" SameValue;
    mkKw "z_score" "zscores" "zscores" SameValue ].

(* stripe _SortByMeasureHelper._measure: keyname -> propname (a keyname outside the table is a
   ValueError -> fallback; there is no enumeration in between) *)
Definition strand_table : list kwrow :=
  [ mkKw "base_unweighted" "unweighted_bases" "unweighted_bases" SameValue;
    mkKw "base_weighted" "weighted_bases" "weighted_bases" SameValue;
    mkKw "count_unweighted" "unweighted_counts" "unweighted_counts" SameValue;
    mkKw "count_weighted" "weighted_counts" "counts" SameValue;
    mkKw "mean" "means" "means" SameValue;
    mkKw "percent" "table_proportions" "table_proportions" SameValue;
    mkKw "percent_moe" "table_proportion_stderrs" "table_proportion_moes" TimesZ975;
    mkKw "percent_stddev" "table_proportion_stddevs" "table_proportion_stddevs" SameValue;
    mkKw "percent_stderr" "table_proportion_stderrs" "table_proportion_stderrs" SameValue;
    mkKw "population" "population_proportions" "population_counts" TimesPopulation;
    mkKw "population_moe" "population_proportion_stderrs" "population_counts_moe" TimesPopulationZ975;
    mkKw "share_sum" "share_sum" "share_sum" SameValue;
    mkKw "sum" "sums" "sums" SameValue ].

(* MARGINAL (enums.py) and _SortRowsByMarginalHelper._marginal *)
Definition marginal_enum : list string :=
  ["unweighted_base"; "weighted_base"; "table_proportion"; "scale_mean"; "scale_mean_stddev";
   "scale_mean_stderr"; "scale_median"].
Definition marginal_table : list kwrow :=
  [ mkKw "unweighted_base" "rows_unweighted_base" "rows_base" SameValue;
    mkKw "weighted_base" "rows_weighted_base" "rows_margin" SameValue;
    mkKw "table_proportion" "rows_table_proportion" "rows_margin_proportion" SameValue;
    mkKw "scale_mean" "rows_scale_mean" "rows_scale_mean" SameValue;
    mkKw "scale_mean_stddev" "rows_scale_mean_stddev" "rows_scale_mean_stddev" SameValue;
    mkKw "scale_mean_stderr" "rows_scale_mean_stderr" "rows_scale_mean_stderr" SameValue;
    mkKw "scale_median" "rows_scale_median" "rows_scale_median" SameValue ].

Definition smem (s : string) (l : list string) : bool := existsb (String.eqb s) l.
Definition find_kw (tbl : list kwrow) (k : string) : option kwrow :=
  find (fun r => String.eqb (kw_name r) k) tbl.

(* --- what the helpers see ----------------------------------------------------------------------------- *)
(* the four payload-order blocks of a matrix measure *)
Record mblocks : Type := mkBlocks {
  mb_base : list (list xq);       (* blocks[0][0]  base rows x base columns *)
  mb_scols : list (list xq);      (* blocks[0][1]  base rows x subtotal columns *)
  mb_srows : list (list xq);      (* blocks[1][0]  subtotal rows x base columns *)
  mb_inter : list (list xq)       (* blocks[1][1]  subtotal rows x subtotal columns *)
}.
(* the two blocks of a marginal / of a strand measure *)
Definition vblocks : Type := (list xq * list xq)%type.

(* the measures object: a property name gives its blocks, or [None] when reading the blocks raises
   ValueError (the response does not carry what the measure needs) *)
Definition menv : Type := string -> option mblocks.
Definition venv : Type := string -> option vblocks.

(* --- the population proportions --------------------------------------------------------------------- *)
(* matrix/measure.py::_PopulationProportions.blocks and stripe/measure.py::_PopulationProportions
   .subtotal_values (since /repo e7676546): the row / column / table proportions, with NaN in every
   vector of a DIFFERENCE subtotal - inserted rows, inserted columns and the intersections of either;
   the subtotal values of a strand.  A difference has no population estimate (population_counts is NaN
   there), so the key the `population` keyword sorts on is NaN exactly where the public value is.
   [flags]: _Subtotal.is_difference of the subtotals of the dimension, in payload order (a missing
   flag counts as False).  The std-err the `population_moe` keyword sorts on is left as it is: its
   public value for a difference is a number. *)
Fixpoint nan_where (flags : list bool) (v : list xq) : list xq :=
  match v with
  | [] => []
  | x :: t => (if hd false flags then NaN else x) :: nan_where (tl flags) t
  end.
(* values[:, diff_cols] = nan *)
Definition nan_cols (flags : list bool) (m : list (list xq)) : list (list xq) :=
  map (nan_where flags) m.
(* values[diff_rows, :] = nan *)
Fixpoint nan_rows (flags : list bool) (m : list (list xq)) : list (list xq) :=
  match m with
  | [] => []
  | r :: t => (if hd false flags then map (fun _ => NaN) r else r) :: nan_rows (tl flags) t
  end.

Definition population_blocks (drows dcols : list bool) (b : mblocks) : mblocks :=
  mkBlocks (mb_base b)
           (nan_cols dcols (mb_scols b))
           (nan_rows drows (mb_srows b))
           (nan_cols dcols (nan_rows drows (mb_inter b))).
Definition population_vblocks (diffs : list bool) (b : vblocks) : vblocks :=
  (fst b, nan_where diffs (snd b)).

Definition population_prop : string := "population_proportions".

(* the measures object of a slice / of a strand over the proportions [raw] its first-order measures
   give: only the population proportions look at the difference flags *)
Definition slice_measures (drows dcols : list bool) (raw : menv) : menv :=
  fun p => if String.eqb p population_prop
           then option_map (population_blocks drows dcols) (raw p) else raw p.
Definition strand_measures (diffs : list bool) (raw : venv) : venv :=
  fun p => if String.eqb p population_prop
           then option_map (population_vblocks diffs) (raw p) else raw p.

(* the "order" dict of the dimension that is being sorted *)
Record order_req : Type := mkOrd {
  o_type : option string;            (* "type" *)
  o_measure : option string;         (* "measure" (None: the field is absent) *)
  o_marginal : option string;        (* "marginal" *)
  o_element_id : option ident;       (* "element_id", already translated into the id space of the
                                        opposing dimension (Dimension.translate_element_id, C19) *)
  o_insertion_id : option ident;     (* "insertion_id" (for an opposing ARRAY dimension: translated) *)
  o_spec : sortspec;                 (* direction, fixed.top, fixed.bottom *)
  o_explicit : list ident            (* "element_ids" *)
}.

(* the opposing dimension of a slice *)
Record opposing : Type := mkOpp {
  p_ids : list ident;                (* element_ids *)
  p_ins_ids : list Z;                (* insertion_ids *)
  p_array : bool                     (* dimension_type in ARRAY_TYPES *)
}.

Inductive place3 : Type := PRows | PColumns | PStrand.

(* COLLATION_METHOD + the factory conditionals: which helper orders the dimension *)
Inductive method : Type :=
  | MPayload | MExplicit | MLabel | MOppElement | MOppInsertion | MMarginal | MUnivariate.

Definition method_of (pl : place3) (type_kw : option string) : method :=
  match type_kw with
  | None => MPayload
  | Some k =>
      if String.eqb k "explicit" then MExplicit
      else if String.eqb k "label" then MLabel
      else if String.eqb k "opposing_element"
           then (match pl with PStrand => MPayload | _ => MOppElement end)
      else if String.eqb k "opposing_insertion"
           then (match pl with PStrand => MPayload | _ => MOppInsertion end)
      else if String.eqb k "marginal"
           then (match pl with PRows => MMarginal | _ => MPayload end)
      else if String.eqb k "univariate_measure"
           then (match pl with PStrand => MUnivariate | _ => MPayload end)
      else MPayload
  end.

(* tuple.index *)
Fixpoint find_index (x : ident) (ids : list ident) : option nat :=
  match ids with
  | [] => None
  | y :: t => if ident_eqb y x then Some 0 else option_map S (find_index x t)
  end.
Fixpoint find_indexZ (x : Z) (ids : list Z) : option nat :=
  match ids with
  | [] => None
  | y :: t => if Z.eqb y x then Some 0 else option_map S (find_indexZ x t)
  end.
(* insertion_ids.index(x): insertion ids are ints *)
Definition find_ins (x : ident) (ids : list Z) : option nat :=
  match x with IInt z => find_indexZ z ids | _ => None end.

Definition column_of (m : list (list xq)) (j : nat) : list sval :=
  map (fun r => VNum (nth j r NaN)) m.
Definition row_of (m : list (list xq)) (i : nat) : list sval := map VNum (nth i m []).

(* the outcome of looking for the sort values:
     Ok (Some v)   the element values and subtotal values
     Ok None       ValueError inside the try block  -> payload-order fallback
     Err c         an exception that escapes (KeyError, NotImplementedError) *)
Definition found : Type := res (option (list sval * list sval)).

(* _order_spec.measure + propname_by_measure.get + getattr(...).blocks *)
Definition matrix_measure (env : menv) (kw : option string) : res (option mblocks) :=
  match kw with
  | None => Err KeyError
  | Some k =>
      if negb (smem k measure_enum) then Ok None
      else match find_kw matrix_table k with
           | None => Err NotImplementedError
           | Some r => Ok (env (kw_prop r))
           end
  end.

Definition with_index {A} (ix : option (option nat)) (f : nat -> A) : res (option A) :=
  match ix with
  | None => Err KeyError            (* the id field is absent *)
  | Some None => Ok None            (* .index() raises ValueError *)
  | Some (Some j) => Ok (Some (f j))
  end.

(* rows of a slice *)
Definition rows_values (o : order_req) (opp : opposing) (env : menv) (marg : venv)
           (labels sublabels : list string) (m : method) : found :=
  match m with
  | MLabel => Ok (Some (map VStr labels, map VStr sublabels))
  | MOppElement =>
      bind (matrix_measure env (o_measure o)) (fun ob =>
        match ob with
        | None => Ok None
        | Some b =>
            with_index (option_map (fun x => find_index x (p_ids opp)) (o_element_id o))
                       (fun j => (column_of (mb_base b) j, column_of (mb_srows b) j))
        end)
  | MOppInsertion =>
      bind (matrix_measure env (o_measure o)) (fun ob =>
        match ob with
        | None => Ok None
        | Some b =>
            if p_array opp
            then (* _SortRowsByDerivedColumnHelper: the "insertion" is a derived element *)
              with_index (option_map (fun x => find_index x (p_ids opp)) (o_insertion_id o))
                         (fun j => (column_of (mb_base b) j, column_of (mb_srows b) j))
            else
              with_index (option_map (fun x => find_ins x (p_ins_ids opp)) (o_insertion_id o))
                         (fun j => (column_of (mb_scols b) j, column_of (mb_inter b) j))
        end)
  | MMarginal =>
      match o_marginal o with
      | None => Err KeyError
      | Some k =>
          if negb (smem k marginal_enum) then Ok None
          else match find_kw marginal_table k with
               | None => Err NotImplementedError
               | Some r =>
                   match marg (kw_prop r) with
                   | None => Ok None
                   | Some (base, subs) => Ok (Some (map VNum base, map VNum subs))
                   end
               end
      end
  | _ => Ok None        (* not a sort-by-value method: not used *)
  end.

(* columns of a slice *)
Definition columns_values (o : order_req) (opp : opposing) (env : menv)
           (labels sublabels : list string) (m : method) : found :=
  match m with
  | MLabel => Ok (Some (map VStr labels, map VStr sublabels))
  | MOppElement =>
      bind (matrix_measure env (o_measure o)) (fun ob =>
        match ob with
        | None => Ok None
        | Some b =>
            with_index (option_map (fun x => find_index x (p_ids opp)) (o_element_id o))
                       (fun i => (row_of (mb_base b) i, row_of (mb_scols b) i))
        end)
  | MOppInsertion =>
      bind (matrix_measure env (o_measure o)) (fun ob =>
        match ob with
        | None => Ok None
        | Some b =>
            with_index (option_map (fun x => find_ins x (p_ins_ids opp)) (o_insertion_id o))
                       (fun k => (row_of (mb_srows b) k, row_of (mb_inter b) k))
        end)
  | _ => Ok None
  end.

(* a strand *)
Definition strand_values (o : order_req) (env : venv) (labels sublabels : list string) (m : method)
  : found :=
  match m with
  | MLabel => Ok (Some (map VStr labels, map VStr sublabels))
  | MUnivariate =>
      match o_measure o with
      | None => Err KeyError
      | Some k =>
          match find_kw strand_table k with
          | None => Ok None
          | Some r =>
              match env (kw_prop r) with
              | None => Ok None
              | Some (base, subs) => Ok (Some (map VNum base, map VNum subs))
              end
          end
      end
  | _ => Ok None
  end.

Definition is_value_method (m : method) : bool :=
  match m with MPayload | MExplicit => false | _ => true end.

(* helper._display_order, signed, for the dimension [d] of a partition *)
Definition ordering_of (o : order_req) (m : method) (f : found) : res ordering :=
  match m with
  | MPayload => Ok (ByAnchor OPayload)
  | MExplicit => Ok (ByAnchor (OExplicit (o_explicit o)))
  | _ => bind f (fun v => Ok (ByValue (o_spec o) v))
  end.

Definition partition_order (d : dimension) (o : order_req) (m : method) (f : found)
           (empties : list nat) (psub : bool) : res (list Z) :=
  bind (ordering_of o m f) (fun og => display_order d og empties psub).

Definition rows_order (d : dimension) (o : order_req) (opp : opposing) (env : menv) (marg : venv)
           (labels sublabels : list string) (empties : list nat) (psub : bool) : res (list Z) :=
  let m := method_of PRows (o_type o) in
  partition_order d o m (rows_values o opp env marg labels sublabels m) empties psub.

Definition columns_order (d : dimension) (o : order_req) (opp : opposing) (env : menv)
           (labels sublabels : list string) (empties : list nat) (psub : bool) : res (list Z) :=
  let m := method_of PColumns (o_type o) in
  partition_order d o m (columns_values o opp env labels sublabels m) empties psub.

Definition strand_order (d : dimension) (o : order_req) (env : venv)
           (labels sublabels : list string) (empties : list nat) : res (list Z) :=
  let m := method_of PStrand (o_type o) in
  partition_order d o m (strand_values o env labels sublabels m) empties false.

(* --- what the user reads ------------------------------------------------------------------------------ *)
Definition Z975 : Q := (1959964 # 1000000)%Q.     (* cubepart.Z_975 rounded; only its sign matters here *)

(* [reads r c key pub]: the public value [pub] derives from the sort key [key] as the reading says;
   [c] = population * population_fraction *)
Definition nonneg (a : xq) : Prop := num_leb (Fin 0) a = true /\ a <> NaN.
Definition reads (r : reading) (c : Q) (key pub : xq) : Prop :=
  match r with
  | SameValue => pub =x= key
  | RootOf => (pub = NaN /\ key = NaN) \/ (nonneg pub /\ xmul pub pub =x= key)
  | TimesZ975 => pub =x= xmul (Fin Z975) key
  | TimesPopulation => pub =x= xmul key (Fin c)
  | TimesPopulationZ975 => pub =x= xmul (Fin (Z975 * c)) key
  end.

(* --- token streams for the correspondence check ---------------------------------------------------- *)
Definition r_reading (r : reading) : Z :=
  match r with SameValue => 0 | RootOf => 1 | TimesZ975 => 2 | TimesPopulation => 3
          | TimesPopulationZ975 => 4 end%Z.
Definition r_kwrow (r : kwrow) : list Z :=
  r_string (kw_name r) ++ r_string (kw_prop r) ++ r_string (kw_public r) ++ [r_reading (kw_reading r)].
Definition run_tables : list Z :=
  r_seq r_string measure_enum ++ r_seq r_kwrow matrix_table ++ r_seq r_kwrow strand_table
  ++ r_seq r_string marginal_enum ++ r_seq r_kwrow marginal_table.

Definition r_found (f : found) : list Z :=
  match f with
  | Err c => [c]
  | Ok None => [0%Z; 0%Z]
  | Ok (Some _) => [0%Z; 1%Z]
  end.

(* the order of one dimension + how the key was resolved + the segments of the value sort *)
Definition run_sorted (d : dimension) (o : order_req) (m : method) (f : found)
           (empties : list nat) (psub : bool) : list Z :=
  r_res r_zs (partition_order d o m f empties psub)
  ++ r_found f
  ++ match f with
     | Ok (Some (vals, svals)) =>
         if is_value_method m then run_sbv_segments d (o_spec o) vals svals empties else [0%Z]
     | _ => [0%Z]
     end.

(* the same in the 'ins_N' rendering *)
Definition partition_order_bogus (d : dimension) (o : order_req) (m : method) (f : found)
           (empties : list nat) (psub : bool) : res (list entry) :=
  bind (ordering_of o m f) (fun og => display_order_bogus d og empties psub).

(* an environment that knows one measure *)
Definition single_menv (p : string) (b : option mblocks) : menv :=
  fun q => if String.eqb q p then b else None.
Definition single_venv (p : string) (b : option vblocks) : venv :=
  fun q => if String.eqb q p then b else None.
Definition opposing_of (dopp : dimension) (is_array : bool) : opposing :=
  mkOpp (d_ids dopp) (map fst (subtotals dopp)) is_array.

Definition run_sorted_full (d : dimension) (o : order_req) (m : method) (f : found)
           (empties : list nat) (psub : bool) : list Z :=
  run_sorted d o m f empties psub
  ++ r_res (r_seq r_entry) (partition_order_bogus d o m f empties psub).

(* [drows] / [dcols]: the difference flags of the subtotals of the rows / columns dimension; [raw]: the
   measures before the population proportions look at them *)
Definition run_rows (d : dimension) (o : order_req) (opp : opposing) (drows dcols : list bool)
           (raw : menv) (marg : venv)
           (labels sublabels : list string) (empties : list nat) (psub : bool) : list Z :=
  let m := method_of PRows (o_type o) in
  run_sorted_full d o m
    (rows_values o opp (slice_measures drows dcols raw) marg labels sublabels m) empties psub.
Definition run_columns (d : dimension) (o : order_req) (opp : opposing) (drows dcols : list bool)
           (raw : menv)
           (labels sublabels : list string) (empties : list nat) (psub : bool) : list Z :=
  let m := method_of PColumns (o_type o) in
  run_sorted_full d o m
    (columns_values o opp (slice_measures drows dcols raw) labels sublabels m) empties psub.
Definition run_strand (d : dimension) (o : order_req) (diffs : list bool) (raw : venv)
           (labels sublabels : list string) (empties : list nat) : list Z :=
  let m := method_of PStrand (o_type o) in
  run_sorted_full d o m
    (strand_values o (strand_measures diffs raw) labels sublabels m) empties false.
