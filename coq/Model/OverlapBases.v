(* Model/OverlapBases.v -- which planes of the cube's `overlaps` / `valid_overlaps` measures feed the
   overlap-corrected pairwise test (property C13).  Source: src/cr/cube/matrix/cubemeasure.py
   _BaseCubeOverlaps.factory, _CatXMrOverlaps / _MrXMrOverlaps .selected_bases / .valid_bases.
   Executable; no proofs here.

   O, V: the tensors cube.overlaps / cube.valid_overlaps AFTER the cut by _slice_idx_expr
   ([overlap_slice]: the whole tensor of a 2-D cube; plane [k] of a 3-D cube; plane [k, 0] - the
   SELECTED part of table item k - when the table dimension is MR).
     CAT x MR   shape [ncat; ns; sel; ns]     (category, subvariable a, selection of a, subvariable b)
     MR x MR    shape [nr; sel; ns; sel; ns]  (row item, its selection, a, selection of a, b)
   selected_bases[r, a, b]: respondents who selected both a and b; valid_bases[r, a, b]: who answered
   both (selected or not).  For CAT x MR both are summed over ALL categories and are the same for
   every row r; for MR x MR they are per row item, summed over its selected and not-selected parts. *)
From Coq Require Import QArith List Arith.
From CC Require Import Base.XQ Base.ListX Model.CubeCounts.
Import ListNotations.
Local Close Scope Q_scope.
Local Open Scope nat_scope.

Definition overlap_slice (ndim : nat) (table_mr : bool) (k : nat) (T : tensor) : tensor :=
  slice_at ndim table_mr k T.

Section Bases.
  Variable O V : tensor.
  Variable ncat sel : nat.    (* number of categories (CAT x MR); length of a selection axis *)

  Definition cm_selected (r a b : nat) : xq := xsumn ncat (fun c => O [c; a; 0; b]).
  Definition cm_valid (r a b : nat) : xq :=
    xsumn ncat (fun c => xsumn (Nat.min 2 sel) (fun s => V [c; a; s; b])).

  Definition mm_selected (r a b : nat) : xq := xsumn (Nat.min 2 sel) (fun s => O [r; s; a; 0; b]).
  Definition mm_valid (r a b : nat) : xq :=
    xsumn (Nat.min 2 sel) (fun s => xsumn (Nat.min 2 sel) (fun s' => V [r; s; a; s'; b])).

  Definition selected_of (rows_mr : bool) (r a b : nat) : xq :=
    if rows_mr then mm_selected r a b else cm_selected r a b.
  Definition valid_of (rows_mr : bool) (r a b : nat) : xq :=
    if rows_mr then mm_valid r a b else cm_valid r a b.
End Bases.

(* the subvariable x subvariable matrices of row r, as the lists Model/Pairwise.v [ov_tblock] takes *)
Definition bases_mats (f : nat -> nat -> nat -> xq) (nrows ns : nat) : list (list (list xq)) :=
  tab nrows (fun r => tab2 ns ns (fun a b => f r a b)).
