(* Model/PairwiseP.v -- the p-values of the pairwise column tests (property C13) UP TO the
   cumulative distribution function.  Executable for any given [cdf]; no proofs here.
   Source: src/cr/cube/matrix/measure.py  _PairwiseSigPvals._p_vals, _PairwiseMeansSigPVals.p_vals,
   _PairwiseSignificaneBetweenSubvariablesHelper.p_vals:   2 * (1 - t.cdf(abs(t_stats), df=df)).

   Model/Pairwise.v carries every statistic t as its signed square tt = t*|t| (|tt| = t^2), so the
   CDF is taken as a function of the SQUARE of its (non-negative) first argument:
       cdf (t^2) df  stands for  scipy.stats.t.cdf(|t|, df)
   (for scipy's Student t this is what harness/props/c13.py [expected_p] evaluates:
    2 * (1 - t.cdf(sqrt(|tt|), df)) from the model's exact tt and df).  Every statement about a
   p-value is for ALL functions [cdf]. *)
From Coq Require Import QArith ZArith List Bool Arith.
From CC Require Import Base.XQ Base.ListX Model.Pairwise.
Import ListNotations.
Local Close Scope Q_scope.
Local Open Scope nat_scope.

(* two-sided p-value from the signed square tt of the statistic and the degrees of freedom *)
Definition pval_x (cdf : xq -> xq -> xq) (tt df : xq) : xq :=
  xmul (Fin 2) (xsub (Fin 1) (cdf (xabs tt) df)).

(* column-proportions test: TT the block of signed squares, N the block of bases, rn the bases of
   the selected column (one per row); df = n + n0 - 2 *)
Definition pw_pblock (cdf : xq -> xq -> xq) (TT N : mat) (rn : vec) : mat :=
  tab2 (nrows TT) (ncols TT)
       (fun i j => pval_x cdf (mnth TT i j) (t_df (mnth N i j) (vnth rn i))).

(* means (Welch): NaN against a selected subtotal column, like the statistic *)
Definition welch_pblock (cdf : xq -> xq -> xq) (sel : Z) (M S N : mat) : mat :=
  if (sel <? 0)%Z then tab2 (nrows M) (ncols M) (fun _ _ => NaN)
  else tab2 (nrows M) (ncols M)
            (fun i j => pval_x cdf (mnth (welch_tblock sel M S N) i j)
                                   (mnth (welch_dfblock sel S N) i j)).

(* overlapping MR columns: df - 2 degrees of freedom; the own column reports [ov_p_self] *)
Definition ov_pblock (cdf : xq -> xq -> xq) (a : nat) (CP : mat) (S N : list mat) : mat :=
  tab2 (nrows CP) (ncols CP)
       (fun i b => if b =? a then ov_p_self
                   else pval_x cdf (mnth (ov_tblock a CP S N) i b) (mnth (ov_dfblock a CP N) i b)).

(* a stand-in CDF with exact rational values, used by the correspondence leg of
   harness/props/c13.py that runs the implementation with scipy's t.cdf REPLACED by the same
   function: x^2 / (x^2 + df^2 + 1), as a function of x^2 *)
Definition cdf_probe (xx df : xq) : xq := xdiv xx (xadd (xadd xx (xmul df df)) (Fin 1)).
