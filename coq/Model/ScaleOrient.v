(* Model/ScaleOrient.v -- the scale statistics of a slice AS THE TWO ORIENTATIONS of
   src/cr/cube/matrix/measure.py compute them (property C10; Model/Scale.v is the per-vector
   reading used by C14).  Executable; definitions only (proofs: Proofs/TransposeScale.v).

     _BaseMarginal._apply_along_orientation      axis = 1 if orientation == ROWS else 0;
                                                 np.apply_along_axis(func1d, axis, arr)
     _BaseMarginal._counts                       ROWS:    column_comparable_counts.blocks [0][0], [1][0]
                                                 COLUMNS: row_comparable_counts.blocks    [0][0], [0][1]
     _BaseScaledCountMarginal._opposing_numeric_values
                                                 ROWS: dimensions[1], COLUMNS: dimensions[0]
     _ScaleMean._proportions / .blocks           ROWS:    weighted_counts / row_weighted_bases    [0][0], [1][0]
                                                 COLUMNS: weighted_counts / column_weighted_bases [0][0], [0][1]
     _ScaleMeanStddev._rows_weighted_mean_stddev / _columns_weighted_mean_stddev
                                                 (two separately written functions)
     _ScaleMeanStderr.blocks                     stddev / sqrt(rows_weighted_base | columns_weighted_base)
     _MarginWeightedBase.blocks                  ROWS: row bases [:, 0]; COLUMNS: column bases [0, :]
     _ScaleMedian._sorted_counts / .blocks       count.take(order, axis) ; apply along the axis
     cubepart.py rows_/columns_scale_mean_margin, rows_/columns_scale_median_margin

   A ROWS-orientation block function returns one statistic per ROW of an n x m block (m = number
   of base columns = length of the columns dimension's numeric values); a COLUMNS-orientation
   block function one statistic per COLUMN of an n x m block (n = number of base rows = length of
   the rows dimension's numeric values).  A measure is a pair of such vectors - base vectors and
   subtotal vectors - or None when `is_defined` is False.

   The static helpers `_weighted_mean` and `_weighted_median` are ONE piece of code called by both
   orientations: they are [wmean] and [weighted_median] of Model/Scale.v.  Square roots are not
   modelled: std-dev and std-err are given by their squares ([sqrt_arg]: np.sqrt of a negative
   number is NaN). *)
From Coq Require Import QArith ZArith List Bool Lia Arith.
From CC Require Import Base.XQ Base.ListX Model.Subtotals Model.Proportions Model.Scale.
Import ListNotations.
Local Close Scope Q_scope.
Local Open Scope nat_scope.

(* ~np.isnan(values) as the list of the True positions *)
Definition valued_pos (vals : list xq) : list nat := valued_idxs vals.

(* ------------------------------------------------------------------------------------------ *)
(** * orientation == MO.ROWS : a block of n vectors (rows) over m base columns *)
Section Rows.
  Variables n m : nat.
  Variable vals : list xq.                 (* dimensions[1].numeric_values, NaN = no value *)

  (* `_ScaleMean._proportions`: count block / row-weighted-base block, cell by cell *)
  Definition rows_props (counts rbases : mat) : mat :=
    tab2 n m (fun i j => xdiv (mnth counts i j) (mnth rbases i j)).

  (* np.apply_along_axis(_weighted_mean, 1, proportions, values=...) *)
  Definition rows_mean_block (counts rbases : mat) : list xq :=
    tab n (fun i => wmean (mrow (rows_props counts rbases) i) vals).

  (* `_rows_weighted_mean_stddev(counts, values, scale_mean)` before the square root:
       numerator   = counts[:, valued] * (values[valued] - scale_mean.reshape(-1, 1)) ** 2
       denominator = np.sum(counts[:, valued], axis=1)
       variance    = np.nansum(numerator, axis=1) / denominator                              *)
  Definition rows_var_block (ccounts : mat) (means : list xq) : list xq :=
    tab n (fun i =>
      sqrt_arg (xdiv (nansum (map (fun j => xmul (mnth ccounts i j)
                                                 (xsq (xsub (vnth vals j) (vnth means i))))
                                  (valued_pos vals)))
                     (xsum (map (fun j => mnth ccounts i j) (valued_pos vals))))).

  (* `_ScaleMeanStderr.blocks`: stddev / sqrt(margin), margin = row-weighted-base block [:, 0] *)
  Definition rows_stderr_block (vars : list xq) (rbases : mat) : list xq :=
    tab n (fun i => xdiv (vnth vars i) (sqrt_arg (mnth rbases i 0))).

  (* `_ScaleMedian`: count.take(order, axis=1), then _weighted_median along axis 1 *)
  Definition rows_median_block (ord : list nat) (ccounts : mat) : list xq :=
    tab n (fun i => weighted_median (map (fun j => mnth ccounts i j) ord)
                                    (map (fun j => nan_to_num (vnth vals j)) ord)).
End Rows.

(* ------------------------------------------------------------------------------------------ *)
(** * orientation == MO.COLUMNS : a block of m vectors (columns) over n base rows *)
Section Columns.
  Variables n m : nat.
  Variable vals : list xq.                 (* dimensions[0].numeric_values *)

  (* `_ScaleMean._proportions`: count block / column-weighted-base block *)
  Definition columns_props (counts cbases : mat) : mat :=
    tab2 n m (fun i j => xdiv (mnth counts i j) (mnth cbases i j)).

  (* np.apply_along_axis(_weighted_mean, 0, proportions, values=...) *)
  Definition columns_mean_block (counts cbases : mat) : list xq :=
    tab m (fun j => wmean (mcol (columns_props counts cbases) j) vals).

  (* `_columns_weighted_mean_stddev(counts, values, scale_mean)` before the square root:
       numerator   = counts[valued, :] * ((values[valued] - scale_mean.reshape(-1, 1)) ** 2).T
       denominator = np.sum(counts[valued, :], axis=0)
       variance    = np.nansum(numerator, axis=0) / denominator                              *)
  Definition columns_var_block (ccounts : mat) (means : list xq) : list xq :=
    tab m (fun j =>
      sqrt_arg (xdiv (nansum (map (fun i => xmul (mnth ccounts i j)
                                                 (xsq (xsub (vnth vals i) (vnth means j))))
                                  (valued_pos vals)))
                     (xsum (map (fun i => mnth ccounts i j) (valued_pos vals))))).

  (* margin = column-weighted-base block [0, :] *)
  Definition columns_stderr_block (vars : list xq) (cbases : mat) : list xq :=
    tab m (fun j => xdiv (vnth vars j) (sqrt_arg (mnth cbases 0 j))).

  (* count.take(order, axis=0), then _weighted_median along axis 0 *)
  Definition columns_median_block (ord : list nat) (ccounts : mat) : list xq :=
    tab m (fun j => weighted_median (map (fun i => mnth ccounts i j) ord)
                                    (map (fun i => nan_to_num (vnth vals i)) ord)).
End Columns.

(* ------------------------------------------------------------------------------------------ *)
(** * the measures of a slice: (base vectors, subtotal vectors), None = `is_defined` is False *)
Definition marginal : Type := option (list xq * list xq).

Section Slice.
  Variables nr nc : nat.
  Variables rsubs csubs : list subtotal.
  Variable counts : mat.          (* weighted counts, base block nr x nc *)
  Variable dn : bool.             (* the response carries valid counts (weighted_counts.blocks) *)
  Let nrs := length rsubs.
  Let ncs := length csubs.

  Let C := count_blocks nr nc rsubs csubs counts dn.
  (* _ColumnComparableCounts: SumSubtotals.blocks(counts, dimensions, diff_rows_nan=True) *)
  Definition column_comparable_counts : blocks := sum_blocks counts nr nc rsubs csubs false true.
  (* _RowComparableCounts: SumSubtotals.blocks(counts, dimensions, diff_cols_nan=True) *)
  Definition row_comparable_counts : blocks := sum_blocks counts nr nc rsubs csubs true false.

  (* ---- ROWS: [rb] per-cell row weighted bases, [cvals] numeric values of the COLUMNS dimension,
          [mdef]: rows_weighted_base is defined (the columns dimension is not an array) ---- *)
  Section RowsMeasures.
    Variable rb : mat.
    Variable cvals : list xq.
    Variable mdef : bool.
    Let RB := row_base_blocks nr nc rsubs csubs rb.
    Let CC := column_comparable_counts.

    Definition rows_scale_mean_blocks : list xq * list xq :=
      (rows_mean_block nr nc cvals (b_base C) (b_base RB),
       rows_mean_block nrs nc cvals (b_rows C) (b_rows RB)).
    Definition rows_scale_mean : marginal :=
      if any_value cvals then Some rows_scale_mean_blocks else None.

    Definition rows_scale_var_blocks : list xq * list xq :=
      (rows_var_block nr cvals (b_base CC) (fst rows_scale_mean_blocks),
       rows_var_block nrs cvals (b_rows CC) (snd rows_scale_mean_blocks)).
    (* rows_scale_mean_stddev, squared *)
    Definition rows_scale_stddev_sq : marginal :=
      if any_value cvals then Some rows_scale_var_blocks else None.

    (* rows_scale_mean_stderr, squared: defined when the std-dev and the margin are *)
    Definition rows_scale_stderr_sq : marginal :=
      if any_value cvals && mdef
      then Some (rows_stderr_block nr (fst rows_scale_var_blocks) (b_base RB),
                 rows_stderr_block nrs (snd rows_scale_var_blocks) (b_rows RB))
      else None.

    Definition rows_scale_median (ord : list nat) : marginal :=
      if any_value cvals
      then Some (rows_median_block nr cvals ord (b_base CC), rows_median_block nrs cvals ord (b_rows CC))
      else None.
  End RowsMeasures.

  (* ---- COLUMNS: [cb] per-cell column weighted bases, [rvals] numeric values of the ROWS dimension,
          [mdef]: columns_weighted_base is defined (the rows dimension is not an array) ---- *)
  Section ColumnsMeasures.
    Variable cb : mat.
    Variable rvals : list xq.
    Variable mdef : bool.
    Let CB := col_base_blocks nr nc rsubs csubs cb.
    Let RC := row_comparable_counts.

    Definition columns_scale_mean_blocks : list xq * list xq :=
      (columns_mean_block nr nc rvals (b_base C) (b_base CB),
       columns_mean_block nr ncs rvals (b_cols C) (b_cols CB)).
    Definition columns_scale_mean : marginal :=
      if any_value rvals then Some columns_scale_mean_blocks else None.

    Definition columns_scale_var_blocks : list xq * list xq :=
      (columns_var_block nc rvals (b_base RC) (fst columns_scale_mean_blocks),
       columns_var_block ncs rvals (b_cols RC) (snd columns_scale_mean_blocks)).
    Definition columns_scale_stddev_sq : marginal :=
      if any_value rvals then Some columns_scale_var_blocks else None.

    Definition columns_scale_stderr_sq : marginal :=
      if any_value rvals && mdef
      then Some (columns_stderr_block nc (fst columns_scale_var_blocks) (b_base CB),
                 columns_stderr_block ncs (snd columns_scale_var_blocks) (b_cols CB))
      else None.

    Definition columns_scale_median (ord : list nat) : marginal :=
      if any_value rvals
      then Some (columns_median_block nc rvals ord (b_base RC), columns_median_block ncs rvals ord (b_cols RC))
      else None.
  End ColumnsMeasures.
End Slice.

(* ------------------------------------------------------------------------------------------ *)
(** * the two margin scalars of cubepart.py *)
(* rows_scale_mean_margin: the COLUMNS dimension's values against
   column_weighted_bases.blocks[0][0][0, :] (the first row of the per-cell column bases) *)
Definition rows_scale_mean_margin (cb : mat) (cvals : list xq) : option xq :=
  if any_value cvals then Some (scale_mean_margin (mrow cb 0) cvals) else None.
(* columns_scale_mean_margin: the ROWS dimension's values against
   row_weighted_bases.blocks[0][0][:, 0] (the first column of the per-cell row bases) *)
Definition columns_scale_mean_margin (rb : mat) (rvals : list xq) : option xq :=
  if any_value rvals then Some (scale_mean_margin (mcol rb 0) rvals) else None.

Definition rows_scale_median_margin (cb : mat) (cvals : list xq) : option xq :=
  if any_value cvals then scale_median_margin (mrow cb 0) cvals else None.
Definition columns_scale_median_margin (rb : mat) (rvals : list xq) : option xq :=
  if any_value rvals then scale_median_margin (mcol rb 0) rvals else None.
