(* Model of the residual z-scores of src/cr/cube/matrix/measure.py
   (_Zscores._calculate_zscores, _Zscores._is_defective) - property C12.
   Executable; no proofs here.

   The code computes, block by block (base values, subtotal columns, subtotal rows,
   intersections), from that block's weighted counts c and its table / row / column
   weighted bases t, r, k (all 2-D arrays of the block's shape):

       if is_defective:                              all NaN
       if all(t == r) or all(t == k):                all NaN
       expected = r * k / t
       variance = r * k * (t - r) * (t - k) / t**3
       z        = (c - expected) / sqrt(variance)

   where is_defective looks at the BASE block of the weighted counts only:
       not all(counts.shape)  or  matrix_rank(counts) < 2.

   Square roots are not modelled: the model returns  z * |z|  (the signed square of z),
   from which both z^2 and the sign of z are read. *)
From Coq Require Import QArith Qabs ZArith List Bool Lia Arith.
From CC Require Import Base.XQ Base.ListX.
Import ListNotations.
Local Close Scope Q_scope.
Local Open Scope nat_scope.

(* ---- one cell ----------------------------------------------------------------------- *)
Definition z_expected (r k t : xq) : xq := xdiv (xmul r k) t.

Definition z_variance (r k t : xq) : xq :=
  xdiv (xmul (xmul (xmul r k) (xsub t r)) (xsub t k)) (xmul (xmul t t) t).

Definition z_resid (c r k t : xq) : xq := xsub c (z_expected r k t).

(* z*|z| where z = resid / sqrt(variance):  np.sqrt of a negative number (or -inf) is NaN;
   sqrt(0) = 0 gives +-inf (or NaN for 0/0); sqrt(+inf) = +inf gives 0. *)
Definition z_zabs (c r k t : xq) : xq :=
  let d := z_resid c r k t in
  let v := z_variance r k t in
  if xltb v (Fin 0) then NaN else xdiv (xmul d (xabs d)) v.

(* z squared and the sign of z, as read off z*|z| *)
Definition z_sq (c r k t : xq) : xq := xabs (z_zabs c r k t).
Definition z_sgn (c r k t : xq) : option Z := xsgn (z_zabs c r k t).

(* ---- the rank test -------------------------------------------------------------------
   matrix_rank(counts) < 2 is modelled EXACTLY over the rationals: a matrix has rank < 2
   iff every 2x2 minor vanishes (Proofs/ZscoreRank.v: iff all rows are multiples of one
   vector).  numpy uses an SVD with a relative tolerance; the correspondence generator only
   produces tables that are exactly rank-deficient or clearly of rank >= 2 (assumption
   recorded in the evidence). *)
Definition minor (m : mat) (i i' j j' : nat) : xq :=
  xsub (xmul (mnth m i j) (mnth m i' j')) (xmul (mnth m i j') (mnth m i' j)).

Definition rank_lt2 (m : mat) : bool :=
  let nr := nrows m in
  let nc := ncols m in
  forallb (fun i => forallb (fun i' => forallb (fun j => forallb (fun j' =>
    xeqb (minor m i i' j j') (Fin 0)) (seq 0 nc)) (seq 0 nc)) (seq 0 nr)) (seq 0 nr).

(* `not np.all(counts.shape) or np.linalg.matrix_rank(counts) < 2` *)
Definition defective (base_counts : mat) : bool :=
  (nrows base_counts =? 0) || (ncols base_counts =? 0) || rank_lt2 base_counts.

(* ---- one block ------------------------------------------------------------------------ *)
(* np.all(a == b) over the block (NaN == NaN is False; an empty block gives True) *)
Definition mall_eq (a b : mat) : bool :=
  forallb (fun i => forallb (fun j => xeqb (mnth a i j) (mnth b i j)) (seq 0 (ncols a)))
          (seq 0 (nrows a)).

Definition nan_like (c : mat) : mat := tab2 (nrows c) (ncols c) (fun _ _ => NaN).

Definition zblock (dfct : bool) (c t r k : mat) : mat :=
  if dfct then nan_like c
  else if mall_eq t r || mall_eq t k then nan_like c
  else tab2 (nrows c) (ncols c)
         (fun i j => z_zabs (mnth c i j) (mnth r i j) (mnth k i j) (mnth t i j)).

(* The measure: the four blocks, each from its own counts and bases; `defective` always
   from the base block of the counts. *)
Definition zscores_block (base_counts c t r k : mat) : mat :=
  zblock (defective base_counts) c t r k.
