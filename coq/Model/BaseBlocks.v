(* Model/BaseBlocks.v -- the blocks of the BASE measures and of the MARGINALS of a slice, and the
   subtotal values of a strand's bases, as matrix/measure.py and stripe/measure.py build them
   (C02).  Executable definitions only; what they MEAN is Proofs/BaseBlocksProofs.v, that the
   source text denotes them is Proofs/GenAgreeBaseBlocks.v / GenAgreeMargins.v (Gen/BasesSrc.v).

   The four blocks of _RowWeightedBases / _ColumnWeightedBases / _ColumnSquaredBases /
   _TableWeightedBases / _TableUnweightedBases are Model/Proportions.v's [row_base_blocks],
   [col_base_blocks], [table_base_blocks] (the definitions the theorems of C03 / C11 / C04 / C10
   already use).  New here:

   * the UNWEIGHTED row / column bases read the repeated margin from the cube measure's 1-D
     `rows_base` / `columns_base` instead of from the first column / row of the 2-D base:
     [row_ubase_blocks], [col_ubase_blocks];
   * the marginals are a column / row of the blocks of a 2-D measure: [rows_margin_blocks],
     [cols_margin_blocks]; _MarginTableBase repeats its first base value: [margin_table_blocks];
     _MarginTableProportion divides the summed count blocks by it: [rows_table_prop_blocks],
     [cols_table_prop_blocks];
   * a strand's base subtotals repeat the scalar table base: [strand_base_subtotals];
   * [r_base_blocks] .. [r_strand_base_subtotals]: token streams for harness/props/c02.py (the
     base blocks are inputs, as the implementation reports them). *)
From Coq Require Import QArith ZArith List Bool Lia Arith.
From CC Require Import Base.XQ Base.ListX Base.Render Model.Subtotals Model.Proportions.
Import ListNotations.
Local Close Scope Q_scope.
Local Open Scope nat_scope.

Section Blocks.
  Variable nr nc : nat.
  Variable rsubs csubs : list subtotal.
  Let nrs := length rsubs.
  Let ncs := length csubs.
  Let rsub k := nth k rsubs nosub.
  Let csub l := nth l csubs nosub.

  (* _RowUnweightedBases: subtotal columns repeat unweighted_cube_counts.rows_base *)
  Definition row_ubase_blocks (rb : mat) (rows_base : list xq) : blocks :=
    {| b_base := rb;
       b_cols := tab2 nr ncs (fun i _ => vnth rows_base i);
       b_rows := tab2 nrs nc (fun k j => subrow_cell rb true (rsub k) j);
       b_inter := tab2 nrs ncs (fun k _ => subrow_cell rb true (rsub k) 0) |}.

  (* _ColumnUnweightedBases: subtotal rows repeat unweighted_cube_counts.columns_base *)
  Definition col_ubase_blocks (cb : mat) (columns_base : list xq) : blocks :=
    {| b_base := cb;
       b_cols := tab2 nr ncs (fun i l => subcol_cell cb true (csub l) i);
       b_rows := tab2 nrs nc (fun _ j => vnth columns_base j);
       b_inter := tab2 nrs ncs (fun _ l => subcol_cell cb true (csub l) 0) |}.

  (* _MarginWeightedBase / _MarginUnweightedBase (ROWS): column 0 of the base block and of the
     subtotal rows of the 2-D row bases; (COLUMNS), and _MarginSquaredBase: row 0 of the base block
     and of the subtotal columns of the 2-D column bases.  (base values, subtotal values) *)
  Definition rows_margin_blocks (B : blocks) : list xq * list xq :=
    (tab nr (fun i => mnth (b_base B) i 0), tab nrs (fun k => mnth (b_rows B) k 0)).
  Definition cols_margin_blocks (B : blocks) : list xq * list xq :=
    (tab nc (fun j => mnth (b_base B) 0 j), tab ncs (fun l => mnth (b_cols B) 0 l)).

  (* _MarginTableBase: the cube measure's 1-D table base and its first value repeated for the
     [n] subtotals of the orientation *)
  Definition margin_table_blocks (tbase : list xq) (n : nat) : list xq * list xq :=
    (tbase, tab n (fun _ => vnth tbase 0)).

  (* _MarginTableProportion: the count blocks summed along the orientation over the margin table
     base (the COUNT blocks, so that a difference subtotal keeps its value) *)
  Definition rows_table_prop_blocks (C : blocks) (den : list xq * list xq) : list xq * list xq :=
    (tab nr (fun i => xdiv (xsum (tab nc (fun j => mnth (b_base C) i j))) (vnth (fst den) i)),
     tab nrs (fun k => xdiv (xsum (tab nc (fun j => mnth (b_rows C) k j))) (vnth (snd den) k))).
  Definition cols_table_prop_blocks (C : blocks) (den : list xq * list xq) : list xq * list xq :=
    (tab nc (fun j => xdiv (xsum (tab nr (fun i => mnth (b_base C) i j))) (vnth (fst den) j)),
     tab ncs (fun l => xdiv (xsum (tab nr (fun i => mnth (b_cols C) i l))) (vnth (snd den) l))).
End Blocks.

(* stripe/measure.py _UnweightedBases / _WeightedBases: every subtotal has the scalar table base *)
Definition strand_base_subtotals (table_base : xq) (subs : list subtotal) : list xq :=
  tab (length subs) (fun _ => table_base).

(* ---- token streams (harness/props/c02.py, leg (e)) ------------------------------------- *)
Definition r_ins3 (b : blocks) : list Z := r_mat (b_cols b) ++ r_mat (b_rows b) ++ r_mat (b_inter b).
Definition r_vpair (p : list xq * list xq) : list Z := r_vec (fst p) ++ r_vec (snd p).
Definition mk_sub (p : list nat * list nat) : subtotal := mkSub (fst p) (snd p).

(* the insertion blocks of the three base measures of one weighting, from the base blocks the
   implementation reports, + the subtotal parts of the two margins (taken from the blocks) *)
Definition r_base_blocks (nr nc : nat) (rs cs : list (list nat * list nat)) (rb cb tb : mat) : list Z :=
  let rsubs := map mk_sub rs in
  let csubs := map mk_sub cs in
  let RB := row_base_blocks nr nc rsubs csubs rb in
  let CB := col_base_blocks nr nc rsubs csubs cb in
  let TB := table_base_blocks nr nc rsubs csubs tb in
  r_ins3 RB ++ r_ins3 CB ++ r_ins3 TB
  ++ r_vec (snd (rows_margin_blocks nr rsubs RB)) ++ r_vec (snd (cols_margin_blocks nc csubs CB)).

Definition r_strand_base_subtotals (bases : list xq) (rs : list (list nat * list nat)) : list Z :=
  r_vec (strand_base_subtotals (vnth bases 0) (map mk_sub rs)).

(* ---- C01, leg "pass-through with insertions" (harness/props/c01.py) ----------------------- *)
(* the insertion blocks of a pass-through measure from the base block the implementation reports:
   kind 0 = NanSubtotals (means, medians, stddev), 1 = sums (SumSubtotals, NaN differences in both
   directions), 2 = counts (SumSubtotals with the cube measure's diff_nans flag [dn]) *)
Definition r_pass_blocks (kind : nat) (dn : bool) (nr nc : nat) (rs cs : list (list nat * list nat))
           (base : mat) : list Z :=
  let rsubs := map mk_sub rs in
  let csubs := map mk_sub cs in
  r_ins3 (match kind with
          | 0 => nan_blocks base nr nc rsubs csubs
          | 1 => sum_blocks base nr nc rsubs csubs true true
          | _ => count_blocks nr nc rsubs csubs base dn
          end).
Definition r_pass_strand (kind : nat) (v : list xq) (rs : list (list nat * list nat)) : list Z :=
  r_vec (match kind with
         | 0 => map (fun _ => NaN) rs
         | _ => stripe_sum_subtotals v (map mk_sub rs)
         end).
