(* Model of src/cr/cube/smoothing.py (_SingleSidedMovingAvgSmoother) and of the
   "window" parsing of the smoother transform.  Executable; no proofs here. *)
From Coq Require Import QArith ZArith List Bool Lia Arith.
From CC Require Import Base.XQ Base.ListX.
Import ListNotations.
Local Close Scope Q_scope.
Local Open Scope nat_scope.

(* `smoothing_dict.get("window")`: absent / null is None, otherwise an integer.
   [window_of] is what the smoother uses: the documented default is 2 when the window
   is unspecified. *)
Definition window_of (raw : option Z) : Z :=
  match raw with None => 2%Z | Some w => w end.

(* `_can_smooth`: non-empty values, categorical-date dimension, 2 <= w <= n periods *)
Definition can_smooth (is_cat_date : bool) (w : Z) (size periods : nat) : bool :=
  negb (size =? 0) && is_cat_date && (w <=? Z.of_nat periods)%Z && (2 <=? w)%Z.

(* trailing moving average of one series, window w (as nat, 2 <= w <= n) *)
Definition window_mean (w : nat) (v : list xq) (t : nat) : xq :=
  xdiv (xsum (slice (t + 1 - w) w v)) (xofnat w).

Definition smooth_row (w : nat) (v : list xq) : list xq :=
  tab (length v) (fun t => if t + 1 <? w then NaN else window_mean w v t).

(* 1-D values (strand) *)
Definition smooth1 (is_cat_date : bool) (raw : option Z) (v : list xq) : list xq :=
  let w := window_of raw in
  if can_smooth is_cat_date w (length v) (length v) then smooth_row (Z.to_nat w) v else v.

(* 2-D values (slice): every row independently; periods = number of columns *)
Definition msize (m : list (list xq)) : nat := length (concat m).
Definition smooth2 (is_cat_date : bool) (raw : option Z) (m : list (list xq))
  : list (list xq) :=
  let w := window_of raw in
  if can_smooth is_cat_date w (msize m) (ncols m) then map (smooth_row (Z.to_nat w)) m else m.
