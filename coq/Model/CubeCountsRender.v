(* Model/CubeCountsRender.v -- token streams of the outputs of Model/CubeCounts.v for the
   correspondence checks C01 / C02 / C16 (decoded by harness/props/cube_util.py). *)
From Coq Require Import QArith ZArith List Bool.
From CC Require Import Base.XQ Base.ListX Base.Render Spec.Survey Model.CubeCounts.
Import ListNotations.
Open Scope Z_scope.

Definition r_range (r : xq * xq) : list Z := r_xq (fst r) ++ r_xq (snd r).

Definition r_masks (m : list (list xq)) (size : xq) : list Z :=
  r_list (r_list (fun b => r_bool (mask_cell b size))) m.

Definition r_slice_out (size : xq) (so : slice_out) : list Z :=
  r_mat (so_counts so) ++ r_mat (so_row_bases so) ++ r_mat (so_column_bases so)
  ++ r_mat (so_table_bases so)
  ++ r_opt r_vec (so_rows_base so) ++ r_opt r_vec (so_columns_base so)
  ++ r_opt r_vec (so_rows_table_base so) ++ r_opt r_vec (so_columns_table_base so)
  ++ r_opt r_xq (so_table_base so) ++ r_range (so_range so)
  ++ r_masks (so_row_bases so) size ++ r_masks (so_column_bases so) size
  ++ r_masks (so_table_bases so) size.

(* every partition of a 2-D / 3-D cube: weighted, unweighted, column index *)
Definition r_cube_slices (ds : list dimd) (p : payload) (size : xq) : list Z :=
  r_list (fun k =>
            r_opt (r_slice_out size) (slice_counts ds (weighted_counts_payload p) k)
            ++ r_opt (r_slice_out size) (slice_counts ds (unweighted_counts_payload p) k)
            ++ r_opt r_mat (slice_column_index ds (weighted_counts_payload p) (cwm_payload p) k))
         (seq 0 (n_partitions ds false)).

Definition r_strand_out (size : xq) (st : strand_out) : list Z :=
  r_vec (st_counts st) ++ r_vec (st_bases st) ++ r_opt r_xq (st_table_base st)
  ++ r_range (st_range st) ++ r_list (fun b => r_bool (mask_cell b size)) (st_bases st).

Definition r_cube_strands (ds : list dimd) (p : payload) (ca0 : bool) (size : xq) : list Z :=
  r_list (fun k =>
            r_opt (r_strand_out size) (strand_counts ds (weighted_counts_payload p) ca0 k)
            ++ r_opt (r_strand_out size) (strand_counts ds (unweighted_counts_payload p) ca0 k))
         (seq 0 (n_partitions ds ca0)).

Definition r_passthrough_slices (ds : list dimd) (data : list xq) : list Z :=
  r_list (fun k => r_opt r_mat (slice_passthrough ds data k)) (seq 0 (n_partitions ds false)).

(* strand numeric measure: cube.means (valid), selected plane for MR; NOT sliced for CA-as-0th *)
Definition strand_passthrough (ds : list dimd) (data : list xq) : option (list xq) :=
  match split_last (rev ds) with
  | None => None
  | Some (r, _, _, _) =>
      let V := take_valid_ord ds (of_flat (raw_shape ds) data) in
      Some (tab (nvalid r) (fun i => if is_mr r then V [i; 0%nat] else V [i]))
  end.

(* the tensor of a survey, flat (to compare with the JSON payload the generator emits) *)
Definition r_tabulate (shape : list nat) (vars : cubevars) (S : survey) : list Z :=
  r_vec (flatten shape (fun idx => Fin (tabulate vars S idx))).

(* Cube.counts / Cube.unweighted_counts / Cube.means: the whole valid tensor, flat *)
Definition r_valid_tensor (ds : list dimd) (data : list xq) : list Z :=
  r_vec (flatten (map nvalid ds) (take_valid_ord ds (of_flat (raw_shape ds) data))).

Definition r_pubval (p : pubval) : list Z :=
  match p with
  | PScalar x => 0 :: r_xq x
  | PVector v => 1 :: r_vec v
  | PMatrix m => 2 :: r_mat m
  end.
Definition r_public (so : slice_out) : list Z :=
  r_pubval (public_rows_margin so) ++ r_pubval (public_columns_margin so)
  ++ r_pubval (public_table_base so).
Definition r_cube_public (ds : list dimd) (p : payload) : list Z :=
  r_list (fun k =>
            r_opt r_public (slice_counts ds (weighted_counts_payload p) k)
            ++ r_opt r_public (slice_counts ds (unweighted_counts_payload p) k))
         (seq 0 (n_partitions ds false)).
