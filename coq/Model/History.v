(* Model of access histories (property C18): caller-owned argument objects (transforms dicts,
   responses) shared by several cubes + per-object lazy caches (src/cr/cube/util.py lazyproperty).

   REPAIRED code (commits 51c19c01, 3e9f35f8, 502c5e20, 537d2a70): the library no longer edits the
   caller's transforms dicts nor the caller's responses.  The translation of a dimension's
   transforms (shimmed_dimension_transforms_dict), Cube.inflate and Cube.augment_response each build
   an object of their OWN that shares what they do not change.  The one in-place edit that stays is
   the annotation of the response's dimension dicts with "subvar_alias" / "datetime_value" keys
   (Model/Shim.v shim_dim_dict): it is idempotent and no result depends on whether it was made.

   The idempotence theorems of the translation itself (shim (shim t) = shim t: Proofs/ShimSlots.v
   shim_xf_idem_full / shim_xf_fixed, replaced_elements_idem; augment_idem in Proofs/HistorySets.v)
   are kept: they are still true of shim_xf / augment as FUNCTIONS and they are what made the former
   in-place design work for the histories it did work for (same dict with the same dimension, same
   CubeSet again); the purity theorems below no longer rest on them.

   The state of the model still carries the caller-owned objects, so that "they are the pristine
   ones after ANY history" is a theorem about the model (Proofs/HistoryProofs.v dicts_unchanged,
   Proofs/HistoryArray.v rrun_state_unchanged, Proofs/HistorySets.v a_run_state_unchanged) which
   harness/props/c18.py checks on the implementation by deep equality with pristine copies.

   Part 1 (generic): objects (a Dimension built by Dimension.apply_transforms for a partition,
   src/cr/cube/cubepart.py::_dimensions) reference caller-owned transforms dicts.  The first read of
   an object translates the content of the caller's dict into a dict of the object's own
   (lazyproperty Dimension._dimension_transforms_dict, cached on the object: [o_shim]); the value of
   a property is computed from that dict and cached on the object unless it is None ([cacheable]);
   an exception caches nothing and changes nothing.

   Part 2: CubeSet inflation (src/cr/cube/cube.py::Cube.inflate) and the three ways of passing a
   response (JSON text, dict, {"value": ...} envelope).

   Part 3: Cube.augment_response.

   Executable; definitions only (proofs: Proofs/History*.v). *)
From Coq Require Import ZArith List Bool Lia Arith String.
From CC Require Import Base.Ident Model.Shim.
Import ListNotations.
Local Open Scope nat_scope.

Section Generic.
  Variables D X P V : Type.
  (* the translation: the dict the dimension uses (an object of its own), exception if any *)
  Variable shim : D -> X -> X * option exn.
  Variable cons : D -> X -> P -> V.              (* value of property p computed from that dict *)
  Variable P_eqb : P -> P -> bool.
  Variable cacheable : V -> bool.                (* lazyproperty never caches None *)

  Record obj : Type := mk_obj {
    o_dim : D;                 (* the dimension it was built for *)
    o_dict : nat;              (* which caller-owned dict it references *)
    o_shim : option X;         (* _dimension_transforms_dict once evaluated (cached on the object) *)
    o_cache : list (P * V) }.  (* instance __dict__ *)

  Record state : Type := mk_state {
    s_dicts : nat -> X;        (* content of the caller-owned dicts (no step writes it) *)
    s_objs : list obj }.

  Inductive op : Type :=
  | New (d : D) (i : nat)      (* build a partition/dimension object on dict i *)
  | Read (o : nat) (p : P).    (* read property p of object o *)

  Fixpoint assoc (p : P) (l : list (P * V)) : option V :=
    match l with
    | [] => None
    | (q, v) :: t => if P_eqb p q then Some v else assoc p t
    end.

  Fixpoint set_nth {A} (n : nat) (a : A) (l : list A) : list A :=
    match l, n with
    | [], _ => []
    | _ :: t, 0 => a :: t
    | b :: t, S m => b :: set_nth m a t
    end.

  (* Dimension._dimension_transforms_dict: translate the caller's dict into a dict of the object's
     own, once; the caller's dict is only read *)
  Definition get_shim (s : state) (ob : obj) : obj * res X :=
    match o_shim ob with
    | Some t' => (ob, Ok t')
    | None =>
      match shim (o_dim ob) (s_dicts s (o_dict ob)) with
      | (t', None) => (mk_obj (o_dim ob) (o_dict ob) (Some t') (o_cache ob), Ok t')
      | (_, Some ex) => (ob, Raise ex)
      end
    end.

  Definition read (s : state) (o : nat) (p : P) : state * res V :=
    match nth_error (s_objs s) o with
    | None => (s, Raise ValueErr)            (* no such object (ill-formed history) *)
    | Some ob =>
      match assoc p (o_cache ob) with
      | Some v => (s, Ok v)
      | None =>
        match get_shim s ob with
        | (_, Raise ex) => (s, Raise ex)
        | (ob1, Ok t') =>
          let v := cons (o_dim ob1) t' p in
          let ob2 := if cacheable v
                     then mk_obj (o_dim ob1) (o_dict ob1) (o_shim ob1) ((p, v) :: o_cache ob1)
                     else ob1 in
          (mk_state (s_dicts s) (set_nth o ob2 (s_objs s)), Ok v)
        end
      end
    end.

  Definition step (sr : state * list (res V)) (x : op) : state * list (res V) :=
    let (s, rs) := sr in
    match x with
    | New d i => (mk_state (s_dicts s) (s_objs s ++ [mk_obj d i None []]), rs)
    | Read o p => let (s', r) := read s o p in (s', rs ++ [r])
    end.

  Definition init (ts : nat -> X) : state := mk_state ts [].
  Definition final (ts : nat -> X) (ops : list op) : state := fst (fold_left step ops (init ts, [])).
  (* all read results of a history, in order *)
  Definition run (ts : nat -> X) (ops : list op) : list (res V) :=
    snd (fold_left step ops (init ts, [])).

  (* ---- the reference: every read evaluated on pristine copies of the arguments ---- *)
  Definition fresh (d : D) (t0 : X) (p : P) : res V :=
    match shim d t0 with
    | (t', None) => Ok (cons d t' p)
    | (_, Some ex) => Raise ex
    end.

  Definition pstep (ts : nat -> X) (ar : list (D * nat) * list (res V)) (x : op)
    : list (D * nat) * list (res V) :=
    let (objs, rs) := ar in
    match x with
    | New d i => (objs ++ [(d, i)], rs)
    | Read o p => match nth_error objs o with
                  | Some (d, i) => (objs, rs ++ [fresh d (ts i) p])
                  | None => (objs, rs ++ [Raise ValueErr])
                  end
    end.
  Definition run_pristine (ts : nat -> X) (ops : list op) : list (res V) :=
    snd (fold_left (pstep ts) ops ([], [])).
End Generic.

Arguments mk_obj {D X P V}.
Arguments o_dim {D X P V}. Arguments o_dict {D X P V}. Arguments o_shim {D X P V}. Arguments o_cache {D X P V}.
Arguments s_dicts {D X P V}. Arguments s_objs {D X P V}.
Arguments mk_state {D X P V}.
Arguments New {D P}.
Arguments Read {D P}.

(* ---- instance: array dimensions (Model/Shim.v) ------------------------------------------- *)
(* properties a partition reads from the transforms of an array dimension *)
(* PElems: Dimension.all_elements (the transform payload of every element, computed and cached
   together); POrder / PTop / PBottom: order_spec.element_ids / top_fixed_ids / bottom_fixed_ids *)
Inductive aprop : Type := PElems | POrder | PTop | PBottom.
Definition aprop_eqb (a b : aprop) : bool :=
  match a, b with
  | PElems, PElems | POrder, POrder | PTop, PTop | PBottom, PBottom => true
  | _, _ => false
  end.
Inductive aval : Type := VElems (l : list (option eval)) | VItems (l : list nat).
Definition acons (d : adim) (t : xf) (p : aprop) : aval :=
  match p with
  | PElems => VElems (map (elem_xform d (x_elements t)) (seq 0 (List.length (d_items d))))
  | POrder => VItems (opt_mentions d (x_ids t))
  | PTop => VItems (opt_mentions d (x_top t))
  | PBottom => VItems (opt_mentions d (x_bottom t))
  end.
Definition arun := run adim xf aprop aval shim_xf acons aprop_eqb (fun _ => true).
Definition arun_pristine := run_pristine adim xf aprop aval shim_xf acons.
Definition afinal := final adim xf aprop aval shim_xf acons aprop_eqb (fun _ => true).
(* content of the caller's dict i after the history *)
Definition arun_dict (ts : nat -> xf) (ops : list (op adim aprop)) (i : nat) : xf :=
  s_dicts (afinal ts ops) i.
(* the translated dict every object holds after the history (None = never evaluated / raised) *)
Definition arun_shims (ts : nat -> xf) (ops : list (op adim aprop)) : list (option xf) :=
  map o_shim (s_objs (afinal ts ops)).

(* ---- Part 2: responses ------------------------------------------------------------------- *)
(* what matters of a cube response for partitioning: its number of (apparent) dimensions.
   Numeric-array measures are outside this part of the model. *)
Inductive pkind : Type := Nub | Strand | Slice.
Definition kind_of (ndim : nat) : pkind :=
  match ndim with 0 => Nub | 1 => Strand | _ => Slice end.

Inductive rop : Type :=
| MkCube (i : nat)              (* Cube(responses[i]).partitions[0] *)
| MkSet (l : list nat).         (* CubeSet([responses[i] for i in l], ...).partition_sets *)

(* CubeSet._cubes: when there are >= 2 responses and the first one is 0-D every cube is inflated.
   Cube.inflate returns a cube on a response OF ITS OWN, dict(response, result=dict(result,
   dimensions=[rows_dimension] + dims)): one more dimension; the caller's response is only read *)
Definition is_numeric_set (r : nat -> nat) (l : list nat) : bool :=
  match l with
  | i :: _ :: _ => Nat.eqb (r i) 0
  | _ => false
  end.
Definition set_kinds (r : nat -> nat) (l : list nat) : list pkind :=
  if is_numeric_set r l then map (fun i => kind_of (S (r i))) l else map (fun i => kind_of (r i)) l.
(* the state (number of dimension dicts of every caller-owned response) is threaded through and
   never written *)
Definition rstep (sr : (nat -> nat) * list (list pkind)) (x : rop) : (nat -> nat) * list (list pkind) :=
  let (r, out) := sr in
  match x with
  | MkCube i => (r, out ++ [[kind_of (r i)]])
  | MkSet l => (r, out ++ [set_kinds r l])
  end.
Definition rrun (r0 : nat -> nat) (ops : list rop) : list (list pkind) :=
  snd (fold_left rstep ops (r0, [])).
(* reference: each operation on pristine copies *)
Definition rrun_pristine (r0 : nat -> nat) (ops : list rop) : list (list pkind) :=
  map (fun x => match snd (rstep (r0, []) x) with [k] => k | _ => [] end) ops.

(* the ways of passing a response (Cube._cube_response): a dict or JSON text; the parsed JSON
   object is the response itself or a shoji envelope {"value": ...} around it:
   cube_response.get("value", cube_response) unwraps exactly one level *)
Inductive rjson (R : Type) : Type :=
| JResp (r : R)
| JEnvelope (j : rjson R).
Arguments JResp {R}. Arguments JEnvelope {R}.
Inductive rarg (R : Type) : Type :=
| ArgDict (j : rjson R)
| ArgText (j : rjson R).       (* json.loads(text) *)
Arguments ArgDict {R}. Arguments ArgText {R}.
Definition cube_response {R} (a : rarg R) : rjson R :=
  let j := match a with ArgDict j => j | ArgText j => j end in
  match j with JEnvelope v => v | JResp _ => j end.
(* CubeSet._cubes (repaired, 537d2a70): the summary response the filter cubes are augmented
   against is the PARSED response of the first cube, cube._cube_response - no longer the raw first
   argument *)
Definition set_summary {R} (args : list (rarg R)) : option (rjson R) :=
  match args with a :: _ => Some (cube_response a) | [] => None end.

(* number of dimension dicts of every caller-owned response after the history *)
Definition rrun_state (r0 : nat -> nat) (ops : list rop) : nat -> nat :=
  fst (fold_left rstep ops (r0, [])).
(* the responses an operation is given *)
Definition touches (x : rop) : list nat := match x with MkCube i => [i] | MkSet l => l end.
(* the operation is a numeric-measure CubeSet *)
Definition numeric0 (r0 : nat -> nat) (x : rop) : bool :=
  match x with MkSet l => is_numeric_set r0 l | MkCube _ => false end.

(* ---- Part 3: Cube.augment_response (single-filter-column cubes of a multi-cube set) ------------ *)
(* what augment_response reads of the filter response and of the summary response: result.counts
   and the (id, value) pairs of the elements of dimension 0;
   value None = a JSON object ({"?": -1}, the missing element): isinstance(value, (int, str))
   fails and `value in values` is False *)
Record aresp : Type := mk_aresp { a_counts : list Z; a_elems : list (ident * option ident) }.

Definition a_values (f : aresp) : list ident :=
  flat_map (fun e => match snd e with Some v => [v] | None => [] end) (a_elems f).
(* positions = [item["id"] for item in summary_elements if item["value"] in values] *)
Definition a_positions (s : aresp) (vals : list ident) : list ident :=
  flat_map (fun e => match snd e with
                     | Some v => if py_in v vals then [fst e] else []
                     | None => [] end) (a_elems s).
(* data[pos] = value  (Python list: negative positions count from the end; None = raises) *)
Definition py_setitem (l : list Z) (pos : ident) (v : Z) : option (list Z) :=
  match pos with
  | IInt z =>
    let n := Z.of_nat (List.length l) in
    if ((0 <=? z)%Z && (z <? n)%Z)%bool then Some (set_nth (Z.to_nat z) v l)
    else if ((- n <=? z)%Z && (z <? 0)%Z)%bool then Some (set_nth (Z.to_nat (n + z)) v l)
    else None
  | _ => None
  end.
Fixpoint a_fill (data : list Z) (pv : list (ident * Z)) : option (list Z) :=
  match pv with
  | [] => Some data
  | (p, v) :: t => match py_setitem data p v with
                   | Some d' => a_fill d' t
                   | None => None
                   end
  end.
(* augment_response of filter cube f against the summary cube s: the response of the cube it
   RETURNS (f itself when nothing has to be padded); None = data[pos] = value raised (IndexError /
   TypeError) - the caller's responses are only read, so a raise leaves nothing behind *)
Definition augment (f s : aresp) : option aresp :=
  if Nat.eqb (List.length (a_counts f)) (List.length (a_counts s)) then Some f
  else
    match a_fill (repeat 0%Z (List.length (a_counts s)))
                 (combine (a_positions s (a_values f)) (a_counts f)) with
    | Some data => Some (mk_aresp data (a_elems s))
    | None => None
    end.

(* a tabbook-like history over one summary response s and one filter response f (caller-owned):
   ASet = CubeSet([s, f]) reads the counts of its second cube, ACube = Cube(f) alone.  The state
   (the caller's filter response) is threaded through and never written *)
Inductive aop : Type := ASet | ACube.
Definition astep (s : aresp) (st : aresp * list (option (list Z))) (x : aop)
  : aresp * list (option (list Z)) :=
  let (f, out) := st in
  match x with
  | ACube => (f, out ++ [Some (a_counts f)])
  | ASet => (f, out ++ [option_map a_counts (augment f s)])
  end.
Definition a_run (s f0 : aresp) (ops : list aop) : list (option (list Z)) :=
  snd (fold_left (astep s) ops (f0, [])).
Definition a_run_state (s f0 : aresp) (ops : list aop) : aresp :=
  fst (fold_left (astep s) ops (f0, [])).
Definition a_run_pristine (s f0 : aresp) (ops : list aop) : list (option (list Z)) :=
  map (fun x => match snd (astep s (f0, []) x) with [k] => k | _ => None end) ops.

(* ---- rendering ------------------------------------------------------------------------------ *)
Local Open Scope Z_scope.
Definition r_aval (v : aval) : list Z :=
  match v with
  | VElems l => 0 :: r_lst (r_option r_eval) l
  | VItems l => 1 :: r_natl l
  end.
Definition r_reads (l : list (res aval)) : list Z := r_lst (r_res r_aval) l.
Definition r_pkind (k : pkind) : list Z := match k with Nub => [0] | Strand => [1] | Slice => [2] end.
Definition r_pkinds (l : list (list pkind)) : list Z := r_lst (r_lst r_pkind) l.
Definition dicts_of (l : list xf) : nat -> xf := fun i => nth i l (mk_xf None None None None).
Definition ndims_of (l : list nat) : nat -> nat := fun i => nth i l 0%nat.
Definition r_aresp (a : aresp) : list Z :=
  r_lst (fun z => [z]) (a_counts a) ++ r_lst (fun e => r_ident (fst e) ++ r_option r_ident (snd e)) (a_elems a).
Definition r_zs (l : list Z) : list Z := r_lst (fun z => [z]) l.
Definition r_shims (l : list (option xf)) : list Z := r_lst (r_option r_xf) l.
