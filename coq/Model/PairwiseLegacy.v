(* Model/PairwiseLegacy.v -- the rest of the LEGACY pairwise tests (property C13):
   src/cr/cube/measures/pairwise_significance.py  _ColumnPairwiseSignificance
     summary_t_stats / _df / summary_p_vals / summary_pairwise_indices     (each column's share of
        the table against the selected column's: the "column summary" test)
     t_stats_scale_means / _two_sample_df / p_vals_scale_means / scale_mean_pairwise_indices
        (pooled two-sample t between the scale means of two columns)
   and PairwiseSignificance (one such object per displayed column).
   Executable; no proofs here.  Every statistic t is carried as its signed square t*|t|; p-values
   are [pval_x] of Model/PairwiseP.v (for any CDF function).

   The model is FAITHFUL TO THE CODE: the scale-mean test takes the means, variances and counts of
   the DISPLAYED arrays of the slice (counts = column sums over the displayed rows that have a numeric
   value), so hiding a valued row changes it - that is the open finding C05-scale-mean-pairwise-hidden,
   not modelled away. *)
From Coq Require Import QArith ZArith List Bool Arith.
From CC Require Import Base.XQ Base.ListX Model.Pairwise Model.PairwiseP.
Import ListNotations.
Local Close Scope Q_scope.
Local Open Scope nat_scope.

(* ---- the column-summary test -----------------------------------------------------------------
     p_j = columns_base[j] / table_margin,   var_j = p_j (1 - p_j) / table_margin
     t_j = (p_j - p_c) / sqrt(var_j + var_c)          df_j = columns_base[j] + columns_base[c] - 2
   i.e. the two-proportion statistic [legacy_tabs] on the column shares with the table margin as
   base.  [tm j]: the table margin of column j (a scalar, or one value per column when the columns
   are an array). *)
Definition summary_tabs (cb tm cb0 tm0 : xq) : xq :=
  legacy_tabs (xdiv cb tm) tm (xdiv cb0 tm0) tm0.

Definition summary_t (cb : vec) (tm : nat -> xq) (c : nat) : vec :=
  tab (length cb) (fun j => summary_tabs (vnth cb j) (tm j) (vnth cb c) (tm c)).

Definition summary_df (cb : vec) (c : nat) : vec :=
  tab (length cb) (fun j => t_df (vnth cb j) (vnth cb c)).

(* columns_base per cell (MR rows): the selected column's base of the same row *)
Definition summary_df_mat (CB : mat) (c : nat) : mat :=
  tab2 (nrows CB) (ncols CB) (fun i j => t_df (mnth CB i j) (mnth CB i c)).

Definition summary_p (cdf : xq -> xq -> xq) (cb : vec) (tm : nat -> xq) (c : nat) : vec :=
  tab (length cb) (fun j => pval_x cdf (vnth (summary_t cb tm c) j) (vnth (summary_df cb c) j)).

(* ---- the scale-mean test -----------------------------------------------------------------------
     n_j   = sum over the displayed rows WITH a numeric value of counts[i, j]
     sp2_j = ((n_c - 1) var_c + (n_j - 1) var_j) / (n_c + n_j - 2)          (pooled variance)
     t_j   = (mean_j - mean_c) / (sqrt(sp2_j) sqrt(1/n_c + 1/n_j))          df_j = n_c + n_j - 2 *)
Definition valid_counts (nv : vec) (M : mat) (nr : nat) (j : nat) : xq :=
  xsum (map (fun i => mnth M i j) (filter (fun i => negb (is_nan (vnth nv i))) (seq 0 nr))).

Definition pooled_var (n v n0 v0 : xq) : xq :=
  xdiv (xadd (xmul (xsub n0 (Fin 1)) v0) (xmul (xsub n (Fin 1)) v)) (xsub (xadd n0 n) (Fin 2)).

(* the square of np.sqrt(v): NaN for a negative v *)
Definition nonneg_or_nan (v : xq) : xq := if xltb v (Fin 0) then NaN else v.

Definition scale_tabs (m v n m0 v0 n0 : xq) : xq :=
  let d := xsub m m0 in
  xdiv (xmul d (xabs d))
       (xmul (nonneg_or_nan (pooled_var n v n0 v0))
             (nonneg_or_nan (xadd (xdiv (Fin 1) n0) (xdiv (Fin 1) n)))).

Definition scale_df (n n0 : xq) : xq := xsub (xadd n0 n) (Fin 2).

Definition scale_t (means vars : vec) (n : nat -> xq) (c : nat) : vec :=
  tab (length means)
      (fun j => scale_tabs (vnth means j) (vnth vars j) (n j) (vnth means c) (vnth vars c) (n c)).

Definition scale_dfs (ncols : nat) (n : nat -> xq) (c : nat) : vec :=
  tab ncols (fun j => scale_df (n j) (n c)).

Definition scale_p (cdf : xq -> xq -> xq) (means vars : vec) (n : nat -> xq) (c : nat) : vec :=
  tab (length means)
      (fun j => pval_x cdf (vnth (scale_t means vars n c) j) (scale_df (n j) (n c))).

(* ---- index tuples: tuple(np.where(p < alpha [and t < 0])[0]) - no own-position rule here: the
   selected column itself is kept out by its own statistic (t = 0 or NaN, p = 1 or NaN) ---- *)
Definition legacy_where (alpha : xq) (only_larger : bool) (pv tv : nat -> xq) (n : nat) : list nat :=
  filter (fun j => xltb (pv j) alpha && (negb only_larger || xltb (tv j) (Fin 0))) (seq 0 n).

(* ---- PairwiseSignificance: one test object per displayed column ---- *)
Definition per_column {A} (ncols : nat) (member : nat -> A) : list A := tab ncols member.
