(* Model of the weighted-base blocks and the row / column / table proportion blocks of
   matrix/measure.py (_Row/_Column/_TableWeightedBases, _Row/_Column/_TableProportions,
   WaveDiffSubtotal) and of the strand's table proportions (stripe/measure.py).
   Inputs are the BASE blocks (payload order, valid elements): weighted counts and the
   per-cell row / column / table weighted bases.  Executable; no proofs here. *)
From Coq Require Import QArith ZArith List Bool Lia Arith.
From CC Require Import Base.XQ Base.ListX Model.Subtotals.
Import ListNotations.
Local Close Scope Q_scope.
Local Open Scope nat_scope.

Definition nosub : subtotal := mkSub [] [].

Section Bases.
  Variable nr nc : nat.
  Variable rsubs csubs : list subtotal.
  Let nrs := length rsubs.
  Let ncs := length csubs.
  Let rsub k := nth k rsubs nosub.
  Let csub l := nth l csubs nosub.

  (* _RowWeightedBases / _RowUnweightedBases on the per-cell row bases rb *)
  Definition row_base_blocks (rb : mat) : blocks :=
    {| b_base := rb;
       b_cols := tab2 nr ncs (fun i _ => mnth rb i 0);
       b_rows := tab2 nrs nc (fun k j => subrow_cell rb true (rsub k) j);
       b_inter := tab2 nrs ncs (fun k _ => subrow_cell rb true (rsub k) 0) |}.

  (* _ColumnWeightedBases / _ColumnUnweightedBases on the per-cell column bases cb *)
  Definition col_base_blocks (cb : mat) : blocks :=
    {| b_base := cb;
       b_cols := tab2 nr ncs (fun i l => subcol_cell cb true (csub l) i);
       b_rows := tab2 nrs nc (fun _ j => mnth cb 0 j);
       b_inter := tab2 nrs ncs (fun _ l => subcol_cell cb true (csub l) 0) |}.

  (* _TableWeightedBases / _TableUnweightedBases on the per-cell table bases tb *)
  Definition table_base_blocks (tb : mat) : blocks :=
    {| b_base := tb;
       b_cols := tab2 nr ncs (fun i _ => mnth tb i 0);
       b_rows := tab2 nrs nc (fun _ j => mnth tb 0 j);
       b_inter := tab2 nrs ncs (fun _ _ => mnth tb 0 0) |}.

  (* the counts blocks: SumSubtotals with diff_nans in both directions *)
  Definition count_blocks (counts : mat) (diff_nans : bool) : blocks :=
    sum_blocks counts nr nc rsubs csubs diff_nans diff_nans.

  (* cell-wise division of two block structures *)
  Definition div_blocks (a b : blocks) : blocks :=
    {| b_base := tab2 nr nc (fun i j => xdiv (mnth (b_base a) i j) (mnth (b_base b) i j));
       b_cols := tab2 nr ncs (fun i l => xdiv (mnth (b_cols a) i l) (mnth (b_cols b) i l));
       b_rows := tab2 nrs nc (fun k j => xdiv (mnth (b_rows a) k j) (mnth (b_rows b) k j));
       b_inter := tab2 nrs ncs (fun k l => xdiv (mnth (b_inter a) k l) (mnth (b_inter b) k l)) |}.

  (* WaveDiffSubtotal: on a categorical-date dimension a one-minus-one difference is the
     difference of the two percentages; several terms on either side => NaN *)
  Definition multiple_terms (s : subtotal) : bool :=
    (1 <? length (s_sub s)) || (1 <? length (s_add s)).

  Definition wave_col_cell (bases counts : mat) (cols_date : bool) (s : subtotal)
             (default : xq) (i : nat) : xq :=
    if cols_date && has_subs s then
      if multiple_terms s then NaN
      else xsub (xdiv (sum_cols counts i (s_add s)) (sum_cols bases i (s_add s)))
                (xdiv (sum_cols counts i (s_sub s)) (sum_cols bases i (s_sub s)))
    else default.
  Definition wave_row_cell (bases counts : mat) (rows_date : bool) (s : subtotal)
             (default : xq) (j : nat) : xq :=
    if rows_date && has_subs s then
      if multiple_terms s then NaN
      else xsub (xdiv (sum_rows counts (s_add s) j) (sum_rows bases (s_add s) j))
                (xdiv (sum_rows counts (s_sub s) j) (sum_rows bases (s_sub s) j))
    else default.

  (* proportions from the four count blocks [cnt] and the four base blocks [bb]; the
     categorical-date rule needs the base-level per-cell bases and counts *)
  Definition props_of (cnt bb : blocks) (bases counts : mat) (rows_date cols_date : bool)
    : blocks :=
    let d := div_blocks cnt bb in
    {| b_base := b_base d;
       b_cols := tab2 nr ncs (fun i l =>
                   wave_col_cell bases counts cols_date (csub l) (mnth (b_cols d) i l) i);
       b_rows := tab2 nrs nc (fun k j =>
                   wave_row_cell bases counts rows_date (rsub k) (mnth (b_rows d) k j) j);
       b_inter := b_inter d |}.

  Variable counts : mat.
  Variable diff_nans : bool.          (* the response carries valid counts *)
  Variable rows_date cols_date : bool.

  Definition row_proportions (rb : mat) : blocks :=
    props_of (count_blocks counts diff_nans) (row_base_blocks rb) rb counts rows_date cols_date.
  Definition col_proportions (cb : mat) : blocks :=
    props_of (count_blocks counts diff_nans) (col_base_blocks cb) cb counts rows_date cols_date.
  Definition table_proportions (tb : mat) : blocks :=
    div_blocks (count_blocks counts diff_nans) (table_base_blocks tb).
End Bases.

(* ---- strand ------------------------------------------------------------------------- *)
(* base: counts / bases (per row); subtotal: (sum addends - sum subtrahends) / table_base,
   except the categorical-date one-minus-one rule *)
Definition strand_props_base (counts bases : list xq) : list xq :=
  tab (length counts) (fun i => xdiv (vnth counts i) (vnth bases i)).

Definition strand_wave_value (counts bases : list xq) (rows_date : bool) (s : subtotal)
           (default : xq) : xq :=
  if rows_date then
    if has_subs s && negb (match s_add s with [] => true | _ => false end) then
      if multiple_terms s then NaN
      else xsub (xdiv (vsum_idx counts (s_add s)) (vsum_idx bases (s_add s)))
                (xdiv (vsum_idx counts (s_sub s)) (vsum_idx bases (s_sub s)))
    else default
  else default.

Definition strand_props_subtotals (counts bases : list xq) (table_base : xq)
           (rows_date : bool) (subs : list subtotal) : list xq :=
  map (fun s => strand_wave_value counts bases rows_date s
                  (xdiv (stripe_sum_subtotal counts s) table_base)) subs.

(* percentages *)
Definition pct (p : xq) : xq := xmul p (Fin 100).

(* local form: default values from the reported subtotal counts / bases *)
Definition strand_props_subtotals_loc (counts bases : list xq) (rows_date : bool)
           (subs : list subtotal) (cnt_subs base_subs : list xq) : list xq :=
  tab (length subs) (fun k =>
    strand_wave_value counts bases rows_date (nth k subs nosub)
      (xdiv (vnth cnt_subs k) (vnth base_subs k))).
