(* Model of the assembly step of cr.cube partitions: how the four blocks of a measure (base
   values, subtotal columns, subtotal rows, intersections), the two blocks of a marginal and
   the element / subtotal attribute lists are turned into the public outputs by ONE signed
   display-order vector per dimension.

     src/cr/cube/cubepart.py   _Slice._assemble_matrix      np.block(blocks)[np.ix_(rows, cols)]
                               _Slice._assemble_marginal    np.hstack(blocks)[order]
                               _Strand._assemble_vector     np.concatenate(blocks)[order]
                               row_labels / row_codes / row_aliases (+ column twins)
                                                            np.array(elements + subtotals)[order]
                               rows_dimension_fills         elements[i] if i >= 0 else subtotals[i + m]
                               inserted_*_idxs, derived_*_idxs, diff_*_idxs
                               pairwise_indices             np.where(row of an ASSEMBLED matrix)

   A signed index z >= 0 is the offset of a base element in payload order, z < 0 is the
   negative offset into the dimension's subtotal sequence (numpy negative indexing into the
   concatenation base ++ subtotals).

   Executable definitions only; proofs in Proofs/Assemble*.v; tied to the code by
   harness/props/c05.py (the model is run on the blocks read from an untransformed run and on
   the order reported by the transformed run). *)
From Coq Require Import List ZArith Bool Lia Arith QArith.
From CC Require Import Base.XQ Base.ListX.
Import ListNotations.
Local Close Scope Q_scope.
Local Open Scope nat_scope.

(* numpy index normalisation on an axis of length n: a negative index counts from the end.
   (Out-of-range indexes raise IndexError in numpy; the theorems carry the range hypothesis.) *)
Definition pyidx (n : nat) (z : Z) : nat :=
  if Z.ltb z 0 then Z.to_nat (Z.of_nat n + z) else Z.to_nat z.

(* ---------------------------------------------------------------------------------------
   vectors: marginals, strand measures, labels, codes, aliases
   --------------------------------------------------------------------------------------- *)
(* np.hstack([base, subtotals])[order]  /  np.array(elements + subtotals)[order] *)
Definition assemble_vec {A} (d : A) (base subs : list A) (order : list Z) : list A :=
  let all := base ++ subs in
  map (fun z => nth (pyidx (length all) z) all d) order.

(* rows_dimension_fills: (elements[idx].fill if idx >= 0 else subtotals[idx + len(subtotals)].fill) *)
Definition fills_of {A} (d : A) (base subs : list A) (order : list Z) : list A :=
  map (fun z => if Z.leb 0 z then nth (Z.to_nat z) base d
                else nth (Z.to_nat (z + Z.of_nat (length subs))) subs d) order.

(* ---------------------------------------------------------------------------------------
   matrices
   --------------------------------------------------------------------------------------- *)
Record blocks (A : Type) : Type := mkBlocks {
  b_base : list (list A);      (* n x p : base rows x base columns *)
  b_scols : list (list A);     (* n x q : base rows x subtotal columns *)
  b_srows : list (list A);     (* m x p : subtotal rows x base columns *)
  b_inter : list (list A)      (* m x q : intersections *)
}.
Arguments mkBlocks {A} _ _ _ _.
Arguments b_base {A} _.
Arguments b_scols {A} _.
Arguments b_srows {A} _.
Arguments b_inter {A} _.

(* row-wise concatenation of two blocks with the same number of rows (np.hstack) *)
Fixpoint hstack {A} (l r : list (list A)) : list (list A) :=
  match l, r with
  | x :: l', y :: r' => (x ++ y) :: hstack l' r'
  | x :: l', [] => x :: hstack l' []
  | [], _ => r
  end.

(* np.block([[base, subtotal_columns], [subtotal_rows, intersections]]) *)
Definition np_block {A} (B : blocks A) : list (list A) :=
  hstack (b_base B) (b_scols B) ++ hstack (b_srows B) (b_inter B).

Definition gnth {A} (d : A) (m : list (list A)) (i j : nat) : A := nth j (nth i m []) d.

(* M[np.ix_(rows, cols)] : nr = number of rows of M, nc = number of columns *)
Definition ix {A} (d : A) (nr nc : nat) (M : list (list A)) (ro co : list Z) : list (list A) :=
  map (fun r => map (fun c => gnth d M (pyidx nr r) (pyidx nc c)) co) ro.

(* _Slice._assemble_matrix; n, p = number of base rows / base columns, m, q = subtotals *)
Definition assemble {A} (d : A) (n m p q : nat) (B : blocks A) (ro co : list Z) : list (list A) :=
  ix d (n + m) (p + q) (np_block B) ro co.

(* ---------------------------------------------------------------------------------------
   position-valued outputs
   --------------------------------------------------------------------------------------- *)
(* positions i of [l] with f (l[i]) *)
Fixpoint positions_from {A} (f : A -> bool) (s : nat) (l : list A) : list nat :=
  match l with
  | [] => []
  | x :: t => if f x then s :: positions_from f (S s) t else positions_from f (S s) t
  end.
Definition positions {A} (f : A -> bool) (l : list A) : list nat := positions_from f 0 l.

(* inserted_row_idxs / inserted_column_idxs *)
Definition inserted_idxs (order : list Z) : list nat := positions (fun z => Z.ltb z 0) order.

(* np.where(np.array(flags)[order])[0] *)
Definition where_flags (flags : list bool) (order : list Z) : list nat :=
  positions (fun b : bool => b) (assemble_vec false flags [] order).

(* _Strand.derived_row_idxs: [e.derived ...] + [False] * n_subtotals *)
Definition derived_idxs_strand (derived : list bool) (n_subtotals : nat) (order : list Z) : list nat :=
  where_flags (derived ++ repeat false n_subtotals) order.
(* _Slice._derived_element_idxs: the same, [e.derived ...] + [False] * len(dimension.subtotals)
   (since the repair of finding C05-derived-idxs-indexerror; it used to pad with one False per
   valid ELEMENT, which is too short for a dimension with more than twice as many subtotals as
   elements) *)
Definition derived_idxs_slice (derived : list bool) (n_subtotals : nat) (order : list Z) : list nat :=
  where_flags (derived ++ repeat false n_subtotals) order.
(* diff_*_idxs: [False] * n_valids + [s.is_difference ...] *)
Definition diff_idxs (n_valid : nat) (is_diff : list bool) (order : list Z) : list nat :=
  where_flags (repeat false n_valid ++ is_diff) order.

(* pairwise_indices: the significant columns of a cell are read off a row of an ASSEMBLED
   boolean matrix, so they are display positions.  [sig] is the set of significant columns as
   SIGNED (payload) indexes: renumbering through the column order. *)
Definition zmemb (z : Z) (l : list Z) : bool := existsb (Z.eqb z) l.
Definition renumber (co : list Z) (sig : list Z) : list nat := positions (fun c => zmemb c sig) co.

(* the display position of a signed index in an order (first occurrence) *)
Fixpoint pos_of (z : Z) (l : list Z) : nat :=
  match l with
  | [] => 0
  | x :: t => if Z.eqb x z then 0 else S (pos_of z t)
  end.

(* ---------------------------------------------------------------------------------------
   a whole partition: blocks + attributes + scalars in, displayed outputs out
   --------------------------------------------------------------------------------------- *)
Record raw_slice : Type := mkRaw {
  r_n : nat; r_m : nat; r_p : nat; r_q : nat;         (* base rows, row subtotals, base cols, col subtotals *)
  r_measures : list (blocks xq);                      (* one entry per matrix measure *)
  r_row_marginals : list (list xq * list xq);         (* (base, subtotal) blocks *)
  r_col_marginals : list (list xq * list xq);
  r_row_labels : list Z * list Z;                     (* element / subtotal attribute, as tokens *)
  r_col_labels : list Z * list Z;
  r_scalars : list xq                                 (* table base, table margin, ranges, population fraction *)
}.

Record view : Type := mkView {
  v_shape : nat * nat;
  v_measures : list (list (list xq));
  v_row_marginals : list (list xq);
  v_col_marginals : list (list xq);
  v_row_labels : list Z;
  v_col_labels : list Z;
  v_inserted_rows : list nat;
  v_inserted_cols : list nat;
  v_scalars : list xq
}.

Definition slice_view (R : raw_slice) (ro co : list Z) : view :=
  mkView (length ro, length co)
         (map (fun B => assemble NaN (r_n R) (r_m R) (r_p R) (r_q R) B ro co) (r_measures R))
         (map (fun bs => assemble_vec NaN (fst bs) (snd bs) ro) (r_row_marginals R))
         (map (fun bs => assemble_vec NaN (fst bs) (snd bs) co) (r_col_marginals R))
         (assemble_vec 0%Z (fst (r_row_labels R)) (snd (r_row_labels R)) ro)
         (assemble_vec 0%Z (fst (r_col_labels R)) (snd (r_col_labels R)) co)
         (inserted_idxs ro) (inserted_idxs co)
         (r_scalars R).

(* ---------------------------------------------------------------------------------------
   token streams for the correspondence check
   --------------------------------------------------------------------------------------- *)
From CC Require Import Base.Render.

Definition run_matrix (n m p q : nat) (B : blocks xq) (ro co : list Z) : list Z :=
  r_mat (assemble NaN n m p q B ro co).
Definition run_vector (base subs : list xq) (order : list Z) : list Z :=
  r_vec (assemble_vec NaN base subs order).
Definition run_tokens (base subs : list Z) (order : list Z) : list Z :=
  r_Zs (assemble_vec 0%Z base subs order) ++ r_Zs (fills_of 0%Z base subs order).
Definition run_positions (derived : list bool) (is_diff : list bool) (strand : bool) (order : list Z)
  : list Z :=
  r_nats (inserted_idxs order)
  ++ r_nats (if strand then derived_idxs_strand derived (length is_diff) order
             else derived_idxs_slice derived (length is_diff) order)
  ++ r_nats (diff_idxs (length derived) is_diff order).
Definition run_renumber (co : list Z) (sigs : list (list Z)) : list Z :=
  r_list r_nats (map (renumber co) sigs).
