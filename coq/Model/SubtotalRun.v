(* Model/SubtotalRun.v -- the step property C04 is about, as one executable function:
   from the raw insertion dicts + valid element ids of the dimensions and the BASE blocks of
   the first-order quantities (as the implementation reports them) to the inserted rows /
   columns / intersections of every measure.  Only composes the shared models; no proofs.
   Rendered as a token stream for harness/props/c04.py. *)
From Coq Require Import QArith ZArith List Bool Arith.
From CC Require Import Base.XQ Base.ListX Base.Render Base.Ident Model.Subtotals Model.SubtotalIds
     Model.Proportions Model.Variance Model.Zscore Model.Share Model.RenderBlocks.
Import ListNotations.
Local Close Scope Q_scope.
Local Open Scope nat_scope.

(* one dimension as the harness describes it *)
Record dim_in := mkDimIn {
  di_array : bool;                              (* MR / CA subvariables: never any subtotal *)
  di_date : bool;                               (* dimension type CAT_DATE *)
  di_ids : list ident;                          (* ids of the valid elements, payload order *)
  di_transform_ins : option (list insdict);     (* transforms["insertions"] when the key exists *)
  di_view_ins : list insdict }.                 (* references.view.transform.insertions *)

Definition di_subs (d : dim_in) : list subtotal :=
  dim_subtotals (di_array d) (di_ids d) (di_transform_ins d) (di_view_ins d).
Definition di_diffs (d : dim_in) : list bool :=
  if di_array d then []
  else match di_transform_ins d with
       | Some ds => differences_of (di_ids d) ds
       | None => differences_of (di_ids d) (di_view_ins d)
       end.

Definition r_sub (s : subtotal) : list Z := r_nats (s_add s) ++ r_nats (s_sub s).
Definition r_dim_subs (d : dim_in) : list Z :=
  r_list r_sub (di_subs d) ++ r_list r_bool (di_diffs d).

(* per VALID subtotal of the dimension: does its dict carry a non-empty kwargs.negative list at
   all?  (raw, before resolution: with [di_diffs] false this is a subtotal whose negative ids are
   all stale / missing - a plain subtotal by the property; the harness then puts it first in the
   queue of the merge oracle and counts it) *)
Definition di_rawneg (d : dim_in) : list bool :=
  if di_array d then []
  else let ds := match di_transform_ins d with Some ds => ds | None => di_view_ins d end in
       map (fun x => negb (is_nil (negative_terms x))) (filter (valid_subtotal (di_ids d)) ds).
Definition r_dim_rawneg (d : dim_in) : list Z := r_list r_bool (di_rawneg d).

(* the insertion blocks only (the base block is an input) *)
Definition r_ins (b : blocks) : list Z := r_mat (b_cols b) ++ r_mat (b_rows b) ++ r_mat (b_inter b).

Section Slice.
  Variable rd cd : dim_in.
  Variable nr nc : nat.
  Variables wc uc : mat.                  (* weighted / unweighted counts, base block *)
  Variables rwb cwb twb rub cub tub : mat. (* weighted and unweighted row / column / table bases *)
  Variables dnw dnu : bool.               (* the counts come from a *_valid_counts payload *)
  Let rs := di_subs rd.
  Let cs := di_subs cd.

  Definition zscore_blocks (C T R K : blocks) : blocks :=
    {| b_base := zscores_block wc (b_base C) (b_base T) (b_base R) (b_base K);
       b_cols := zscores_block wc (b_cols C) (b_cols T) (b_cols R) (b_cols K);
       b_rows := zscores_block wc (b_rows C) (b_rows T) (b_rows R) (b_rows K);
       b_inter := zscores_block wc (b_inter C) (b_inter T) (b_inter R) (b_inter K) |}.

  Definition c04_slice : list Z :=
    let C := count_blocks nr nc rs cs wc dnw in
    let U := count_blocks nr nc rs cs uc dnu in
    let RW := row_base_blocks nr nc rs cs rwb in
    let CW := col_base_blocks nr nc rs cs cwb in
    let TW := table_base_blocks nr nc rs cs twb in
    let RU := row_base_blocks nr nc rs cs rub in
    let CU := col_base_blocks nr nc rs cs cub in
    let TU := table_base_blocks nr nc rs cs tub in
    let PR := row_proportions nr nc rs cs wc dnw (di_date rd) (di_date cd) rwb in
    let PC := col_proportions nr nc rs cs wc dnw (di_date rd) (di_date cd) cwb in
    let PT := table_proportions nr nc rs cs wc dnw twb in
    let se P T := div_blocks nr nc rs cs (variance_blocks wc nr nc rs cs P T) T in
    r_ins C ++ r_ins U ++ r_ins RW ++ r_ins CW ++ r_ins TW ++ r_ins RU ++ r_ins CU ++ r_ins TU
    ++ r_ins PR ++ r_ins PC ++ r_ins PT
    ++ r_ins (se PR RW) ++ r_ins (se PC CW) ++ r_ins (se PT TW)
    ++ r_bool (defective wc) ++ r_blocks (zscore_blocks C TW RW CW).

  (* numeric measure `sum` and its shares; NaN strategy for mean / median / stddev / index *)
  Definition c04_sums (sums : mat) : list Z :=
    r_ins (sum_blocks sums nr nc rs cs true true)
    ++ r_ins (col_share sums nr nc rs cs) ++ r_ins (row_share sums nr nc rs cs)
    ++ r_ins (total_share sums nr nc rs cs).
  Definition c04_nan (base : mat) : list Z := r_ins (nan_blocks base nr nc rs cs).
End Slice.

Section Strand.
  Variable rd : dim_in.
  Variables wc uc wb ub : list xq.        (* weighted / unweighted counts and bases, base rows *)
  Let rs := di_subs rd.

  (* a CAT strand's bases all equal the table base; an array strand has no subtotal *)
  Definition table_base_of (b : list xq) : xq := vnth b 0.

  Definition c04_strand : list Z :=
    let cw := stripe_sum_subtotals wc rs in
    let bw := map (fun _ => table_base_of wb) rs in
    let pw := strand_props_subtotals wc wb (table_base_of wb) (di_date rd) rs in
    r_vec cw ++ r_vec (stripe_sum_subtotals uc rs)
    ++ r_vec bw ++ r_vec (map (fun _ => table_base_of ub) rs)
    ++ r_vec pw
    ++ r_vec (vmap2 stderr_sq (strand_var_subtotals wc rs pw bw) bw).

  Definition c04_strand_sums (sums : list xq) : list Z :=
    r_vec (stripe_sum_subtotals sums rs) ++ r_vec (stripe_share_subtotals sums rs).
  Definition c04_strand_nan : list Z := r_vec (map (fun _ => NaN) rs).
End Strand.
