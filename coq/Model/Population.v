(* Model of the population estimates (property C17):
     cube.py::_Measures.population_fraction                  -> [pop_fraction]
     matrix/measure.py::_PopulationProportions/_PopulationStandardError,
     stripe/measure.py::_PopulationProportions/_PopulationProportionStderrs -> [pop_choice], strand_*
     cubepart.py::_Slice/_Strand.population_counts / population_counts_moe  -> [pop_counts], [pop_moe]
   Executable; no proofs here. *)
From Coq Require Import QArith ZArith List Bool Lia Arith.
From CC Require Import Base.XQ Base.ListX.
Import ListNotations.
Local Close Scope Q_scope.
Local Open Scope nat_scope.

(* ---- the shapes of the response's filter statistics ----------------------------------- *)
(* a key of a JSON object: missing, present with null, present with a value *)
Inductive field (A : Type) : Type :=
| Absent
| Null
| Val (a : A).
Arguments Absent {A}.
Arguments Null {A}.
Arguments Val {A} a.

(* result.filter_stats.filtered_complete.weighted = {"selected": .., "other": ..} *)
Record wdict := { w_selected : field Q; w_other : field Q }.
(* result.filter_stats = {"filtered_complete": {"weighted": ..}, "is_cat_date": ..} *)
Record fstats := { fs_complete : field (field wdict);   (* filtered_complete -> its "weighted" *)
                   fs_is_cat_date : bool }.             (* truthiness of "is_cat_date" *)
(* the part of result the cascade looks at; old style: result.filtered.weighted_n etc. *)
Record fshape := { r_filter_stats : field fstats;
                   r_filtered : field (field Q);        (* filtered -> its "weighted_n" *)
                   r_unfiltered : field (field Q) }.

(* what reading the property does *)
Inductive outcome : Type :=
| Value (x : xq)
| Raises.                      (* AttributeError / KeyError / TypeError escapes *)

(* an empty dict is falsy *)
Definition wdict_truthy (w : wdict) : bool :=
  match w_selected w, w_other w with Absent, Absent => false | _, _ => true end.

(* ((result.get("filter_stats") or {}).get("filtered_complete") or {}).get("weighted"):
   None = the expression raises (never, since the repair of the null-dict defect: a JSON null where
   a dict is expected counts as not present); Some None = falsy; Some (Some w) = truthy dict *)
Definition weighted_complete (r : fshape) : option (option (wdict * bool)) :=
  match r_filter_stats r with
  | Null => Some None
  | Absent => Some None
  | Val fs =>
      match fs_complete fs with
      | Null => Some None
      | Absent => Some None
      | Val (Val w) => if wdict_truthy w then Some (Some (w, fs_is_cat_date fs)) else Some None
      | Val _ => Some None
      end
  end.

(* (result.get(key) or {}).get("weighted_n"): None = raises (never); Some None = Python None;
   Some (Some q) *)
Definition weighted_n (f : field (field Q)) : option (option Q) :=
  match f with
  | Null => Some None
  | Absent => Some None
  | Val (Val q) => Some (Some q)
  | Val _ => Some None
  end.

(* try: numerator / denominator; except ZeroDivisionError: nan; except Exception: 1.0 *)
Definition guarded_div (num den : option Q) : xq :=
  match num, den with
  | Some n, Some d => if Qeq_bool d 0 then NaN else Fin (n / d)
  | _, _ => Fin 1                    (* TypeError on a None operand *)
  end.

Definition pop_fraction (r : fshape) : outcome :=
  match weighted_complete r with
  | None => Raises
  | Some (Some (w, cat_date)) =>
      if cat_date then Value (Fin 1) else
      match w_selected w, w_other w with
      | Val s, Val o => Value (guarded_div (Some s) (Some (s + o)%Q))
      | _, _ => Raises                (* KeyError / None + number, outside the try *)
      end
  | Some None =>
      match weighted_n (r_filtered r), weighted_n (r_unfiltered r) with
      | Some n, Some d => Value (guarded_div n d)
      | _, _ => Raises
      end
  end.

(* ---- what the property text says (a JSON null counts as "not present") ------------------ *)
Definition unnull {A} (f : field A) : field A := match f with Null => Absent | _ => f end.
Definition ratio_or_nan (n d : Q) : xq := if Qeq_bool d 0 then NaN else Fin (n / d).
Definition old_style_spec (r : fshape) : xq :=
  match unnull (r_filtered r), unnull (r_unfiltered r) with
  | Val (Val n), Val (Val d) => ratio_or_nan n d
  | _, _ => Fin 1                   (* unspecified *)
  end.
Definition pop_fraction_spec (r : fshape) : xq :=
  match unnull (r_filter_stats r) with
  | Val fs =>
      match unnull (fs_complete fs) with
      | Val (Val w) =>
          match w_selected w, w_other w with
          | Val s, Val o => if fs_is_cat_date fs then Fin 1 else ratio_or_nan s (s + o)
          | Absent, Absent => old_style_spec r
          | _, _ => if fs_is_cat_date fs then Fin 1 else old_style_spec r  (* malformed: not specified *)
          end
      | _ => old_style_spec r
      end
  | _ => old_style_spec r
  end.

(* well-formed: a non-empty weighted complete-case dict has both numbers *)
Definition wf_shape (r : fshape) : bool :=
  match r_filter_stats r with
  | Val fs => match fs_complete fs with
              | Val (Val w) => match w_selected w, w_other w with
                               | Val _, Val _ | Absent, Absent => true
                               | _, _ => false
                               end
              | _ => true
              end
  | _ => true
  end.
(* no JSON null where a dict is expected *)
Definition no_null_dicts (r : fshape) : bool :=
  match r_filter_stats r with
  | Null => false
  | Val fs => match fs_complete fs with Null => false | _ => true end
  | Absent => true
  end
  && match r_filtered r with Null => false | _ => true end
  && match r_unfiltered r with Null => false | _ => true end.

(* ---- population counts and their margin of error ------------------------------------------- *)
Definition Z975 : xq := Fin (1959964 # 1000000).

(* which proportion / standard error projects the population: within each date when a dimension
   is categorical-date (rows first), otherwise the table proportion *)
Definition pop_choice {A} (rows_cat_date cols_cat_date : bool) (rowm colm tabm : A) : A :=
  if rows_cat_date then rowm else if cols_cat_date then colm else tabm.

Definition pop_cell (p N f : xq) (is_diff : bool) : xq :=
  xmul (xmul (if is_diff then NaN else p) N) f.
Definition moe_cell (se N f : xq) : xq := xmul (xmul Z975 (xmul N f)) se.

(* matrices in display order; [dr], [dc]: is row i / column j a subtotal difference *)
Definition pop_counts (rcd ccd : bool) (rowp colp tabp : mat) (N f : xq)
           (dr dc : list bool) : mat :=
  let P := pop_choice rcd ccd rowp colp tabp in
  tab2 (nrows P) (ncols P)
       (fun i j => pop_cell (mnth P i j) N f (nth i dr false || nth j dc false)).
Definition pop_moe (rcd ccd : bool) (rowse colse tabse : mat) (N f : xq) : mat :=
  let S := pop_choice rcd ccd rowse colse tabse in
  tab2 (nrows S) (ncols S) (fun i j => moe_cell (mnth S i j) N f).

(* strand: a categorical-date strand projects the whole population on every row (proportion 1,
   standard error 0).  None = the property raises - never, since the repair of the two strand
   defects (`proportions[diff_row_idxs] = nan` indexed the 1-D array with the TUPLE of difference
   positions, and a categorical-date strand used the integer array np.repeat(1, n)): the
   proportions are a float array indexed by the list of difference positions. *)
Definition count_true (l : list bool) : nat := length (filter (fun b => b) l).
Definition strand_pop_raises (cd : bool) (dr : list bool) : bool := false.
Definition strand_pop_values (cd : bool) (tabp : list xq) (N f : xq) (dr : list bool) : list xq :=
  tab (length tabp) (fun i => pop_cell (if cd then Fin 1 else vnth tabp i) N f (nth i dr false)).
Definition strand_pop_counts (cd : bool) (tabp : list xq) (N f : xq) (dr : list bool)
  : option (list xq) :=
  if strand_pop_raises cd dr then None else Some (strand_pop_values cd tabp N f dr).
Definition strand_pop_moe (cd : bool) (tabse : list xq) (N f : xq) : list xq :=
  tab (length tabse) (fun i => moe_cell (if cd then Fin 0 else vnth tabse i) N f).
