(* Model/PartitionRender.v -- token streams of Model/Partition.v for the correspondence
   check C06 (decoded by harness/props/c06.py; slice / strand outputs as in
   Model/CubeCountsRender.v). *)
From Coq Require Import QArith ZArith List Bool.
From CC Require Import Base.XQ Base.ListX Base.Render Spec.Survey Model.CubeCounts
     Model.CubeCountsRender Model.Partition.
Import ListNotations.
Open Scope Z_scope.

Definition r_pkind (k : pkind) : list Z :=
  [match k with PNub => 0 | PStrand => 1 | PSlice => 2 end].

Definition r_part_out (size : xq) (po : part_out) : list Z :=
  r_pkind (po_kind po) ++ r_opt r_nat (po_name po) ++ r_opt r_nat (po_tab po)
  ++ r_opt (r_slice_out size) (po_slice_w po) ++ r_opt (r_slice_out size) (po_slice_u po)
  ++ r_opt (r_strand_out size) (po_strand_w po) ++ r_opt (r_strand_out size) (po_strand_u po)
  ++ r_opt r_xq (po_nub po).

(* Cube(response, cube_idx).partitions *)
Definition r_cube_parts (ds : list dimd) (p : payload) (cube_idx : option nat) (single : bool)
           (size : xq) : list Z :=
  let ca0 := ca_as_0th cube_idx single ds in
  r_bool ca0 ++ r_list (r_part_out size) (cube_parts ds p ca0).

(* CubeSet(responses).partition_sets *)
Definition r_partition_sets (cs : list cube_desc) (size : xq) : list Z :=
  r_opt (r_list (r_list (r_part_out size))) (partition_sets cs).

(* Cube.augment_response: the new counts *)
Definition r_augment (summary own : list elem) (n : nat) (counts : list xq) : list Z :=
  r_opt r_vec (augment_counts summary own n counts).
