(* Model/ScaleDisplay.v -- the DISPLAY-ORDER numeric values of a slice and the scale-mean variance
   the legacy pairwise scale-means test reads (src/cr/cube/cubepart.py::_Slice):

     _rows_dimension_numeric_values / _columns_dimension_numeric_values
         np.array([elements[idx].numeric_value if idx >= 0 else np.nan for idx in <signed display order>])
     _rows_have_numeric_value / _columns_have_numeric_value      not np.all(np.isnan(..))
     _columns_scale_mean_variance
         None when no displayed row has a value, otherwise for every displayed column the [scale_var] of
         Model/Scale.v of the column of the ASSEMBLED counts against the display-order values and the
         column's scale mean (inserted subtotal rows have no value, so they do not contribute).

   Executable; definitions only (proofs: Proofs/ScaleDisplayProofs.v). *)
From Coq Require Import QArith ZArith List Bool Lia Arith.
From CC Require Import Base.XQ Base.ListX Model.Scale.
Import ListNotations.
Local Close Scope Q_scope.
Local Open Scope nat_scope.

(* [vals]: numeric value of each valid element in payload order (NaN = none); [order]: the signed display
   order (a negative entry is an inserted subtotal) *)
Definition display_values (vals : list xq) (order : list Z) : list xq :=
  map (fun z => if (0 <=? z)%Z then vnth vals (Z.to_nat z) else NaN) order.

Definition display_have_value (vals : list xq) (order : list Z) : bool :=
  any_value (display_values vals order).

(* [counts]: the assembled (display-order) weighted counts, nc columns; [means]: columns_scale_mean *)
Definition display_scale_variance (nc : nat) (counts : mat) (dvals means : list xq) : option (list xq) :=
  if any_value dvals
  then Some (tab nc (fun j => scale_var (mcol counts j) dvals (vnth means j)))
  else None.
