(* Model of the pruning bases ("is this vector empty?") of cr.cube:

     src/cr/cube/matrix/cubemeasure.py   _BaseCubeCounts.rows_pruning_mask / columns_pruning_mask,
                                         _rows_pruning_base / _columns_pruning_base and their MR
                                         overrides, as used through
                                         CubeMeasures.unweighted_cube_counts
     src/cr/cube/stripe/cubemeasure.py   _CatCubeCounts / _MrCubeCounts .pruning_base

   The unweighted counts of a slice are given in the canonical 4-axis form
   u[i][s1][j][s2] over VALID elements only: i row element, j column element, s1 / s2 the
   selection state of a multiple-response item (0 = selected, 1 = not selected; the
   missing state is not a valid element) - a categorical or array dimension has the single
   state 0.  A strand is u[i][s].  Counts of respondents are natural numbers. *)
From Coq Require Import List Arith Bool Lia QArith.
From CC Require Import Spec.OrderSpec.
Import ListNotations.
Local Close Scope Q_scope.
Local Open Scope nat_scope.

Definition t4 : Type := list (list (list (list nat))).
Definition t4w : Type := list (list (list (list Q))).     (* the weighted counts *)

Definition sumn (l : list nat) : nat := fold_right Nat.add 0 l.
Definition sum2 (m : list (list nat)) : nat := sumn (map sumn m).
Definition sum3 (t : list (list (list nat))) : nat := sumn (map sum2 t).

Definition cell4 (u : t4) (i s1 j s2 : nat) : nat :=
  nth s2 (nth j (nth s1 (nth i u []) []) []) 0.

(* rows: sum of the row bases over the columns.  For MR x MR the row base of a cell is
   counts[i, 0, j, :] - only the "selected" plane of the row item. *)
Definition rows_pruning_base (mrxmr : bool) (u : t4) : list nat :=
  map (fun ui => sum3 (if mrxmr then firstn 1 ui else ui)) u.

(* columns: sum of the column bases over the rows.  For MR x MR the column base of a cell
   is counts[:, :, j, 0]. *)
Definition columns_pruning_base (mrxmr : bool) (ncols : nat) (u : t4) : list nat :=
  map (fun j =>
         sumn (map (fun ui =>
           sumn (map (fun uis =>
             sumn (let c := nth j uis [] in if mrxmr then firstn 1 c else c)) ui)) u))
      (seq 0 ncols).

(* strand: counts (CAT) / selected + not selected (MR) *)
Definition strand_pruning_base (u : list (list nat)) : list nat := map sumn u.

(* np.where(base == 0) *)
Definition empties_of (base : list nat) : list nat :=
  map fst (filter (fun kb => Nat.eqb (snd kb) 0) (enumerate base)).

(* The empty vectors of a slice / strand.  The WEIGHTED counts are an argument only to be
   able to say that they play no part (Proofs/OrderPruning.v, empty_rows_unweighted). *)
Definition empty_rows (mrxmr : bool) (u : t4) (w : t4w) : list nat :=
  empties_of (rows_pruning_base mrxmr u).
Definition empty_columns (mrxmr : bool) (ncols : nat) (u : t4) (w : t4w) : list nat :=
  empties_of (columns_pruning_base mrxmr ncols u).
Definition empty_strand_rows (u : list (list nat)) (w : list (list Q)) : list nat :=
  empties_of (strand_pruning_base u).
