(* PyCube: what the generated text of coq/Gen/CubeSrc.v (shallow translation of src/cr/cube/cube.py by
   harness/translate/x_cube.py) is written in, besides Base/PyList.v and Base/PyJson.v:

   * the Python objects of cube.py as records of what their __init__ stores ([pycube], [pymeasures]
     = _Measures, [pymeasure] = an object of the _BaseMeasure family with its class, [pycubeset]) and
     the objects they READ from other modules: a Dimension ([pydim]: dimension_type,
     valid_elements.element_idxs, name, description) and a Dimensions collection ([pydims]: its items,
     apparent_dimensions, shape, dimension_order); a call CubePartition.factory(..) is the record of
     its arguments by parameter name ([pyfactory]; the body of the factory is tied by the wiring
     translator, C06_wiring_CubePartition_factory);
   * what cube.py calls in other modules and cannot be computed from its own text, as the fields of an
     environment every generated function takes first ([pyext]: Dimensions.from_dicts, json.loads);
   * the little numpy cube.py uses, on arrays given by shape and row-major data ([pyarr]): np.array(..,
     dtype=float64), flatten, len, np.prod, reshape, np.ix_, a[grid], astype;
   * the Python VIEW of the model's objects ([pydims_of], [payload_measures], [fshape_items], ..): how
     the definitions of Model/CubeCounts.v, Partition.v, Population.v, History.v read a response.

   Definitions only (lemmas: Proofs/GenAgreeCube*.v). *)
From Coq Require Import List ZArith QArith String Bool Arith.
From CC Require Import Base.XQ Base.ListX Base.PyList Base.PyJson Spec.Survey Model.CubeCounts
  Model.DimType Model.Population.
Import ListNotations.
Local Close Scope Q_scope.
Local Open Scope Z_scope.

(* --- dimension.py objects cube.py reads ----------------------------------------------------------- *)
Record pydim : Type := mkPyDim {
  pd_dimension_type : dtype;
  pd_valid_idxs : list Z;        (* valid_elements.element_idxs; len(valid_elements) is its length *)
  pd_name : json;
  pd_description : json
}.
Record pydims : Type := mkPyDims {
  pds_items : list pydim;        (* the Dimensions tuple itself: iteration, indexing, len *)
  pds_apparent : list pydim;     (* apparent_dimensions *)
  pds_shape : list Z;
  pds_dimension_order : list Z
}.

(* other modules *)
Record pyext : Type := mkPyExt {
  x_from_dicts : json -> pres pydims;      (* Dimensions.from_dicts(dimension_dicts) *)
  x_json_loads : string -> pres json       (* json.loads(text) *)
}.

(* --- cube.py objects ------------------------------------------------------------------------------ *)
Record pycube : Type := mkPyCube {
  pc_cube_response_arg : json;   (* a dict, or a str (JSON text), or anything else the caller gave *)
  pc_transforms_dict : json;
  pc_cube_idx_arg : option Z;
  pc_population : json;
  pc_mask_size : Z
}.
Record pymeasures : Type := mkPyMeasures {
  pm_cube_dict : json;
  pm_all_dimensions : pydims;
  pm_cube_idx_arg : option Z
}.
Inductive mclass : Type :=
| MC_Covariance | MC_Mean | MC_Medians | MC_Overlap | MC_StdDev | MC_Sum | MC_UnweightedCount
| MC_UnweightedValidCounts | MC_ValidOverlap | MC_WeightedCount | MC_WeightedSquaredCounts
| MC_WeightedValidCounts.
Record pymeasure : Type := mkPyMeasure {
  bm_class : mclass;
  bm_cube_dict : json;
  bm_all_dimensions : pydims;
  bm_cube_idx_arg : option Z
}.
Record pycubeset : Type := mkPyCubeSet {
  cs_cube_responses : list json;
  cs_transforms_dicts : json;
  cs_population : json;
  cs_min_base : Z
}.
(* CubePartition.factory(cube, slice_idx=.., transforms=.., population=.., ca_as_0th=.., mask_size=..) *)
Record pyfactory : Type := mkPyFactory {
  fc_cube : pycube;
  fc_slice_idx : Z;
  fc_transforms : json;
  fc_population : json;
  fc_ca_as_0th : option bool;
  fc_mask_size : Z
}.

Definition opt_is_none {A} (o : option A) : bool := match o with None => true | Some _ => false end.
Definition opt_eq_Z (o : option Z) (z : Z) : bool := match o with Some y => Z.eqb y z | None => false end.
(* `x` where an Optional[int] is wanted *)
Definition opt_json_Z (o : option Z) : json := match o with Some z => JInt z | None => JNull end.

(* json.loads(x): a str is parsed, anything else (that is no bytes) is a TypeError *)
Definition py_json_loads (X : pyext) (j : json) : pres json :=
  match j with JStr s => x_json_loads X s | _ => PErr EType end.

(* enums.py: CUBE_MEASURE(value) *)
Definition cube_measure_of (table : list string) (j : json) : pres string :=
  match j with
  | JStr s => if py_in String.eqb s table then POk s else PErr EValue
  | _ => PErr EValue
  end.

(* --- numpy ---------------------------------------------------------------------------------------- *)
Record pyarr : Type := mkArr { pa_shape : list nat; pa_data : list xq }.

Definition arr_get (a : pyarr) (idx : list nat) : xq := of_flat (pa_shape a) (pa_data a) idx.

(* float64 of one item: None is nan, a bool 0 / 1; a str / list / dict is an error (numeral strings
   and nested lists, which numpy would accept, are outside the model) *)
Definition np_float_of (j : json) : pres xq :=
  match j with
  | JNull => POk NaN
  | JDict _ => PErr EType
  | JList _ | JStr _ => PErr EValue
  | _ => pres_of_option EValue (json_num j)
  end.
(* np.array(<tuple / list of items>, dtype=np.float64) *)
Definition np_array_f64_list (l : list json) : pres pyarr :=
  pbind (pmapM np_float_of l) (fun d => POk (mkArr [List.length d] d)).
(* np.array(<value>, dtype=np.float64): a number gives a 0-d array *)
Definition np_array_f64 (j : json) : pres pyarr :=
  match j with
  | JList l => np_array_f64_list l
  | _ => pbind (np_float_of j) (fun x => POk (mkArr [] [x]))
  end.
(* np.array(<list value>).flatten() without dtype, then iterated: the items of a flat list (a nested
   list, which numpy would flatten or keep as objects depending on its shape, is not read) *)
Definition np_array_flatten_items (j : json) : pres (list json) :=
  match j with
  | JList l => if existsb (fun x => match x with JList _ => true | _ => false end) l
               then PErr ENotImpl else POk l
  | _ => PErr ENotImpl
  end.
Definition np_flatten (a : pyarr) : pyarr := mkArr [List.length (pa_data a)] (pa_data a).
Definition np_len (a : pyarr) : pres Z :=
  match pa_shape a with n :: _ => POk (Z.of_nat n) | [] => PErr EType end.
Definition np_prod (shape : list Z) : Z := fold_left Z.mul shape 1.
Definition np_reshape (a : pyarr) (shape : list Z) : pres pyarr :=
  if forallb (fun n => 0 <=? n) shape && (np_prod shape =? py_len (pa_data a))
  then POk (mkArr (map Z.to_nat shape) (pa_data a)) else PErr EValue.
Definition np_astype_f64 (a : pyarr) : pyarr := a.

(* np.ix_( *lists): component i is the index list of axis i, shaped to vary along axis i only;
   a tuple of such components is an index grid: [(position in the result, index list)], one entry
   per axis of the indexed array *)
Definition ixgrid : Type := list (nat * list Z).
Definition np_ix_ (ls : list (list Z)) : ixgrid := combine (seq 0 (List.length ls)) ls.

Definition grid_component (g : ixgrid) (pos : nat) : option (list Z) :=
  option_map snd (find (fun c => Nat.eqb (fst c) pos) g).
Fixpoint sequence_pres {A} (l : list (pres A)) : pres (list A) :=
  match l with
  | [] => POk []
  | r :: t => pbind r (fun a => pbind (sequence_pres t) (fun rest => POk (a :: rest)))
  end.
(* the offsets (negative ones count from the end) of one component, IndexError when out of range *)
Definition grid_offsets (size : nat) (idxs : list Z) : pres (list nat) :=
  pmapM (fun z => pres_of_option EIndex (py_index size z)) idxs.
(* a[grid]: the grid indexes the FIRST axes of a, one component each, and their positions are
   0 .. len(grid)-1 (any other tuple of index arrays is not read); the remaining axes are kept whole:
   result[o ++ r] = a[.. comp_j[o[pos_j]] .. ++ r] *)
Definition np_take_grid (a : pyarr) (g : ixgrid) : pres pyarr :=
  let kg := List.length g in
  if Nat.ltb (List.length (pa_shape a)) kg then PErr EIndex else
  match sequence_pres (map (fun pos => pres_of_option ENotImpl (grid_component g pos)) (seq 0 kg)) with
  | PErr e => PErr e
  | POk by_pos =>
      pbind (sequence_pres (map (fun sc => grid_offsets (fst sc) (snd (snd sc))) (combine (pa_shape a) g)))
            (fun offs =>
               let out_shape := map (@List.length Z) by_pos ++ skipn kg (pa_shape a) in
               POk (mkArr out_shape
                          (flatten out_shape
                                   (fun o => arr_get a (map (fun pc => nth (nth (fst (fst pc)) o O) (snd pc) O)
                                                            (combine g offs) ++ skipn kg o)))))
  end.

(* ================================================================================================ *)
(** * the Python view of the model's objects *)

(* a dimension as the models see it plus what only labels read *)
Record dimv : Type := mkDimv { dv_type : dtype; dv_miss : list bool; dv_name : json; dv_descr : json }.
Definition dimd_of (v : dimv) : dimd := mkDim (dkind_of (dv_type v)) (dv_miss v).
Definition pydim_of (v : dimv) : pydim :=
  mkPyDim (dv_type v) (map Z.of_nat (valid_idxs (dv_miss v))) (dv_name v) (dv_descr v).
Definition dimv_apparent (v : dimv) : bool := negb (dtype_eqb (dv_type v) TMrCat).
(* Dimensions as Model/CubeCounts.v reads dimension.py: shape = [raw_shape], dimension_order,
   apparent_dimensions = everything but the MR selection axes *)
Definition pydims_of (vs : list dimv) : pydims :=
  let ds := map dimd_of vs in
  mkPyDims (map pydim_of vs) (map pydim_of (filter dimv_apparent vs))
           (map Z.of_nat (raw_shape ds)) (map Z.of_nat (dimension_order ds)).

(* numbers of a payload *)
Definition data_json (l : list xq) : json := JList (map JFloat l).
Definition opt_item {A} (k : string) (o : option A) (g : A -> json) : list (string * json) :=
  match o with Some a => [(k, g a)] | None => [] end.
Definition measure_json (d : list xq) : json := JDict [("data"%string, data_json d)].
(* result.measures of a count cube *)
Definition payload_measures (p : payload) : list (string * json) :=
  opt_item "count" (p_count p) measure_json
  ++ opt_item "valid_count_unweighted" (p_vcu p) measure_json
  ++ opt_item "valid_count_weighted" (p_vcw p) measure_json.

(* a key of a JSON object that is missing / null / given *)
Definition field_items {A} (k : string) (f : field A) (g : A -> json) : list (string * json) :=
  match f with Absent => [] | Null => [(k, JNull)] | Val a => [(k, g a)] end.
Definition q_json (q : Q) : json := JFloat (Fin q).
Definition wdict_json (w : wdict) : json :=
  JDict (field_items "selected" (w_selected w) q_json ++ field_items "other" (w_other w) q_json).
Definition fstats_json (fs : fstats) : json :=
  JDict (field_items "filtered_complete" (fs_complete fs)
                     (fun c => JDict (field_items "weighted" c wdict_json))
         ++ [("is_cat_date"%string, JBool (fs_is_cat_date fs))]).
Definition wn_json (f : field Q) : json := JDict (field_items "weighted_n" f q_json).
(* the filter statistics of result, as Model/Population.v reads them *)
Definition fshape_items (r : fshape) : list (string * json) :=
  field_items "filter_stats" (r_filter_stats r) fstats_json
  ++ field_items "filtered" (r_filtered r) wn_json
  ++ field_items "unfiltered" (r_unfiltered r) wn_json.

(* what reading population_fraction does, as the model's [outcome] *)
Definition outcome_of (r : pres json) : outcome :=
  match r with
  | POk j => match json_num j with Some x => Value x | None => Raises end
  | PErr _ => Raises
  end.

(* the keys of a dict other than the ones a lemma describes *)
Definition lacks_keys (d : list (string * json)) (ks : list string) : Prop :=
  forall k, In k ks -> py_dict_get String.eqb d k = None.

(* Cube._cube_response in closed form: a dict is the response, a str is parsed, anything else is a
   TypeError; one {"value": ..} envelope is taken off *)
Definition parsed_response (X : pyext) (arg : json) : pres json :=
  pbind (match arg with JDict _ => POk arg | _ => py_json_loads X arg end)
        (fun j => py_get j "value" j).

(* a response whose result carries the counts / count measures of payload [p] and anything else [more]
   (dimensions, filter statistics, ..; [more] must not give "counts" / "measures" again - they would be
   shadowed anyway: the first entry of a key is the one a lookup finds) *)
Definition count_result (p : payload) (more : list (string * json)) : list (string * json) :=
  [("counts"%string, data_json (p_counts p)); ("measures"%string, JDict (payload_measures p))] ++ more.
Definition count_response (p : payload) (more : list (string * json)) : json :=
  JDict [("result"%string, JDict (count_result p more))].
(* a 1-D float64 array *)
Definition arr1 (d : list xq) : pyarr := mkArr [List.length d] d.

(* ================================================================================================ *)
(** * Cube.inflate / Cube.augment_response in closed form (JSON level)

   Both return a NEW cube on a NEW response that shares what it does not change ([py_dict_set] on a copy:
   the caller's dicts are values here and cannot change), built with the cube's own cube_idx,
   transforms, population and mask size. *)
Definition dset (d : list (string * json)) (k : string) (v : json) : list (string * json) :=
  py_dict_set String.eqb d k v.
Definition dget (d : list (string * json)) (k : string) : option json := py_dict_get String.eqb d k.

(* Cube(resp, self._cube_idx_arg, self._transforms_dict, self._population, self._mask_size) *)
Definition rebuilt_cube (c : pycube) (resp : json) : pycube :=
  mkPyCube resp (if json_is_none (pc_transforms_dict c) then JDict [] else pc_transforms_dict c)
           (pc_cube_idx_arg c)
           (if json_is_none (pc_population c) then JInt 0 else pc_population c) (pc_mask_size c).

(* the rows dimension a numeric-measure response is given back: one category, id 1 *)
Definition rows_dimension_json (alias name : json) : json :=
  JDict [("references"%string, JDict [("alias"%string, alias); ("name"%string, name)]);
         ("type"%string, JDict [("categories"%string, JList [JDict [("id"%string, JInt 1); ("name"%string, name)]]);
                                ("class"%string, JStr "categorical")])].
Definition inflate_alias (refs : list (string * json)) (nums : list string) : json :=
  match dget refs "alias" with Some v => v | None => JStr (str_join "-" nums) end.
(* .title() of the name: None when it is no str (AttributeError) *)
Definition inflate_name (refs : list (string * json)) (nums : list string) : option json :=
  match (match dget refs "name" with Some v => v | None => JStr (str_join "-" nums) end) with
  | JStr s => Some (JStr (title_from false s))
  | _ => None
  end.
(* dict(cube_dict, result=dict(result, dimensions=[rows_dimension] + dims)) *)
Definition inflated_response (top res : list (string * json)) (dimsj : list json) (alias name : json) : json :=
  JDict (dset top "result" (JDict (dset res "dimensions" (JList (rows_dimension_json alias name :: dimsj))))).

(* values = [el.get("value") for el in own elements if isinstance(el.get("value"), (int, str))] *)
Definition aug_values (own_elems : list json) : pres (list json) :=
  pbind (pfilterM (fun el => pbind (py_get el "value" JNull) (fun v => POk (json_is_int_or_str v))) own_elems)
        (fun l => pmapM (fun el => py_get el "value" JNull) l).
(* positions = [item["id"] for item in summary elements if item["value"] in values] *)
Definition aug_positions (summary_elems values : list json) : pres (list json) :=
  pbind (pfilterM (fun it => pbind (py_getitem_str it "value") (fun v => POk (json_in v values))) summary_elems)
        (fun l => pmapM (fun it => py_getitem_str it "id") l).
(* data = [0] * n; for pos, value in zip(positions, values): data[pos] = value *)
Definition aug_fill (n : Z) (positions values : list json) : pres (list json) :=
  pfoldM (fun data pv => py_list_setitem data (fst pv) (snd pv)) (py_zip positions values)
         (map JInt (py_list_repeat [0] n)).
(* the response of the augmented cube: counts and the count measure positioned, dimension 0 with the
   summary's elements, everything else shared *)
Definition augmented_response (top res ms cm dim0 ty0 : list (string * json)) (drest : list json)
           (data cdata sels : list json) : json :=
  JDict (dset top "result"
     (JDict (dset (dset (dset res "counts" (JList data))
                        "measures" (JDict (dset ms "count" (JDict (dset cm "data" (JList cdata))))))
                  "dimensions" (JList (JDict (dset dim0 "type" (JDict (dset ty0 "elements" (JList sels))))
                                       :: drest))))).

(* ================================================================================================ *)
(** * CubeSet._cubes in closed form

   [gR], [gS], [gA], [gI] stand for Cube._cube_response, .is_single_filter_col_cube, .augment_response and
   .inflate; [multi] / [numeric] for CubeSet._is_multi_cube / ._is_numeric_measure.  Every cube is built
   from its own response and transforms with the set's population and min_base (as mask size), cube_idx
   = its position in a multi-cube set and None in a single-cube one; a single-filter-column cube after the
   first is augmented against the PARSED response of the first cube; in a numeric-measure set every cube
   is inflated. *)
Section CubeSetLoop.
  Variable gR : pycube -> pres json.
  Variable gS : pycube -> pres json.
  Variable gA : pycube -> json -> pres pycube.
  Variable gI : pycube -> pres pycube.
  Variables multi numeric : bool.
  Variable s : pycubeset.

  Definition cubeset_cube0 (idx : Z) (resp tr : json) : pycube :=
    mkPyCube resp (if json_is_none tr then JDict [] else tr) (if multi then Some idx else None)
             (if json_is_none (cs_population s) then JInt 0 else cs_population s) (cs_min_base s).

  Definition cubeset_step (summary : option json) (idx : Z) (resp : json) : pres (pycube * option json) :=
    pbind (py_getitem_int (cs_transforms_dicts s) idx) (fun tr =>
    let cube := cubeset_cube0 idx resp tr in
    pbind (if Z.eqb idx 0 then pbind (gR cube) (fun r => POk (Some r)) else POk summary) (fun summary' =>
    pbind (if multi then pbind (gS cube) (fun sc => POk (json_truthy sc && Z.gtb idx 0)) else POk false)
          (fun aug =>
    pbind (if aug then pbind (pres_of_option EUnbound summary') (fun sm => gA cube sm) else POk cube)
          (fun cube1 =>
    pbind (if numeric then gI cube1 else POk cube1) (fun cube2 => POk (cube2, summary')))))).

  Fixpoint cubeset_loop (summary : option json) (idx : Z) (resps : list json) : pres (list pycube) :=
    match resps with
    | [] => POk []
    | r :: t => pbind (cubeset_step summary idx r) (fun cs =>
                pbind (cubeset_loop (snd cs) (idx + 1) t) (fun tl => POk (fst cs :: tl)))
    end.
End CubeSetLoop.
