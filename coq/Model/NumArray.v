(* Model/NumArray.v -- numeric-array cubes and the 0-D nub: names for the pieces of
     src/cr/cube/cube.py   Cube._numeric_array_dimension, Cube._all_dimensions,
                           Dimensions.dimension_order / Dimensions.shape, Cube._valid_idxs
   that Model/CubeCounts.v already executes ([dimension_order], [raw_shape],
   [take_valid_ord]), and the LAYOUT OF THE RESPONSE they have to agree with.

   A numeric-array measure (mean / sum / stddev / median / valid_count_* of an array of
   numeric sub-variables) arrives with the response's own dimensions (the grouping
   variables, possibly none) in payload order and the array item as the LAST, fastest
   axis:   data[ offset(grouping index) * n_items + item ].
   The library prepends a NUM_ARRAY dimension to the dimensions, so results are indexed
   (item :: grouping index).  Definitions only; proofs are in Proofs/NumArrayProofs.v. *)
From Coq Require Import QArith ZArith List Bool Lia Arith.
From CC Require Import Base.XQ Base.ListX Spec.Survey Model.CubeCounts.
Import ListNotations.
Local Close Scope Q_scope.
Local Open Scope nat_scope.

(* Cube._numeric_array_dimension: one element per sub-variable, none of them missing *)
Definition numarr_dim (n : nat) : dimd := mkDim DNumArr (repeat false n).

(* Cube._all_dimensions: the array dimension is put in front of the response's dimensions *)
Definition numarr_dims (n : nat) (gs : list dimd) : list dimd := numarr_dim n :: gs.

(* THE RESPONSE: shape of the measure's data -- grouping axes (missing elements and MR
   selection axes included) in payload order, then the array items *)
Definition numarr_payload_shape (n : nat) (gs : list dimd) : list nat := map dsize gs ++ [n].

(* what the response carries for array item [i] at raw grouping index [gidx] *)
Definition numarr_cell (n : nat) (gs : list dimd) (data : list xq) (i : nat) (gidx : list nat) : xq :=
  of_flat (numarr_payload_shape n gs) data (gidx ++ [i]).

(* what the code computes: measure.raw_cube_array[Cube._valid_idxs], indexed
   (item :: valid grouping index) -- exactly the expression of Model/CubeCounts.v *)
Definition numarr_valid (n : nat) (gs : list dimd) (data : list xq) : tensor :=
  take_valid_ord (numarr_dims n gs) (of_flat (raw_shape (numarr_dims n gs)) data).

(* the order that moves the array axis from the front (dimensions) to the back (payload),
   for any number of dimensions: what [dimension_order] has to be for the response above *)
Definition rotate_order (k : nat) : list nat := seq 1 (k - 1) ++ [0].

(* the 0-D cube (no dimension at all, a plain numeric measure): raw array of shape () *)
Definition nub_value (data : list xq) : xq :=
  take_valid_ord [] (of_flat (raw_shape []) data) [].
