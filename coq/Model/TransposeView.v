(* Model/TransposeView.v -- "exchanging the two dimensions of a response" for what Model/Assemble.v
   takes in and gives out (property C10: label / code / alias / fill lists, inserted / derived /
   difference index lists, marginals, the assembled measures).  Executable; definitions only
   (proofs: Proofs/TransposeLabels.v).

   The raw slice of B x A has the row attributes of A x B as its column attributes and vice versa,
   every matrix measure block transposed with inserted rows <-> inserted columns, and the same
   scalars.  The public lists of a dimension are modelled per dimension ([dim_attrs], [dim_lists]):
   cubepart.py writes them twice (row_labels / column_labels, inserted_row_idxs /
   inserted_column_idxs, ...), each time as a function of (that dimension, that dimension's signed
   display order). *)
From Coq Require Import List ZArith Bool Lia Arith QArith.
From CC Require Import Base.XQ Base.ListX Model.Assemble.
Import ListNotations.
Local Close Scope Q_scope.
Local Open Scope nat_scope.

(* the p x n transpose of an n x p list-of-lists *)
Definition ltranspose {A} (d : A) (n p : nat) (M : list (list A)) : list (list A) :=
  map (fun j => map (fun i => gnth d M i j) (seq 0 n)) (seq 0 p).

(* blocks of B x A from the blocks of A x B (n base rows, m row subtotals, p base columns, q column
   subtotals): base block transposed, inserted rows <-> inserted columns, intersections transposed *)
Definition blocks_T {A} (d : A) (n m p q : nat) (B : blocks A) : blocks A :=
  mkBlocks (ltranspose d n p (b_base B))
           (ltranspose d m p (b_srows B))
           (ltranspose d n q (b_scols B))
           (ltranspose d m q (b_inter B)).

Definition raw_T (R : raw_slice) : raw_slice :=
  mkRaw (r_p R) (r_q R) (r_n R) (r_m R)
        (map (blocks_T NaN (r_n R) (r_m R) (r_p R) (r_q R)) (r_measures R))
        (r_col_marginals R) (r_row_marginals R)
        (r_col_labels R) (r_row_labels R)
        (r_scalars R).

(* ---- the per-dimension public lists of cubepart.py ------------------------------------------- *)
(* what a Dimension offers: element attributes ++ subtotal attributes as tokens, and the flags *)
Record dim_attrs : Type := mkDimAttrs {
  da_labels : list Z * list Z;       (* element_labels, subtotal_labels *)
  da_codes : list Z * list Z;        (* element_ids, insertion_ids *)
  da_aliases : list Z * list Z;      (* element_aliases, subtotal_aliases *)
  da_fills : list Z * list Z;        (* element fills, subtotal fills *)
  da_derived : list bool;            (* Element.derived of the valid elements *)
  da_diff : list bool                (* _Subtotal.is_difference of the subtotals *)
}.

Record dim_lists : Type := mkDimLists {
  dl_labels : list Z; dl_codes : list Z; dl_aliases : list Z; dl_fills : list Z;
  dl_inserted : list nat; dl_derived : list nat; dl_diff : list nat
}.

(* row_labels, row_codes, row_aliases, rows_dimension_fills, inserted_row_idxs, derived_row_idxs,
   diff_row_idxs of _Slice -- from the ROWS dimension and the row order *)
Definition rows_lists (rows_dim : dim_attrs) (ro : list Z) : dim_lists :=
  mkDimLists
    (assemble_vec 0%Z (fst (da_labels rows_dim)) (snd (da_labels rows_dim)) ro)
    (assemble_vec 0%Z (fst (da_codes rows_dim)) (snd (da_codes rows_dim)) ro)
    (assemble_vec 0%Z (fst (da_aliases rows_dim)) (snd (da_aliases rows_dim)) ro)
    (fills_of 0%Z (fst (da_fills rows_dim)) (snd (da_fills rows_dim)) ro)
    (inserted_idxs ro)
    (derived_idxs_slice (da_derived rows_dim) (length (da_diff rows_dim)) ro)
    (diff_idxs (length (da_derived rows_dim)) (da_diff rows_dim) ro).

(* column_labels, column_codes, column_aliases, columns_dimension_fills, inserted_column_idxs,
   derived_column_idxs, diff_column_idxs -- from the COLUMNS dimension and the column order *)
Definition columns_lists (cols_dim : dim_attrs) (co : list Z) : dim_lists :=
  mkDimLists
    (assemble_vec 0%Z (fst (da_labels cols_dim)) (snd (da_labels cols_dim)) co)
    (assemble_vec 0%Z (fst (da_codes cols_dim)) (snd (da_codes cols_dim)) co)
    (assemble_vec 0%Z (fst (da_aliases cols_dim)) (snd (da_aliases cols_dim)) co)
    (fills_of 0%Z (fst (da_fills cols_dim)) (snd (da_fills cols_dim)) co)
    (inserted_idxs co)
    (derived_idxs_slice (da_derived cols_dim) (length (da_diff cols_dim)) co)
    (diff_idxs (length (da_derived cols_dim)) (da_diff cols_dim) co).

(* a slice's two dimensions and its lists; the exchanged slice *)
Definition slice_lists (rows_dim cols_dim : dim_attrs) (ro co : list Z) : dim_lists * dim_lists :=
  (rows_lists rows_dim ro, columns_lists cols_dim co).
