(* Model/MinBaseMask.v -- the minimum-base-size masks as functions of the response (C02).

     src/cr/cube/cubepart.py::_Strand.min_base_size_mask    = self.unweighted_bases < mask_size
     src/cr/cube/min_base_size_mask.py::MinBaseSizeMask
        .row_mask / .column_mask / .table_mask  = <direction>_unweighted_bases < size

   The base that is compared is ALWAYS the unweighted one (Cube.unweighted_counts: the
   unweighted valid counts when the response carries them, else result.counts) -- never the
   weighted measure `count`.  Strict comparison: a base equal to the threshold is not masked;
   a NaN base is never masked.  Definitions only (proofs: Proofs/MinBaseMaskProofs.v); the
   token streams at the end are decoded by harness/props/c02.py, which evaluates them for a
   whole LIST of thresholds per case (just below / at / just above every base that occurs). *)
From Coq Require Import QArith ZArith List Bool.
From CC Require Import Base.XQ Base.ListX Base.Render Model.CubeCounts.
Import ListNotations.
Local Close Scope Q_scope.
Local Open Scope nat_scope.

Definition mask_vec (bases : list xq) (size : xq) : list bool :=
  map (fun b => mask_cell b size) bases.
Definition mask_mat (bases : list (list xq)) (size : xq) : list (list bool) :=
  map (fun r => mask_vec r size) bases.

(* _Strand.min_base_size_mask of partition k *)
Definition strand_mask (ds : list dimd) (p : payload) (ca_as_0th : bool) (k : nat) (size : xq)
  : option (list bool) :=
  match strand_counts ds (unweighted_counts_payload p) ca_as_0th k with
  | Some st => Some (mask_vec (st_bases st) size)
  | None => None
  end.

Record slice_masks := mkSliceMasks {
  km_row : list (list bool); km_column : list (list bool); km_table : list (list bool) }.

(* _Slice.min_base_size_mask.{row,column,table}_mask of partition k *)
Definition slice_mask (ds : list dimd) (p : payload) (k : nat) (size : xq) : option slice_masks :=
  match slice_counts ds (unweighted_counts_payload p) k with
  | Some so => Some (mkSliceMasks (mask_mat (so_row_bases so) size)
                                  (mask_mat (so_column_bases so) size)
                                  (mask_mat (so_table_bases so) size))
  | None => None
  end.

(* ---- token streams: every partition x every threshold of a list ------------------------ *)
Definition r_bvec (l : list bool) : list Z := r_list r_bool l.
Definition r_bmat (m : list (list bool)) : list Z := r_list r_bvec m.

Definition r_strand_masks (ds : list dimd) (p : payload) (ca0 : bool) (sizes : list xq) : list Z :=
  r_list (fun k =>
            match strand_counts ds (unweighted_counts_payload p) ca0 k with
            | Some st => (1 :: r_list (fun size => r_bvec (mask_vec (st_bases st) size)) sizes)%Z
            | None => [0%Z]
            end)
         (seq 0 (n_partitions ds ca0)).

Definition r_slice_masks (ds : list dimd) (p : payload) (sizes : list xq) : list Z :=
  r_list (fun k =>
            match slice_counts ds (unweighted_counts_payload p) k with
            | Some so =>
                (1 :: r_list (fun size => r_bmat (mask_mat (so_row_bases so) size)
                                          ++ r_bmat (mask_mat (so_column_bases so) size)
                                          ++ r_bmat (mask_mat (so_table_bases so) size)) sizes)%Z
            | None => [0%Z]
            end)
         (seq 0 (n_partitions ds false)).
