(* Model of the scale statistics of matrix/measure.py (_ScaleMean, _ScaleMedian,
   _ScaleMeanStddev, _ScaleMeanStderr) and stripe/measure.py.  Executable; no proofs. *)
From Coq Require Import QArith ZArith List Bool Lia Arith.
From CC Require Import Base.XQ Base.ListX.
Import ListNotations.
Local Close Scope Q_scope.
Local Open Scope nat_scope.

(* numeric values of the opposing dimension: NaN for a category without a value *)

(* `_ScaleMean._weighted_mean(proportions, values)`:
     inner = nansum(values * proportions)
     denominator = sum(proportions[~isnan(values)])                                   *)
Definition keep_valued (vals props : list xq) : list xq :=
  map snd (filter (fun vp => negb (is_nan (fst vp))) (combine vals props)).

Definition wmean (props vals : list xq) : xq :=
  xdiv (nansum (map (fun vp => xmul (fst vp) (snd vp)) (combine vals props)))
       (xsum (keep_valued vals props)).


(* ====================================================================================
   Everything below: the scale statistics of one vector (property C14).

   A "vector" is one row (ROWS orientation: over the base columns) or one column (COLUMNS
   orientation: over the base rows) of a slice, base or subtotal.  [vals] are the numeric
   values of the opposing dimension's valid elements in payload order (NaN = no value),
   [counts] the weighted counts of the vector's cells, [bases] their weighted bases.
   ==================================================================================== *)
From CC Require Import Spec.Stats.

Definition xval (o : option Q) : xq := match o with Some v => Fin v | None => NaN end.

(* `is_defined`: not np.all(np.isnan(numeric_values)) -- otherwise the property is None *)
Definition any_value (vals : list xq) : bool := existsb (fun v => negb (is_nan v)) vals.

(* `_ScaleMean._proportions`: counts / weighted bases, cell by cell *)
Definition pdiv (counts bases : list xq) : list xq :=
  map (fun cb => xdiv (fst cb) (snd cb)) (combine counts bases).

Definition scale_mean_vec (counts bases vals : list xq) : xq := wmean (pdiv counts bases) vals.

(* `_BaseMarginal._counts`: comparable counts -- a subtotal DIFFERENCE vector is all NaN *)
Definition comparable (is_diff : bool) (counts : list xq) : list xq :=
  if is_diff then map (fun _ => NaN) counts else counts.

Definition valued_pairs (vals counts : list xq) : list (xq * xq) :=
  filter (fun vc => negb (is_nan (fst vc))) (combine vals counts).

(* `_rows_weighted_mean_stddev` before the square root:
     nansum(counts[valued] * (values[valued] - mean)^2) / sum(counts[valued])             *)
Definition scale_var (counts vals : list xq) (mean : xq) : xq :=
  let vp := valued_pairs vals counts in
  xdiv (nansum (map (fun vc => xmul (snd vc) (xsq (xsub (fst vc) mean))) vp))
       (xsum (map snd vp)).

(* the argument of an np.sqrt: a negative one makes the root (hence its square) NaN *)
Definition sqrt_arg (a : xq) : xq :=
  match a with
  | Fin q => if qneg q then NaN else a
  | Inf true => NaN
  | _ => a
  end.

(* stddev^2 of a vector *)
Definition scale_var_vec (is_diff : bool) (counts bases vals : list xq) : xq :=
  sqrt_arg (scale_var (comparable is_diff counts) vals (scale_mean_vec counts bases vals)).

(* stderr^2 = (stddev / sqrt(margin))^2 ; margin = the vector's weighted margin *)
Definition scale_stderr_sq_vec (is_diff : bool) (counts bases vals : list xq) (margin : xq) : xq :=
  xdiv (scale_var_vec is_diff counts bases vals) (sqrt_arg margin).

(* ---- median ---------------------------------------------------------------------- *)
(* np.nan_to_num on a count (infinite counts do not occur and are not modelled) *)
Definition nan_to_num (a : xq) : Q := match a with Fin q => q | _ => 0%Q end.

Fixpoint cumsum_from (acc : Q) (l : list Q) : list Q :=
  match l with
  | [] => []
  | c :: t => (acc + c)%Q :: cumsum_from (acc + c)%Q t
  end.
Definition cumsum (l : list Q) : list Q := cumsum_from 0%Q l.

Fixpoint first_true (l : list bool) : nat :=
  match l with
  | [] => 0
  | true :: _ => 0
  | false :: t => S (first_true t)
  end.
(* np.argmax of a boolean array: the first True, 0 when there is none *)
Definition argmax_bool (l : list bool) : nat :=
  let k := first_true l in if k <? length l then k else 0.

(* `_ScaleMedian._weighted_median(sorted_counts, sorted_values)` (as repaired by dda43200):
     sorted_counts = nan_to_num(sorted_counts); cum = cumsum(sorted_counts)
     cum[-1] == 0 -> nan
     median_idx = argmax(cum / cum[-1] >= 0.5)
     exactly 0.5 -> mean of values[median_idx] and values[next_idx] where
       next_idx = median_idx + 1 + argmax(sorted_counts[median_idx + 1:] > 0)
     (the next category, in value order, that HAS counts)                                 *)
Definition weighted_median (sorted_counts : list xq) (sorted_values : list Q) : xq :=
  let cs := map nan_to_num sorted_counts in
  let cum := cumsum cs in
  let total := last cum 0%Q in
  if Qeq_bool total 0 then NaN else
  let props := map (fun c => c / total)%Q cum in
  let idx := argmax_bool (map (fun p => Qle_bool (1 # 2) p) props) in
  if Qeq_bool (nth idx props 0%Q) (1 # 2)
  then let nxt := S idx + argmax_bool (map (fun c => negb (Qle_bool c 0)) (skipn (S idx) cs)) in
       Fin ((nth idx sorted_values 0 + nth nxt sorted_values 0) / 2)%Q
  else Fin (nth idx sorted_values 0%Q).

(* HISTORICAL, used by nothing in the model: the rule before the repair dda43200 averaged with
   `median_idx + 1`, the next category in value order even when it is empty.  Kept only for the
   statement (Proofs/ScaleMedianFixProofs.v) that it was not a median. *)
Definition weighted_median_v0 (sorted_counts : list xq) (sorted_values : list Q) : xq :=
  let cs := map nan_to_num sorted_counts in
  let cum := cumsum cs in
  let total := last cum 0%Q in
  if Qeq_bool total 0 then NaN else
  let props := map (fun c => c / total)%Q cum in
  let idx := argmax_bool (map (fun p => Qle_bool (1 # 2) p) props) in
  if Qeq_bool (nth idx props 0%Q) (1 # 2)
  then Fin ((nth idx sorted_values 0 + nth (S idx) sorted_values 0) / 2)%Q
  else Fin (nth idx sorted_values 0%Q).

(* `_values_sort_order`: the indexes of the valued categories, ascending by value.  numpy's
   argsort leaves the order of EQUAL values unspecified, so the order is an input here: any
   [ord] accepted by [valid_order]; [stable_order] is one of them (ties in payload order). *)
Definition valued_idxs (vals : list xq) : list nat :=
  filter (fun i => negb (is_nan (vnth vals i))) (seq 0 (length vals)).
Fixpoint mem_nat (x : nat) (l : list nat) : bool :=
  match l with [] => false | y :: t => (x =? y) || mem_nat x t end.
Fixpoint nodup_nat (l : list nat) : bool :=
  match l with [] => true | x :: t => negb (mem_nat x t) && nodup_nat t end.
Fixpoint ascending (l : list Q) : bool :=
  match l with
  | [] => true
  | x :: t => match t with [] => true | y :: _ => Qle_bool x y && ascending t end
  end.
Definition valid_order (vals : list xq) (ord : list nat) : bool :=
  nodup_nat ord && (length ord =? length (valued_idxs vals))
  && forallb (fun i => (i <? length vals) && negb (is_nan (vnth vals i))) ord
  && ascending (map (fun i => nan_to_num (vnth vals i)) ord).

Fixpoint insert_by (key : nat -> Q) (i : nat) (l : list nat) : list nat :=
  match l with
  | [] => [i]
  | y :: t => if Qle_bool (key i) (key y) then i :: l else y :: insert_by key i t
  end.
Definition stable_order (vals : list xq) : list nat :=
  fold_right (insert_by (fun i => nan_to_num (vnth vals i))) [] (valued_idxs vals).

Definition scale_median_vec (ord : list nat) (is_diff : bool) (counts vals : list xq) : xq :=
  let cc := comparable is_diff counts in
  weighted_median (map (fun i => vnth cc i) ord) (map (fun i => nan_to_num (vnth vals i)) ord).

(* ---- medians computed by expansion (np.repeat + np.median): strand, slice margins ------- *)
(* float -> int64 truncates toward zero; a negative count is not modelled (np.repeat raises) *)
Definition trunc_count (a : xq) : nat :=
  let q := nan_to_num a in Z.to_nat (Z.quot (Qnum q) (Zpos (Qden q))).
Definition expand_valued (vals counts : list xq) : list Q :=
  flat_map (fun vc => repeat (nan_to_num (fst vc)) (trunc_count (snd vc))) (valued_pairs vals counts).
Fixpoint qinsert (x : Q) (l : list Q) : list Q :=
  match l with
  | [] => [x]
  | y :: t => if Qle_bool x y then x :: l else y :: qinsert x t
  end.
Definition qsort (l : list Q) : list Q := fold_right qinsert [] l.
(* np.median of a non-empty array *)
Definition np_median (l : list Q) : Q := middle (qsort l).

(* `_Slice.*_scale_mean_margin` = the same weighted-mean formula over the margin vector;
   `_Slice.*_scale_median_margin`: None when no respondent has a value *)
Definition scale_mean_margin (margin vals : list xq) : xq := wmean margin vals.
Definition scale_median_margin (margin vals : list xq) : option xq :=
  match expand_valued vals margin with
  | [] => None
  | e => Some (Fin (np_median e))
  end.

(* ---- strand (`stripe/measure.py::_ScaledCounts`) ---------------------------------------- *)
(* each result: None = the property is None *)
Definition strand_total (counts vals : list xq) : xq := xsum (map snd (valued_pairs vals counts)).
Definition strand_scale_mean (counts vals : list xq) : option xq :=
  let vp := valued_pairs vals counts in
  match vp with
  | [] => None
  | _ => if xeqb (strand_total counts vals) (Fin 0) then None
         else Some (xdiv (xsum (map (fun vc => xmul (snd vc) (fst vc)) vp)) (strand_total counts vals))
  end.
Definition strand_scale_var (counts vals : list xq) : option xq :=
  match strand_scale_mean counts vals with
  | None => None
  | Some m =>
      Some (xdiv (xsum (map (fun vc => xmul (snd vc) (xsq (xsub (fst vc) m))) (valued_pairs vals counts)))
                 (strand_total counts vals))
  end.
(* stddev^2 and stderr^2 *)
Definition strand_scale_stddev_sq (counts vals : list xq) : option xq :=
  option_map sqrt_arg (strand_scale_var counts vals).
Definition strand_scale_stderr_sq (counts vals : list xq) : option xq :=
  option_map (fun v => sqrt_arg (xdiv v (strand_total counts vals))) (strand_scale_var counts vals).
(* `_ScaledCounts.scale_median` (as repaired by 2ba43316), in the order of the code:
     _numeric_values.size == 0 (no category has a value)            -> None
     np.repeat(values, int(counts)).size == 0 (nobody to expand)    -> None
     otherwise np.median of the expansion                                                   *)
Definition strand_scale_median (counts vals : list xq) : option xq :=
  match valued_pairs vals counts with
  | [] => None
  | _ => match expand_valued vals counts with
         | [] => None
         | e => Some (Fin (np_median e))
         end
  end.
