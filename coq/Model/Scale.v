(* Model of the scale statistics of matrix/measure.py (_ScaleMean, _ScaleMedian,
   _ScaleMeanStddev, _ScaleMeanStderr) and stripe/measure.py.  Executable; no proofs. *)
From Coq Require Import QArith ZArith List Bool Lia Arith.
From CC Require Import Base.XQ Base.ListX.
Import ListNotations.
Local Close Scope Q_scope.
Local Open Scope nat_scope.

(* numeric values of the opposing dimension: NaN for a category without a value *)

(* `_ScaleMean._weighted_mean(proportions, values)`:
     inner = nansum(values * proportions)
     denominator = sum(proportions[~isnan(values)])                                   *)
Definition keep_valued (vals props : list xq) : list xq :=
  map snd (filter (fun vp => negb (is_nan (fst vp))) (combine vals props)).

Definition wmean (props vals : list xq) : xq :=
  xdiv (nansum (map (fun vp => xmul (fst vp) (snd vp)) (combine vals props)))
       (xsum (keep_valued vals props)).
