(* Model/DimType.v -- which DIMENSION_TYPE the code gives to each dimension of a response:
     src/cr/cube/dimension.py   Dimensions.dimension_type, Dimensions.from_dicts (promotion of
                                CA_SUBVAR to MR_SUBVAR), Dimensions.apparent_dimensions
     src/cr/cube/cube.py        Cube._all_dimensions (numeric-array dimension prepended),
                                Cube.dimension_types
   and how Model/CubeCounts.v's dimension kinds follow from it.  Executable, definitions only
   (proofs: Proofs/DimTypeProofs.v).  Tied to the code by harness/props/c01.py: [resolve] is run
   in Coq on what the response SAYS (classes, category ids, "selected" / "date" keys,
   subreferences, aliases) and compared with cube.dimension_types on every case.

   The rule matters for cell values: a dimension taken for a multiple-response selection axis
   is collapsed to its first plane, one taken for a categorical array is not. *)
From Coq Require Import ZArith List Bool Arith.
From CC Require Import Base.Render Model.CubeCounts.
Import ListNotations.
Local Open Scope nat_scope.

(* enums.py: DIMENSION_TYPE members *)
Inductive dtype :=
  TBinned | TCat | TCatDate | TCaCat | TCaSubvar | TDatetime | TLogical | TMrCat | TMrSubvar
| TNumArr | TText.

Definition dtype_code (t : dtype) : nat :=
  match t with
  | TBinned => 0 | TCat => 1 | TCatDate => 2 | TCaCat => 3 | TCaSubvar => 4 | TDatetime => 5
  | TLogical => 6 | TMrCat => 7 | TMrSubvar => 8 | TNumArr => 9 | TText => 10
  end.
Definition dtype_eqb (a b : dtype) : bool := dtype_code a =? dtype_code b.

(* what a category of a "categorical" type says, as far as the rule looks at it:
   its id, whether cat.get("selected") is truthy, whether it has a "date" key *)
Record rcat := mkRCat { rc_id : Z; rc_selected : bool; rc_date : bool }.

(* type.subtype.class of an "enum" type *)
Inductive esub := SVariable | SDatetime | SNumeric | SText | SNumArr.

Inductive rtype :=
| RCategorical (cats : list rcat)
| REnum (sub : esub) (all_have_value : bool).   (* every element has a "value" key *)

(* one entry of result.dimensions: alias (references.alias, numbered), whether
   references.subreferences is non-empty, the type *)
Record rdim := mkRDim { rd_alias : nat; rd_subrefs : bool; rd_type : rtype }.

Fixpoint zlist_eqb (a b : list Z) : bool :=
  match a, b with
  | [], [] => true
  | x :: a', y :: b' => Z.eqb x y && zlist_eqb a' b'
  | _, _ => false
  end.

(* [cat.get("id") for cat in cats] == [1, 0, -1] *)
Definition selection_ids (cats : list rcat) : bool :=
  zlist_eqb (map rc_id cats) [1%Z; 0%Z; (-1)%Z].
(* is_logical: some category flagged selected AND the ids are exactly 1, 0, -1 in this order *)
Definition is_logical (cats : list rcat) : bool :=
  existsb rc_selected cats && selection_ids cats.

(* Dimensions.dimension_type *)
Definition dimension_type (d : rdim) : dtype :=
  match rd_type d with
  | RCategorical cats =>
      if rd_subrefs d then (if is_logical cats then TMrCat else TCaCat)
      else if is_logical cats then TLogical
      else if existsb rc_date cats then TCatDate
      else TCat
  | REnum SVariable _ => TCaSubvar
  | REnum SDatetime _ => TDatetime
  | REnum SNumeric _ => TBinned
  | REnum SText _ => TText
  | REnum SNumArr _ => TNumArr
  end.

Definition has_values (d : rdim) : bool :=
  match rd_type d with REnum _ b => b | RCategorical _ => true end.

(* Dimensions.from_dicts: a CA_SUBVAR dimension all of whose elements carry a "value" becomes
   MR_SUBVAR when ANOTHER dimension with the same alias is MR_CAT *)
Definition promoted (ds : list rdim) (p : nat) (d : rdim) : bool :=
  has_values d
  && existsb (fun q => negb (q =? p)
                       && (rd_alias (nth q ds d) =? rd_alias d)
                       && dtype_eqb (dimension_type (nth q ds d)) TMrCat)
             (seq 0 (length ds)).
Definition resolve_at (ds : list rdim) (p : nat) (d : rdim) : dtype :=
  match dimension_type d with
  | TCaSubvar => if promoted ds p d then TMrSubvar else TCaSubvar
  | t => t
  end.
Definition dflt_rdim : rdim := mkRDim 0 false (RCategorical []).
Definition resolve (ds : list rdim) : list dtype :=
  map (fun p => resolve_at ds p (nth p ds dflt_rdim)) (seq 0 (length ds)).

(* Cube._all_dimensions: a numeric-array measure (metadata.type.subvariables of the first
   numeric measure non-empty) puts its own dimension, with the measure's alias, in front *)
Definition all_rdims (numarr_alias : option nat) (ds : list rdim) : list rdim :=
  match numarr_alias with
  | Some a => mkRDim a false (REnum SNumArr true) :: ds
  | None => ds
  end.

(* Cube.dimension_types: the types of the apparent dimensions (MR_CAT suppressed) *)
Definition apparent_types (ts : list dtype) : list dtype :=
  filter (fun t => negb (dtype_eqb t TMrCat)) ts.
Definition cube_dimension_types (numarr_alias : option nat) (ds : list rdim) : list dtype :=
  apparent_types (resolve (all_rdims numarr_alias ds)).

(* the dimension kind Model/CubeCounts.v works with (its [cls_of] / [is_mrcat] / [is_numarr]
   are the "MR" / "ARR" / "CAT" strings and the MR_CAT / NUM_ARRAY tests of the code) *)
Definition dkind_of (t : dtype) : dkind :=
  match t with
  | TMrSubvar => DMrSubvar
  | TMrCat => DMrCat
  | TCaSubvar => DCaSubvar
  | TNumArr => DNumArr
  | _ => DCat
  end.
Definition dims_of_response (numarr_alias : option nat) (ds : list rdim) (miss : list (list bool))
  : list dimd :=
  map (fun tm => mkDim (dkind_of (fst tm)) (snd tm))
      (combine (resolve (all_rdims numarr_alias ds)) miss).

(* token streams for the correspondence check *)
Definition r_dtypes (ts : list dtype) : list Z := r_list (fun t => r_nat (dtype_code t)) ts.
Definition r_dkinds (ds : list dimd) : list Z :=
  r_list (fun d => r_nat (match dk d with
                          | DCat => 0 | DMrSubvar => 1 | DMrCat => 2 | DCaSubvar => 3 | DNumArr => 4
                          end)) ds.
