(* Model/SubtotalIds.v -- which insertion dicts of a dimension become subtotals, and which
   base-element OFFSETS each subtotal adds / subtracts.  Model of

     src/cr/cube/dimension.py::_Subtotals._iter_valid_subtotal_dicts   (the validity gauntlet)
     src/cr/cube/dimension.py::_Subtotal.addend_ids / addend_idxs / subtrahend_ids /
                                subtrahend_idxs / is_difference

   [ids] = element ids of the VALID (non-missing) elements of the dimension in payload order
   (`valid_elements.element_ids`).  Element references are Python values (Base/Ident.v: an
   int never equals a str, None equals only None).  Executable; no proofs here (they are in
   Proofs/MergeIds.v).

   Outside the model: an insertion dict whose "kwargs" is not a dict or whose term lists are
   not lists / contain unhashable values (the code raises); MR / CA-subvariable dimensions
   (`Dimension.subtotals` is empty for them whatever the dicts say: [dim_subtotals]). *)
From Coq Require Import ZArith List Bool Arith.
From CC Require Import Base.Ident Model.Subtotals.
Import ListNotations.
Local Open Scope nat_scope.

(* exactly the fields of an insertion dict the code looks at *)
Record insdict := mkInsDict {
  i_is_dict : bool;            (* isinstance(insertion_dict, dict) *)
  i_fn_subtotal : bool;        (* insertion_dict.get("function") == "subtotal" *)
  i_hide_true : bool;          (* insertion_dict.get("hide") is True *)
  i_has_anchor : bool;         (* "anchor" in insertion_dict *)
  i_has_name : bool;           (* "name" in insertion_dict *)
  i_kw_positive : list ident;  (* kwargs.positive; [] when absent / None / empty (all falsy) *)
  i_args : list ident;         (* args; [] when absent *)
  i_negative : list ident }.   (* kwargs.negative; [] when absent *)

Definition is_nil {A} (l : list A) : bool := match l with [] => true | _ => false end.

(* `kwargs.get("positive") or args` *)
Definition positive_terms (d : insdict) : list ident :=
  if is_nil (i_kw_positive d) then i_args d else i_kw_positive d.
Definition negative_terms (d : insdict) : list ident := i_negative d.

(* _Subtotals._iter_valid_subtotal_dicts: one `continue` per conjunct, in the code's order *)
Definition valid_subtotal (ids : list ident) (d : insdict) : bool :=
  i_is_dict d
  && i_fn_subtotal d
  && negb (i_hide_true d)
  && (i_has_anchor d && i_has_name d)
  && negb (is_nil (positive_terms d) && is_nil (negative_terms d))
  && existsb (fun x => py_in x ids) (positive_terms d ++ negative_terms d).

(* _Subtotal.addend_ids / subtrahend_ids: the listed ids that are valid element ids,
   in the order (and multiplicity) they are listed *)
Definition kept_ids (ids terms : list ident) : list ident :=
  filter (fun a => py_in a ids) terms.

(* _Subtotal.addend_idxs / subtrahend_idxs:
     idx for idx, el in enumerate(valid_elements) if el.element_id in <kept ids>          *)
Definition idxs_of (ids kept : list ident) : list nat :=
  filter (fun i => py_in (nth i ids INone) kept) (seq 0 (length ids)).

Definition resolve (ids terms : list ident) : list nat := idxs_of ids (kept_ids ids terms).

Definition subtotal_of (ids : list ident) (d : insdict) : subtotal :=
  mkSub (resolve ids (positive_terms d)) (resolve ids (negative_terms d)).

(* _Subtotal.is_difference = bool(subtrahend_ids) *)
Definition is_difference (ids : list ident) (d : insdict) : bool :=
  negb (is_nil (kept_ids ids (negative_terms d))).

(* _Subtotals._subtotals: the valid dicts in definition order *)
Definition subtotals_of (ids : list ident) (ds : list insdict) : list subtotal :=
  map (subtotal_of ids) (filter (valid_subtotal ids) ds).

(* Dimension.subtotals: none on an array (MR / CA subvariables) dimension; insertions in the
   dimension transforms (key present, even with an empty list) override those of the view *)
Definition dim_subtotals (is_array : bool) (ids : list ident)
           (transform_insertions : option (list insdict)) (view_insertions : list insdict)
  : list subtotal :=
  if is_array then []
  else match transform_insertions with
       | Some ds => subtotals_of ids ds
       | None => subtotals_of ids view_insertions
       end.

(* _Slice.diff_row_idxs / diff_column_idxs before ordering: which of the valid subtotals are
   differences *)
Definition differences_of (ids : list ident) (ds : list insdict) : list bool :=
  map (is_difference ids) (filter (valid_subtotal ids) ds).
