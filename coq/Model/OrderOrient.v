(* Model/OrderOrient.v -- the two order helpers of a slice side by side (property C10: the signed
   display orders of a response and of its transpose).  Executable; definitions only (proofs:
   Proofs/TransposeLabels.v).

     src/cr/cube/matrix/assembler.py
        _RowOrderHelper      : rows dimension, _empty_row_idxs, _prune_subtotals from the COLUMNS
                               dimension (prune and every base column empty)
        _ColumnOrderHelper   : columns dimension, _empty_column_idxs, _prune_subtotals from the ROWS
                               dimension
        the sort-by-value helpers of either side (Model/SortKeys.v [rows_values] / [columns_values])

   [slice_row_order] / [slice_column_order] put the pieces of Model/Collator.v and Model/SortKeys.v
   together the way the two helper classes do; [dims_T] exchanges the two dimensions, [mb_T]
   transposes the four blocks of the measure a sort reads its keys from. *)
From Coq Require Import List ZArith String Bool Lia Arith QArith.
From CC Require Import Base.XQ Base.SortX Spec.OrderSpec Model.Collator Model.SortKeys.
Import ListNotations.
Local Close Scope Q_scope.
Local Open Scope nat_scope.

Record slice_dims : Type := mkSliceDims {
  sd_rows : dimension;                         (* dimensions[0] *)
  sd_cols : dimension;                         (* dimensions[1] *)
  sd_row_req : order_req;                      (* the "order" dict of the rows dimension *)
  sd_col_req : order_req;
  sd_row_empties : list nat;                   (* np.where(rows_pruning_mask)[0] *)
  sd_col_empties : list nat;                   (* np.where(columns_pruning_mask)[0] *)
  sd_row_labels : list string * list string;   (* element_labels, subtotal_labels *)
  sd_col_labels : list string * list string
}.

(* what a sort-by-value helper reads of the OPPOSING dimension *)
Definition opposing_of (d : dimension) : opposing :=
  mkOpp (d_ids d) (map fst (subtotals d)) (d_array d).

(* _RowOrderHelper (and its sort-by-value subclasses)._display_order *)
Definition slice_row_order (sd : slice_dims) (env : menv) (marg : venv) : res (list Z) :=
  rows_order (sd_rows sd) (sd_row_req sd) (opposing_of (sd_cols sd)) env marg
             (fst (sd_row_labels sd)) (snd (sd_row_labels sd)) (sd_row_empties sd)
             (prune_subtotals (d_prune (sd_cols sd)) (sd_col_empties sd)
                              (List.length (d_ids (sd_cols sd)))).

(* _ColumnOrderHelper (and its sort-by-value subclasses)._display_order *)
Definition slice_column_order (sd : slice_dims) (env : menv) : res (list Z) :=
  columns_order (sd_cols sd) (sd_col_req sd) (opposing_of (sd_rows sd)) env
                (fst (sd_col_labels sd)) (snd (sd_col_labels sd)) (sd_col_empties sd)
                (prune_subtotals (d_prune (sd_rows sd)) (sd_row_empties sd)
                                 (List.length (d_ids (sd_rows sd)))).

(* the p x n transpose of an n x p block of numbers *)
Definition mtr (n p : nat) (M : list (list xq)) : list (list xq) :=
  map (fun j => map (fun i => nth j (nth i M []) NaN) (seq 0 n)) (seq 0 p).

(* the four blocks of a measure of B x A from those of A x B (n base rows, m row subtotals,
   p base columns, q column subtotals) *)
Definition mb_T (n m p q : nat) (b : mblocks) : mblocks :=
  mkBlocks (mtr n p (mb_base b)) (mtr m p (mb_srows b)) (mtr n q (mb_scols b)) (mtr m q (mb_inter b)).

Definition mb_rect (n p : nat) (M : list (list xq)) : Prop :=
  List.length M = n /\ Forall (fun r => List.length r = p) M.
Definition mb_wf (n m p q : nat) (b : mblocks) : Prop :=
  mb_rect n p (mb_base b) /\ mb_rect n q (mb_scols b) /\ mb_rect m p (mb_srows b) /\ mb_rect m q (mb_inter b).

(* "the key is the transposed key": what looking up the sort measure gives on B x A ([r']) against
   what it gives on A x B ([r]) -- the same outcome, and when there are blocks they are well-shaped
   and transposes of each other *)
Definition key_T (n m p q : nat) (r' r : res (option mblocks)) : Prop :=
  match r with
  | Ok (Some b) => mb_wf n m p q b /\ r' = Ok (Some (mb_T n m p q b))
  | Ok None => r' = Ok None
  | Err c => r' = Err c
  end.

(* the order request with another measure keyword (row_percent on B x A is col_percent on A x B) *)
Definition with_measure (o : order_req) (kw : option string) : order_req :=
  mkOrd (o_type o) kw (o_marginal o) (o_element_id o) (o_insertion_id o) (o_spec o) (o_explicit o).

(* direction mirror of a measure keyword; a direction-free keyword is its own mirror *)
Definition mirror_pairs : list (string * string) :=
  [ ("col_base_unweighted", "row_base_unweighted"); ("col_base_weighted", "row_base_weighted");
    ("col_percent", "row_percent"); ("col_percent_moe", "row_percent_moe");
    ("col_share_sum", "row_share_sum"); ("col_std_dev", "row_std_dev"); ("col_std_err", "row_std_err") ]%string.
Fixpoint mirror_in (l : list (string * string)) (k : string) : option string :=
  match l with
  | [] => None
  | (a, b) :: t => if String.eqb k a then Some b else if String.eqb k b then Some a else mirror_in t k
  end.
Definition mirror_kw (k : string) : string :=
  match mirror_in mirror_pairs k with Some k' => k' | None => k end.

(* the exchanged response: B x A from A x B.  The order request of a dimension moves with it; its
   measure keyword is direction-mirrored (sorting the columns of A x B by `col_percent` is sorting the
   rows of B x A by `row_percent`) *)
Definition mirror_req (o : order_req) : order_req := with_measure o (option_map mirror_kw (o_measure o)).
Definition dims_T (sd : slice_dims) : slice_dims :=
  mkSliceDims (sd_cols sd) (sd_rows sd) (mirror_req (sd_col_req sd)) (mirror_req (sd_row_req sd))
              (sd_col_empties sd) (sd_row_empties sd) (sd_col_labels sd) (sd_row_labels sd).

(* the same for the property names of the measures object *)
Definition mirror_prop_pairs : list (string * string) :=
  [ ("column_unweighted_bases", "row_unweighted_bases"); ("column_weighted_bases", "row_weighted_bases");
    ("column_proportions", "row_proportions"); ("column_std_err", "row_std_err");
    ("column_share_sum", "row_share_sum"); ("column_proportion_variances", "row_proportion_variances") ]%string.
Definition mirror_prop (p : string) : string :=
  match mirror_in mirror_prop_pairs p with Some p' => p' | None => p end.

(* the measures object of B x A given that of A x B: every property is the transposed twin *)
Definition env_T (n m p q : nat) (env : menv) : menv :=
  fun prop => option_map (mb_T n m p q) (env (mirror_prop prop)).
