(* PyCollator: what the generated text of coq/Gen/CollatorSrc.v (shallow translation of
   src/cr/cube/collator.py by harness/translate/x_collator.py) is written in, besides Base/PyList.v:

   * the Python objects a collator READS, as records: the collator itself ([pycollator]: the
     attributes its __init__ stores), the dimension ([pydim]: exactly the attributes collator.py
     reads - valid_elements, element_ids, subtotals, subtotals_in_payload_order, hidden_idxs, prune,
     order_spec), the order spec ([pyspec]) and a _Subtotal ([pysub]: insertion_id, anchor); elements
     are the model's [elem]; a bogus id "ins_N" is the integer N (as in the model's [EIns N]);
   * the exception monad ([res] of Model/Collator.v) with the monadic map / fold a comprehension /
     a loop with a raising body becomes, d[k] and d.pop(k) with KeyError, try/except;
   * the readers of the two anchor domains (_Subtotal.anchor : [nanchor], Element.anchor : [danchor]);
   * sorted() of (value, idx) pairs = [sort_vkeys] of the model (C08_*_any_sort_same_order: any
     sorting algorithm returns this list);
   * [pydim_of] / [pyself_of]: the Python view of a model [dimension] (how Model/Collator.v reads
     the dimension-side quantities; dimension.py itself is tied by the correspondence checks).

   Definitions only (lemmas: Proofs/GenAgreeCollatorLib.v). *)
From Coq Require Import List ZArith String Bool Arith.
From CC Require Import Base.XQ Base.SortX Base.PyList Spec.OrderSpec Model.Collator.
Import ListNotations.
Local Open Scope Z_scope.

(* enums.ORDER_FORMAT *)
Inductive order_format : Type := SIGNED_INDEXES | BOGUS_IDS.
Definition order_format_eqb (a b : order_format) : bool :=
  match a, b with
  | SIGNED_INDEXES, SIGNED_INDEXES | BOGUS_IDS, BOGUS_IDS => true
  | _, _ => false
  end.

(* _Subtotal: (insertion_id, anchor); _Subtotals.bogus_ids / insertion_ids *)
Definition pysub : Type := (Z * nanchor)%type.
Definition ps_insertion_id (s : pysub) : Z := fst s.
Definition ps_anchor (s : pysub) : nanchor := snd s.
Definition pysubs_bogus_ids (l : list pysub) : list Z := map ps_insertion_id l.
Definition pysubs_insertion_ids (l : list pysub) : list Z := map ps_insertion_id l.

(* _OrderSpec *)
Record pyspec : Type := mkPySpec {
  po_element_ids : list ident;
  po_top_fixed_ids : list ident;
  po_bottom_fixed_ids : list ident;
  po_descending : bool
}.

(* Dimension *)
Record pydim : Type := mkPyDim {
  pd_valid_elements : list elem;
  pd_element_ids : list ident;
  pd_subtotals : list pysub;
  pd_subtotals_in_payload_order : list pysub;
  pd_hidden_idxs : list Z;
  pd_prune : bool;
  pd_order_spec : pyspec
}.

(* a collator object: what __init__ stores *)
Record pycollator : Type := mkPyCollator {
  pc_dimension : pydim;
  pc_empty_idxs : list Z;
  pc_format : order_format;
  pc_element_values : list sval;
  pc_subtotal_values : list sval
}.

(* --- exceptions ------------------------------------------------------------------------- *)
Fixpoint py_mapM {A B} (f : A -> res B) (l : list A) : res (list B) :=
  match l with
  | [] => Ok []
  | x :: t => bind (f x) (fun y => bind (py_mapM f t) (fun r => Ok (y :: r)))
  end.
Fixpoint py_foldM {S A} (f : S -> A -> res S) (l : list A) (s : S) : res S :=
  match l with
  | [] => Ok s
  | x :: t => bind (f s x) (fun s' => py_foldM f t s')
  end.
Definition py_dict_getitem {K V} (eqb : K -> K -> bool) (d : list (K * V)) (k : K) : res V :=
  match py_dict_get eqb d k with Some v => Ok v | None => Err KeyError end.
Definition py_dict_popitem {K V} (eqb : K -> K -> bool) (d : list (K * V)) (k : K)
  : res (V * list (K * V)) :=
  match py_dict_pop eqb d k with Some x => Ok x | None => Err KeyError end.
(* try: <body> except <code>: <handler> *)
Definition py_try_except {A} (body : res A) (code : Z) (handler : res A) : res A :=
  match body with
  | Err c => if Z.eqb c code then handler else Err c
  | ok => ok
  end.

(* np.isnan(value): TypeError on a label *)
Definition np_isnan (v : sval) : res bool :=
  match v with
  | VNum x => Ok (match x with NaN => true | _ => false end)
  | VStr _ => Err TypeError
  end.

(* --- _Subtotal.anchor: "top" | "bottom" | int | any other (lower-cased) string -------------- *)
(* [NOther s] stands for a string that is neither "top" nor "bottom" nor readable by int() *)
Definition nanchor_eq_str (a : nanchor) (s : string) : bool :=
  match a with
  | NTop => String.eqb s "top"
  | NBottom => String.eqb s "bottom"
  | NAt _ | NOther _ => false
  end.
(* int(anchor) *)
Definition py_int_nanchor (a : nanchor) : res Z :=
  match a with NAt z => Ok z | _ => Err ValueError end.

(* --- Element.anchor: None | "top" | "bottom" | {"alias": .., "position": ..} ---------------- *)
(* Element.anchor is None for an element that is not derived; [DRel b alias]: position "before"
   when b, else "after" (any other position string is read like "after") *)
Definition py_elem_anchor (e : elem) : danchor := if e_derived e then e_danchor e else DNone.
Definition danchor_is_none (a : danchor) : bool := match a with DNone => true | _ => false end.
Definition danchor_eq_str (a : danchor) (s : string) : bool :=
  match a with
  | DTop => String.eqb s "top"
  | DBottom => String.eqb s "bottom"
  | _ => false
  end.
(* anchor.get(key) *)
Definition danchor_get_ident (a : danchor) (k : string) : ident :=
  match a with DRel _ al => if String.eqb k "alias" then al else INone | _ => INone end.
Definition danchor_get_str (a : danchor) (k : string) : string :=
  match a with
  | DRel b _ => if String.eqb k "position" then (if b then "before" else "after") else ""
  | _ => ""
  end%string.

(* Elements.get_by_id: {e.element_id: e for e in self}[id] - the LAST element with that id *)
Definition elements_get_by_id (els : list elem) (i : ident) : res elem :=
  fold_left (fun acc e => if ident_eqb (e_id e) i then Ok e else acc) els (Err KeyError).

(* sorted(pairs, reverse=r) on (value, idx) pairs *)
Definition py_sorted_vals (reverse : bool) (l : list vkey) : list vkey := sort_vkeys reverse l.

(* --- the Python view of a model dimension ---------------------------------------------------- *)
Definition pysubs_of (d : dimension) (subs : list (Z * insertion)) : list pysub :=
  map (fun s => (fst s, norm_anchor (d_ids d) (i_anchor (snd s)))) subs.

Definition pydim_of (d : dimension) (spec : pyspec) : pydim :=
  mkPyDim (d_elems d) (d_ids d)
          (pysubs_of d (subtotals d)) (pysubs_of d (subtotals_in_payload_order d))
          (map Z.of_nat (hidden_idxs d)) (d_prune d) spec.

Definition pyself_of (d : dimension) (spec : pyspec) (empties : list nat) (fmt : order_format)
           (vals svals : list sval) : pycollator :=
  mkPyCollator (pydim_of d spec) (map Z.of_nat empties) fmt vals svals.
