(* Model/DimValues.v -- what a Dimension of src/cr/cube/dimension.py READS OUT of the response and the
   transforms, as far as properties C14 (numeric values), C20 (smoothing window) and C05 / C10 (labels,
   aliases, names) speak about it.  The values are the JSON values of Base/PyDict.v ([jv]): this file says WHICH
   entry of WHICH dict each output is, nothing about Python.

     Element.numeric_value, Dimension.numeric_values     [numeric_value_of], [numeric_values_jv], [numeric_values]
     Dimension.smoothing_dict -> the smoother's window    [smoother_of], [transforms_window]  (-> Smoothing.window_of)
     Element.label / alias, Dimension.element_labels ..   [element_label], [element_alias], [element_labels] ..
     _Subtotal.label / alias                              [subtotal_label], [subtotal_alias]
     Dimension.name / description / alias                 [dimension_name], [dimension_description], [dimension_alias]
     Elements._hidden_transforms (MR_SUBVAR)              [hidden_transforms]

   Executable, definitions only (meaning theorems: Proofs/DimValuesProofs.v; tie to the source text:
   Proofs/GenAgreeDimType*.v; sampled correspondence: harness/props/dimtype_legs.py). *)
From Coq Require Import List ZArith String Bool Arith QArith.
From CC Require Import Base.XQ Base.Ident Base.PyList Base.PyDict Base.Render.
Import ListNotations.
Local Close Scope Q_scope.
Local Open Scope Z_scope.

Definition jget (d : jdict) (k : string) : option jv := jd_get d (JStr k).
Definition jor_empty (v : jv) : jv := if jv_truthy v then v else JStr "".

(* --- elements of a type definition ----------------------------------------------------------------------- *)
(* a category / enum element is missing when its "missing" entry is truthy *)
Definition def_missing (def : jv) : bool :=
  match def with JDict e => match jget e "missing" with Some v => jv_truthy v | None => false end | _ => false end.
Definition valid_defs (defs : list jv) : list jv := filter (fun d => negb (def_missing d)) defs.

(* --- C14: numeric values ------------------------------------------------------------------------------------ *)
(* Element.numeric_value: the "numeric_value" entry; absent or null is NaN (0 is a value) *)
Definition numeric_value_of (e : jdict) : jv :=
  match jget e "numeric_value" with
  | None | Some JNone => JFloat NaN
  | Some v => v
  end.
Definition def_numeric_value (def : jv) : jv :=
  match def with JDict e => numeric_value_of e | _ => JFloat NaN end.
(* Dimension.numeric_values: one per VALID element, in payload order *)
Definition numeric_values_jv (defs : list jv) : list jv := map def_numeric_value (valid_defs defs).
(* the vector Model/Scale.v takes ([vals]): the number, NaN for none *)
Definition xq_of_jv (v : jv) : xq := match jv_number v with Some x => x | None => NaN end.
Definition numeric_values (defs : list jv) : list xq := map xq_of_jv (numeric_values_jv defs).

(* --- C20: the smoother's window ------------------------------------------------------------------------------ *)
(* Dimension.smoothing_dict: the "smoother" entry of the dimension transforms, {} when absent / null / empty *)
Definition smoother_of (tr : jdict) : jv :=
  match jget tr "smoother" with
  | Some v => if jv_truthy v then v else JDict []
  | None => JDict []
  end.
(* smoothing_dict.get("window") as Model/Smoothing.v [window_of] takes it: an integer (0 included), None when
   the entry is absent or null *)
Definition window_entry (sd : jv) : option jv :=
  match sd with JDict s => jget s "window" | _ => None end.
Definition raw_window (sd : jv) : option Z :=
  match window_entry sd with Some (JInt w) => Some w | _ => None end.
Definition transforms_window (tr : jdict) : option Z := raw_window (smoother_of tr).
Definition smoother_function (tr : jdict) : jv :=
  match smoother_of tr with JDict s => match jget s "function" with Some v => v | None => JNone end | _ => JNone end.

(* --- C05 / C10: labels and aliases ------------------------------------------------------------------------------ *)
(* _ElementTransforms.name: None when the transforms have no "name"; otherwise str(name), "" for a falsy one.
   [None] (of the option) = str() of a float / list / dict, which the embedding does not describe *)
Definition xform_name (xf : jdict) : option jv :=
  match jget xf "name" with
  | None => Some JNone
  | Some n => if jv_truthy n then option_map JStr (jv_str n) else Some (JStr "")
  end.

(* the part of Element._str_representation_for after the transforms: the element's own `key` entry, else
   value.references[key] of an array element.  [None] = the label formatter is called (numeric, datetime, text
   values, ranges) or the value is a bool: not described *)
Definition base_repr (e : jdict) (key : string) : option jv :=
  match jget e key with
  | Some v => Some (jor_empty v)
  | None =>
      match jget e "value" with
      | None | Some JNone => Some (JStr "")
      | Some (JDict val) =>
          match jget val "references" with
          | None => Some (JStr "")
          | Some (JDict refs) =>
              Some (match jget refs key with Some v => jor_empty v | None => JStr "" end)
          | Some _ => None
          end
      | Some _ => None
      end
  end.
(* Element.label: an analysis-specific name wins (even ""), then the element's own name *)
Definition element_label (xf e : jdict) : option jv :=
  match xform_name xf with
  | Some JNone => base_repr e "name"
  | Some n => Some (jor_empty n)
  | None => None
  end.
(* Element.alias: never transformed *)
Definition element_alias (e : jdict) : option jv := base_repr e "alias".

(* _Subtotal.label / alias *)
Definition subtotal_label (ins : jdict) : jv :=
  match jget ins "name" with Some v => jor_empty v | None => JStr "" end.
Definition subtotal_alias (ins : jdict) : jv :=
  match jget ins "alias" with Some v => jor_empty v | None => JStr "" end.

(* Dimension.name: transforms "name" (even null) > references "name" (even null) > references "alias";
   a falsy result is "".  Dimension.description likewise, without the alias fall-back. *)
Definition dimension_name (refs tr : jdict) : jv :=
  jor_empty (match jget tr "name" with
             | Some v => v
             | None => match jget refs "name" with
                       | Some v => v
                       | None => match jget refs "alias" with Some v => v | None => JNone end
                       end
             end).
Definition dimension_description (refs tr : jdict) : jv :=
  jor_empty (match jget tr "description" with
             | Some v => v
             | None => match jget refs "description" with Some v => v | None => JNone end
             end).
Definition dimension_alias (refs : jdict) : jv :=
  match jget refs "alias" with Some v => v | None => JNone end.

(* --- MR_SUBVAR: Elements._hidden_transforms ---------------------------------------------------------------------- *)
(* {k: v for ..}[c] on (key, value) pairs: the LAST pair with key c *)
Fixpoint find_last {A} (c : ident) (l : list (ident * A)) : option A :=
  match l with
  | [] => None
  | (k, x) :: t =>
      match find_last c t with
      | Some y => Some y
      | None => if ident_eqb k c then Some x else None
      end
  end.

(* [defs]: per element of the subvariables dimension its value.id (for a derived insertion: the NAME of the
   insertion) and its element id (subvar_alias, else id); [hidden]: the names of the insertions of the transforms
   whose "hide" is truthy.  The result maps the element id of every such insertion that is an element to
   {"hide": True} *)
Definition hide_true : jdict := [(JStr "hide", JBool true)].
Definition hidden_pairs (defs : list (ident * ident)) (hidden : list ident) : list (ident * jdict) :=
  flat_map (fun nm => match find_last nm defs with Some eid => [(eid, hide_true)] | None => [] end) hidden.
Definition hidden_transforms (defs : list (ident * ident)) (hidden : list ident) : jdict :=
  map (fun p => (jv_of_ident (fst p), JDict (snd p))) (py_dict_of_pairs ident_eqb (hidden_pairs defs hidden)).

(* --- DATETIME: the strptime format the element values of a datetime dimension are read with, by resolution ------------ *)
Definition datetime_formats : list (string * string) :=
  [("Y", "%Y"); ("Q", "%Y-%m"); ("3M", "%Y-%m"); ("M", "%Y-%m"); ("W", "%Y-%m-%d"); ("D", "%Y-%m-%d");
   ("h", "%Y-%m-%dT%H"); ("m", "%Y-%m-%dT%H:%M"); ("s", "%Y-%m-%dT%H:%M:%S"); ("ms", "%Y-%m-%dT%H:%M:%S.%f");
   ("us", "%Y-%m-%dT%H:%M:%S.%f")]%string.

(* --- token streams for the correspondence (harness/props/dimtype_legs.py) ----------------------------------------- *)
(* a JSON value as tokens: tag, then the payload (strings as their character codes) *)
Fixpoint r_string (s : string) : list Z :=
  match s with
  | EmptyString => []
  | String c r => Z.of_nat (Ascii.nat_of_ascii c) :: r_string r
  end.
Definition r_str (s : string) : list Z := r_nat (String.length s) ++ r_string s.
Fixpoint r_jv (v : jv) : list Z :=
  match v with
  | JNone => [0]
  | JBool b => 1 :: r_bool b
  | JInt z => 2 :: r_Z z
  | JStr s => 3 :: r_str s
  | JFloat x => 4 :: r_xq x
  | JList l => 5 :: r_nat (List.length l) ++ flat_map r_jv l
  | JDict d => 6 :: r_nat (List.length d)
                 ++ (fix go (d : list (jv * jv)) : list Z :=
                       match d with [] => [] | (k, x) :: t => r_jv k ++ r_jv x ++ go t end) d
  end.
Definition r_ojv (o : option jv) : list Z := match o with Some v => 1 :: r_jv v | None => [0] end.
Definition r_oZ (o : option Z) : list Z := match o with Some z => 1 :: r_Z z | None => [0] end.
