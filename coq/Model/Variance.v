(* Model of the proportion variances, standard errors and margins of error:
   matrix/measure.py (_ProportionVariances, _Row/_Column/_TableStandardError),
   matrix/subtotals.py (PositiveTermSubtotals, NegativeTermSubtotals),
   stripe/measure.py (_TableProportionVariances/-Stddevs/-Stderrs), cubepart.py (Z_975).
   Square roots are not modelled: the model gives the SQUARE of std-dev, std-err, MoE.
   Executable; no proofs here. *)
From Coq Require Import QArith ZArith List Bool Lia Arith.
From CC Require Import Base.XQ Base.ListX Model.Subtotals Model.Proportions.
Import ListNotations.
Local Close Scope Q_scope.
Local Open Scope nat_scope.

(* _calc_var:  (1-p)^2 Np/Nt + (0-p)^2 Ni/Nt + (-1-p)^2 Nn/Nt *)
Definition calc_var (p Nt Np Ni Nn : xq) : xq :=
  xadd (xadd (xmul (xsq (xsub (Fin 1) p)) (xdiv Np Nt))
             (xmul (xsq (xsub (Fin 0) p)) (xdiv Ni Nt)))
       (xmul (xsq (xsub (Fin (-1)) p)) (xdiv Nn Nt)).

(* Z_975 = 1.959964 *)
Definition Z975 : Q := (1959964 # 1000000)%Q.

Section Terms.
  Variable counts : mat.          (* weighted counts, base block nr x nc *)
  Variable nr nc : nat.
  Variable rsubs csubs : list subtotal.
  Let nrs := length rsubs.
  Let ncs := length csubs.
  Let rsub k := nth k rsubs nosub.
  Let csub l := nth l csubs nosub.

  (* PositiveTermSubtotals *)
  Definition pos_row (s : subtotal) (j : nat) : xq := sum_rows counts (s_add s) j.
  Definition pos_blocks : blocks :=
    {| b_base := counts;
       b_cols := tab2 nr ncs (fun i l => sum_cols counts i (s_add (csub l)));
       b_rows := tab2 nrs nc (fun k j => pos_row (rsub k) j);
       b_inter := tab2 nrs ncs (fun k l =>
                    if has_subs (csub l) && has_subs (rsub k) then NaN
                    else xsum (map (pos_row (rsub k)) (s_add (csub l)))) |}.

  (* NegativeTermSubtotals *)
  Definition neg_blocks : blocks :=
    {| b_base := tab2 nr nc (fun _ _ => Fin 0);
       b_cols := tab2 nr ncs (fun i l => sum_cols counts i (s_sub (csub l)));
       b_rows := tab2 nrs nc (fun k j => sum_rows counts (s_sub (rsub k)) j);
       b_inter := tab2 nrs ncs (fun k l =>
                    let cs := csub l in let rs := rsub k in
                    if has_subs cs && has_subs rs then NaN
                    else if has_subs cs then
                      xsum (map (fun c => sum_rows counts (s_add rs) c) (s_sub cs))
                    else if has_subs rs then
                      xsum (map (fun r => sum_cols counts r (s_add cs)) (s_sub rs))
                    else Fin 0) |}.

  Definition map4 (f : xq -> xq -> xq -> xq -> xq) (p t a n : blocks) : blocks :=
    {| b_base := tab2 nr nc (fun i j => f (mnth (b_base p) i j) (mnth (b_base t) i j)
                                          (mnth (b_base a) i j) (mnth (b_base n) i j));
       b_cols := tab2 nr ncs (fun i j => f (mnth (b_cols p) i j) (mnth (b_cols t) i j)
                                           (mnth (b_cols a) i j) (mnth (b_cols n) i j));
       b_rows := tab2 nrs nc (fun i j => f (mnth (b_rows p) i j) (mnth (b_rows t) i j)
                                           (mnth (b_rows a) i j) (mnth (b_rows n) i j));
       b_inter := tab2 nrs ncs (fun i j => f (mnth (b_inter p) i j) (mnth (b_inter t) i j)
                                             (mnth (b_inter a) i j) (mnth (b_inter n) i j)) |}.

  Definition var_cell (p Nt Np Nn : xq) : xq :=
    calc_var p Nt Np (xsub (xsub Nt Np) Nn) Nn.

  (* variance blocks from proportion blocks P and weighted base blocks T *)
  Definition variance_blocks (P T : blocks) : blocks := map4 var_cell P T pos_blocks neg_blocks.
End Terms.

(* squares of standard error and margin of error from a variance and its base *)
Definition stderr_sq (var base : xq) : xq := xdiv var base.
Definition moe_sq (se_sq : xq) : xq := xmul (Fin (Z975 * Z975)) se_sq.

(* strand: base rows p(1-p); subtotals the three-term formula *)
Definition strand_var_base (props : list xq) : list xq :=
  map (fun p => xmul p (xsub (Fin 1) p)) props.
Definition strand_var_subtotals (counts : list xq) (subs : list subtotal)
           (p_subs base_subs : list xq) : list xq :=
  tab (length subs) (fun k =>
    let s := nth k subs nosub in
    var_cell (vnth p_subs k) (vnth base_subs k) (vsum_idx counts (s_add s)) (vsum_idx counts (s_sub s))).
