(* Model of the pairwise column tests - property C13.
   Source: src/cr/cube/matrix/measure.py (_PairwiseSigTstats, _PairwiseSigPvals,
   _PairwiseMeansSigTStats/_PVals, _PairwiseSigTStatsForSubvar/_PValsForSubvar,
   _PairwiseSignificaneBetweenSubvariablesHelper), src/cr/cube/cubepart.py (_pairwise_indices,
   pairwise_indices(_alt), _alpha_values, _only_larger) and the legacy
   src/cr/cube/measures/pairwise_significance.py (_ColumnPairwiseSignificance.t_stats).
   Executable; no proofs here.

   Square roots are not modelled: every statistic t is represented by  t*|t|  (its signed
   square); t^2 = |t*|t||, sign t = sign (t*|t|).  Cumulative distribution functions are not
   modelled at all: the model yields the statistic and the degrees of freedom; the index sets
   are computed from given p-values and statistics. *)
From Coq Require Import QArith Qabs ZArith List Bool Lia Arith.
From CC Require Import Base.XQ Base.ListX.
Import ListNotations.
Local Close Scope Q_scope.
Local Open Scope nat_scope.

(* ---- column proportions test, one cell ------------------------------------------------
     var      = p (1 - p) / n            ref_var = p0 (1 - p0) / n0
     se_diff  = sqrt(|var + ref_var|)    t = (p - p0) / se_diff
   p, n: the cell's column proportion and column base; p0, n0: those of the selected
   (reference) column in the same row. *)
Definition prop_var (p n : xq) : xq := xdiv (xmul p (xsub (Fin 1) p)) n.

Definition t_tabs (p n p0 n0 : xq) : xq :=
  let d := xsub p p0 in
  xdiv (xmul d (xabs d)) (xabs (xadd (prop_var p n) (prop_var p0 n0))).

Definition t_sq (p n p0 n0 : xq) : xq := xabs (t_tabs p n p0 n0).

(* degrees of freedom of the Student-t p-value: cell base + selected base - 2 *)
Definition t_df (n n0 : xq) : xq := xsub (xadd n n0) (Fin 2).

(* effective base when squared weights are supplied: (sum w)^2 / sum w^2 *)
Definition eff_base (w sq : xq) : xq := xdiv (xmul w w) sq.

Definition eff_block (W SQ : mat) : mat :=
  tab2 (nrows W) (ncols W) (fun i j => eff_base (mnth W i j) (mnth SQ i j)).

(* ---- blocks: reference column selection -------------------------------------------------
   `sel` is the signed payload index of the selected column: >= 0 a base column, < 0 an
   inserted (subtotal) column, numpy-indexed from the end of the inserted block.  The body
   blocks (base values, subtotal columns) take their reference from the body, the inserted
   rows (subtotal rows, intersections) from the inserted rows. *)
Definition ref_col (sel : Z) (base ins : mat) : vec :=
  if (sel <? 0)%Z then mcol ins (Z.to_nat (Z.of_nat (ncols ins) + sel))
  else mcol base (Z.to_nat sel).

Definition pw_tblock (P N : mat) (rp rn : vec) : mat :=
  tab2 (nrows P) (ncols P)
       (fun i j => t_tabs (mnth P i j) (mnth N i j) (vnth rp i) (vnth rn i)).

Definition pw_dfblock (N : mat) (rn : vec) : mat :=
  tab2 (nrows N) (ncols N) (fun i j => t_df (mnth N i j) (vnth rn i)).

(* the four t blocks followed by the four df blocks, for one selected column *)
Definition pw_all (sel : Z) (P00 P01 P10 P11 N00 N01 N10 N11 : mat) : list mat :=
  let rp0 := ref_col sel P00 P01 in
  let rn0 := ref_col sel N00 N01 in
  let rp1 := ref_col sel P10 P11 in
  let rn1 := ref_col sel N10 N11 in
  [ pw_tblock P00 N00 rp0 rn0; pw_tblock P01 N01 rp0 rn0;
    pw_tblock P10 N10 rp1 rn1; pw_tblock P11 N11 rp1 rn1;
    pw_dfblock N00 rn0; pw_dfblock N01 rn0; pw_dfblock N10 rn1; pw_dfblock N11 rn1 ].

(* ---- the legacy path (measures/pairwise_significance.py) ---------------------------------
   works on the assembled (display-order) arrays; no abs under the square root.  Without
   squared weights the base is slice.columns_base (unweighted); with squared weights it is
   the effective base built from the WEIGHTED margin slice.columns_margin:
       columns_margin ** 2 / columns_squared_base
   columns_base / columns_margin are vectors, or matrices when the rows are MR (a distinct
   base per cell); the harness broadcasts both to matrices.  columns_squared_base is ALWAYS
   a vector: the first row of the per-cell squared bases (_MarginSquaredBase), also for MR
   rows - there the legacy base of row i >= 1 is W[i,j]^2 / SQ[0,j]. *)
Definition legacy_tabs (p n p0 n0 : xq) : xq :=
  let d := xsub p p0 in
  let s := xadd (prop_var p n) (prop_var p0 n0) in
  if xltb s (Fin 0) then NaN else xdiv (xmul d (xabs d)) s.

Definition legacy_base (weighted_margin unweighted_base : xq) (sq : option xq) : xq :=
  match sq with
  | Some s => xdiv (xmul weighted_margin weighted_margin) s
  | None => unweighted_base
  end.

(* props, weighted margins, unweighted bases: display matrices; sq: optional display vector;
   c: display column *)
Definition legacy_t (props wmargin ubase : mat) (sq : option vec) (c : nat) : mat :=
  let nb i j := legacy_base (mnth wmargin i j) (mnth ubase i j)
                            (option_map (fun v => vnth v j) sq) in
  tab2 (nrows props) (ncols props)
       (fun i j => legacy_tabs (mnth props i j) (nb i j) (mnth props i c) (nb i c)).

(* ---- means: Welch's unequal-variance test -------------------------------------------------
     t  = (m - m0) / sqrt(s^2/n + s0^2/n0)
     df = (s^2/n + s0^2/n0)^2 / ((s^2/n)^2/(n-1) + (s0^2/n0)^2/(n0-1))
   m, s, n: cell mean, standard deviation, unweighted count. *)
Definition welch_tabs (m s n m0 s0 n0 : xq) : xq :=
  let d := xsub m m0 in
  let v := xadd (xdiv (xmul s s) n) (xdiv (xmul s0 s0) n0) in
  if xltb v (Fin 0) then NaN else xdiv (xmul d (xabs d)) v.

Definition welch_df (s n s0 n0 : xq) : xq :=
  let a := xdiv (xmul s s) n in
  let b := xdiv (xmul s0 s0) n0 in
  xdiv (xsq (xadd a b))
       (xadd (xdiv (xsq a) (xsub n (Fin 1))) (xdiv (xsq b) (xsub n0 (Fin 1)))).

(* base block only (subtotal blocks are NaN); a selected subtotal column (sel < 0) gives NaN *)
Definition welch_tblock (sel : Z) (M S N : mat) : mat :=
  if (sel <? 0)%Z then tab2 (nrows M) (ncols M) (fun _ _ => NaN)
  else let c := Z.to_nat sel in
       tab2 (nrows M) (ncols M)
            (fun i j => welch_tabs (mnth M i j) (mnth S i j) (mnth N i j)
                                   (mnth M i c) (mnth S i c) (mnth N i c)).

Definition welch_dfblock (sel : Z) (S N : mat) : mat :=
  let c := Z.to_nat sel in
  tab2 (nrows S) (ncols S)
       (fun i j => welch_df (mnth S i j) (mnth N i j) (mnth S i c) (mnth N i c)).

(* ---- overlapping multiple-response columns --------------------------------------------------
   a: selected subvariable, b: compared subvariable; Sx / Nx selected / valid counts of a, b
   and of both (ab);  cpa, cpb the column proportions of the row.
     df = Na + Nb - Nab
     t  = (cpb - cpa) / sqrt(1/df * (pa(1-pa) + pb(1-pb) + 2 pa pb - 2 pab)),  px = Sx/Nx
   and the p-value uses df - 2 degrees of freedom.  For a = b the code returns t = 0 AND p = 0
   (the index sets exclude the own position explicitly, see indices_row). *)
Definition ov_df (Na Nb Nab : xq) : xq := xsub (xadd Na Nb) Nab.

Definition ov_se2 (Sa Sb Sab Na Nb Nab : xq) : xq :=
  let pa := xdiv Sa Na in
  let pb := xdiv Sb Nb in
  let pab := xdiv Sab Nab in
  xmul (xdiv (Fin 1) (ov_df Na Nb Nab))
       (xsub (xadd (xadd (xmul pa (xsub (Fin 1) pa)) (xmul pb (xsub (Fin 1) pb)))
                   (xmul (xmul (Fin 2) pa) pb))
             (xmul (Fin 2) pab)).

Definition ov_tabs (cpa cpb Sa Sb Sab Na Nb Nab : xq) : xq :=
  let d := xsub cpb cpa in
  let s := ov_se2 Sa Sb Sab Na Nb Nab in
  if xltb s (Fin 0) then NaN else xdiv (xmul d (xabs d)) s.

(* CP: column proportions of a block (rows x subvars); S, N: subvar x subvar matrices of the
   row (for CAT x MR the same for every row) given per row as lists of matrices *)
Definition ov_tblock (a : nat) (CP : mat) (S N : list mat) : mat :=
  tab2 (nrows CP) (ncols CP)
       (fun i b => if b =? a then Fin 0
                   else let s := nth i S [] in
                        let n := nth i N [] in
                        ov_tabs (mnth CP i a) (mnth CP i b)
                                (mnth s a a) (mnth s b b) (mnth s a b)
                                (mnth n a a) (mnth n b b) (mnth n a b)).

(* degrees of freedom handed to t.cdf: df - 2 *)
Definition ov_dfblock (a : nat) (CP : mat) (N : list mat) : mat :=
  tab2 (nrows CP) (ncols CP)
       (fun i b => let n := nth i N [] in
                   xsub (ov_df (mnth n a a) (mnth n b b) (mnth n a b)) (Fin 2)).

(* the p-value the code reports for a column against itself on the overlap path *)
Definition ov_p_self : xq := Fin 0.

(* ---- index sets ---------------------------------------------------------------------------
   `significance = p_vals < alpha; if only_larger: significance &= t_stats < 0;
    significance[:, col_idx] = False;  tuple(np.where(sig_row)[0])`
   for each row of the (display-order) matrices that belong to display column `own` (= col_idx,
   the display position of the selected column, which is never reported); the result is the
   entry (row, own) of pairwise_indices. *)
Definition sig_cell (alpha : Q) (only_larger : bool) (p t : xq) : bool :=
  xltb p (Fin alpha) && (negb only_larger || xltb t (Fin 0)).

Definition indices_row (alpha : Q) (only_larger : bool) (own : nat) (pv tv : vec) : list nat :=
  filter (fun j => negb (j =? own) && sig_cell alpha only_larger (vnth pv j) (vnth tv j))
         (seq 0 (length pv)).

(* all rows of the matrices of the selected display column `own` *)
Definition indices_col (alpha : Q) (only_larger : bool) (own : nat) (P T : mat) : list (list nat) :=
  tab (nrows P) (fun i => indices_row alpha only_larger own (mrow P i) (mrow T i)).

(* Display composition: [Pm s], [Tm s] are the payload-order p / t matrices for selected
   payload column s; [ord] lists the payload column shown at each display position (after
   reordering, hiding, insertion).  The set at (row, display column dc) - the own position dc
   is excluded: *)
Definition display_set (alpha : Q) (only_larger : bool) (Pm Tm : nat -> mat)
           (ord : list nat) (row dc : nat) : list nat :=
  let s := nth dc ord 0 in
  filter (fun dj => negb (dj =? dc) &&
                    sig_cell alpha only_larger
                             (mnth (Pm s) row (nth dj ord 0)) (mnth (Tm s) row (nth dj ord 0)))
         (seq 0 (length ord)).

(* ---- alpha parsing (_alpha_values) and the only_larger flag -------------------------------- *)
Inductive aitem := It_float (q : Q) | It_other.          (* element of a JSON list *)
Inductive aval :=
| Av_falsy                 (* omitted, null, [], {}, "", 0, 0.0, false *)
| Av_float (q : Q)         (* a non-zero float by itself *)
| Av_other                 (* any other truthy non-float, non-list value: int, str, dict, true *)
| Av_list (l : list aitem) (* non-empty list *).

Inductive aresult :=
| A_ok (alpha : Q) (alt : option Q)
| A_type_error
| A_value_error.

Definition in01 (q : Q) : bool := (if Qlt_le_dec 0 q then true else false) && (if Qlt_le_dec q 1 then true else false).

Definition item_ok (x : aitem) : bool :=
  match x with It_float q => in01 q | It_other => false end.

Definition item_q (x : aitem) : Q := match x with It_float q => q | It_other => 0%Q end.

Definition alpha_parse (v : aval) : aresult :=
  match v with
  | Av_falsy => A_ok (5 # 100) None
  | Av_other => A_type_error
  | Av_float q => if in01 q then A_ok q None else A_value_error
  | Av_list [] => A_ok (5 # 100) None
  | Av_list l =>
      if forallb item_ok (firstn 2 l) then
        match l with
        | [x] => A_ok (item_q x) None
        | x :: y :: _ =>
            let a := item_q x in let b := item_q y in
            if Qlt_le_dec b a then A_ok b (Some a) else A_ok a (Some b)
        | [] => A_ok (5 # 100) None
        end
      else A_value_error
  end.

(* only_larger: False only when the key is present and `is False` *)
Inductive olval := Ol_absent | Ol_false | Ol_true | Ol_other.
Definition only_larger_parse (v : olval) : bool :=
  match v with Ol_false => false | _ => true end.
