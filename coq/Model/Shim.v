(* Model of the element-id shim of src/cr/cube/dimension.py (_ElementIdShim) and of its
   consumers.  Executable; definitions only (proofs: Proofs/Shim*.v).

   An array dimension (MR_SUBVAR, CA_SUBVAR, NUM_ARRAY) is the list of its elements as they
   appear in  result.dimensions[i].type.elements :

     i_eid      elements[j].id                           ("raw element id", zz9 puts an int)
     i_svid     elements[j].value.id                     (sub-variable id, e.g. "0001"; may be absent)
     i_aref     elements[j].value.references.alias       (absent => the alias falls back to the id)
     i_ins      "anchor" in elements[j].value.references (inserted / derived MR item)
     i_missing  elements[j].missing

   d_mr_ins = _has_mr_insertion (dimension type MR_SUBVAR and references.view.transform.insertions
   non-empty). *)
From Coq Require Import ZArith List Bool Lia Arith String.
From CC Require Import Base.Ident.
Import ListNotations.
Local Open Scope nat_scope.

Inductive exn : Type := TypeErr | ValueErr.
Inductive res (A : Type) : Type :=
| Ok (a : A)
| Raise (e : exn).
Arguments Ok {A} a.
Arguments Raise {A} e.

Record item : Type := mk_item {
  i_eid : ident;
  i_svid : option ident;
  i_aref : option ident;
  i_ins : bool;
  i_missing : bool }.

Record adim : Type := mk_adim { d_items : list item; d_mr_ins : bool }.

(* _subvar_aliases : element.get("value",{}).get("references",{}).get("alias", element["id"]) *)
Definition alias_of (it : item) : ident :=
  match i_aref it with Some a => a | None => i_eid it end.
Definition aliases (d : adim) : list ident := map alias_of (d_items d).
(* _raw_element_ids *)
Definition raw_ids (d : adim) : list ident := map i_eid (d_items d).
(* _subvar_ids : () as soon as one element has no value.id (KeyError) *)
Definition subvar_ids (d : adim) : list ident :=
  if forallb (fun it => match i_svid it with Some _ => true | None => false end) (d_items d)
  then map (fun it => match i_svid it with Some s => s | None => INone end) (d_items d)
  else [].

Definition nth_alias (d : adim) (i : nat) : ident := nth i (aliases d) INone.

(* the special case for MR dimensions with inserted (derived) items: a STRING equal to
   str(raw id) of a non-inserted element is an element id, even if it is also a subvar id *)
Definition mr_branch (d : adim) (x : ident) : option (res ident) :=
  if d_mr_ins d then
    let strs := map (fun it => IStr (str_of_ident (i_eid it)))
                    (filter (fun it => negb (i_ins it)) (d_items d)) in
    if py_in x strs then
      Some (match py_int x with
            | IntOk z => match py_index (IInt z) (raw_ids d) with
                         | Some i => Ok (nth_alias d i)
                         | None => Raise ValueErr
                         end
            | IntValueError => Raise ValueErr
            | IntTypeError => Raise TypeErr
            end)
    else None
  else None.

(* _ElementIdShim.translate_element_id for array types.  Ok INone is Python's None.
   Repaired code (commit "fix: translate_element_id(None) returns None instead of raising
   TypeError"): the final int(_id) is wrapped in `except (ValueError, TypeError): return None`, so
   None (a null in an id list) translates to None.  The int() of the special MR branch is NOT inside that try. *)
Definition translate (d : adim) (x : ident) : res ident :=
  if py_in x (aliases d) then Ok x else
  match py_index x (raw_ids d) with
  | Some i => Ok (nth_alias d i)
  | None =>
  match mr_branch d x with
  | Some r => r
  | None =>
  match py_index x (subvar_ids d) with
  | Some i => Ok (nth_alias d i)
  | None =>
  match py_int x with
  | IntTypeError => Ok INone      (* int(None): `except (ValueError, TypeError): return None` *)
  | IntValueError => Ok INone
  | IntOk z =>
    match py_index (IInt z) (raw_ids d) with
    | Some i => Ok (nth_alias d i)
    | None =>
      if ((0 <=? z)%Z && (z <? Z.of_nat (List.length (aliases d)))%Z)%bool
      then Ok (nth_alias d (Z.to_nat z)) else Ok INone
    end
  end end end end.

(* ---- dictionaries (insertion ordered, unique keys) -------------------------------- *)

(* value stored under a key of the "elements" transforms dict: the special "key" entry
   ("key": "alias" / "key": "subvar_id") or an opaque per-element transform payload *)
Inductive eval : Type := KeyAlias | KeySubvar | Payload (p : Z).
Definition edict : Type := list (ident * eval).

Fixpoint dget (k : ident) (e : edict) : option eval :=
  match e with
  | [] => None
  | (k', v) :: t => if ident_eqb k k' then Some v else dget k t
  end.

Fixpoint dset (k : ident) (v : eval) (e : edict) : edict :=
  match e with
  | [] => [(k, v)]
  | (k', v') :: t => if ident_eqb k k' then (k', v) :: t else (k', v') :: dset k v t
  end.

(* {k: v for (k, v) in pairs}: a later pair overwrites the value, the key keeps its place *)
Definition dict_of_pairs (l : list (ident * eval)) : edict :=
  fold_left (fun acc kv => dset (fst kv) (snd kv) acc) l [].

Fixpoint mapM {A B} (f : A -> res B) (l : list A) : res (list B) :=
  match l with
  | [] => Ok []
  | a :: t => match f a with
              | Raise e => Raise e
              | Ok b => match mapM f t with Raise e => Raise e | Ok bs => Ok (b :: bs) end
              end
  end.

Definition key_str : ident := IStr "key".

Definition not_none_pairs (l : list (ident * eval)) : list (ident * eval) :=
  filter (fun kv => match fst kv with INone => false | _ => true end) l.

(* _replaced_element_transforms *)
Definition replaced_elements (d : adim) (e : edict) : res edict :=
  match dget key_str e with
  | Some KeyAlias => Ok e
  | Some KeySubvar =>
      Ok (dict_of_pairs (not_none_pairs
            (map (fun kv => (match py_index (fst kv) (subvar_ids d) with
                             | Some i => nth_alias d i
                             | None => INone end, snd kv)) e)))
  | _ =>
      match mapM (translate d) (map fst e) with
      | Raise ex => Raise ex
      | Ok ks => Ok (dict_of_pairs (not_none_pairs (combine ks (map snd e))))
      end
  end.

(* _replaced_order_element_ids *)
Definition replaced_ids (d : adim) (l : list ident) : res (list ident) := mapM (translate d) l.

(* the part of a dimension-transforms dict the shim touches; None = key absent (or null) *)
Record xf : Type := mk_xf {
  x_elements : option edict;          (* ["elements"] *)
  x_ids : option (list ident);        (* ["order"]["element_ids"] *)
  x_top : option (list ident);        (* ["order"]["fixed"]["top"] *)
  x_bottom : option (list ident) }.   (* ["order"]["fixed"]["bottom"] *)

Definition opt_res {A B} (f : A -> res B) (o : option A) : res (option B) :=
  match o with
  | None => Ok None
  | Some a => match f a with Ok b => Ok (Some b) | Raise e => Raise e end
  end.

(* shimmed_dimension_transforms_dict, REPAIRED code (commit 51c19c01 "fix: translating a dimension's
   transforms no longer rewrites the caller's dict"): the levels that get rewritten are copied
   first (shim = dict(shim); shim["order"] = dict(shim["order"]); fixed = dict(fixed)), so the
   result is a dict OF THE DIMENSION'S OWN and the caller's dict stays as given - also when a
   translation raises half-way.
   Result: (the dict the dimension uses, None) or (the caller's dict - all there is, untouched -,
   Some exception): with an exception no translated dict exists. *)
Definition shim_xf (d : adim) (t : xf) : xf * option exn :=
  match opt_res (replaced_elements d) (x_elements t) with
  | Raise ex => (t, Some ex)
  | Ok e' =>
    match opt_res (replaced_ids d) (x_ids t) with
    | Raise ex => (t, Some ex)
    | Ok ids' =>
      match opt_res (replaced_ids d) (x_top t) with
      | Raise ex => (t, Some ex)
      | Ok top' =>
        match opt_res (replaced_ids d) (x_bottom t) with
        | Raise ex => (t, Some ex)
        | Ok bot' => (mk_xf e' ids' top' bot', None)
        end
      end
    end
  end.

(* ---- consumers of the shimmed dict -------------------------------------------------- *)

(* Elements.from_typedef: all_xforms.get(element_id, all_xforms.get(str(element_id), {}))
   where element_id is the alias (shimmed dimension dict: _build_element_id) *)
Definition elem_xform (d : adim) (e : option edict) (k : nat) : option eval :=
  match e with
  | None => None
  | Some e =>
    let a := nth_alias d k in
    match dget a e with
    | Some v => Some v
    | None => dget (IStr (str_of_ident a)) e
    end
  end.

(* explicit order / fixed lists: the collators look every listed id up among the element
   ids (= aliases) of the dimension and ignore the ones they do not find *)
Definition mentions (d : adim) (l : list ident) : list nat :=
  flat_map (fun x => match py_index x (aliases d) with Some i => [i] | None => [] end) l.
Definition opt_mentions (d : adim) (o : option (list ident)) : list nat :=
  match o with None => [] | Some l => mentions d l end.

(* late translation (matrix/assembler.py, sort by opposing element):
   column_element_ids.index(dimension.translate_element_id(id)); a ValueError of .index
   makes the caller fall back to payload order (Ok None) *)
Definition valid_aliases (d : adim) : list ident :=
  map alias_of (filter (fun it => negb (i_missing it)) (d_items d)).
Definition opp_index (d : adim) (x : ident) : res (option nat) :=
  match translate d x with
  | Raise e => Raise e
  | Ok a => Ok (py_index a (valid_aliases d))
  end.

(* everything a partition reads from the (shimmed) transforms of an array dimension *)
Record view : Type := mk_view {
  v_elem : list (option eval);     (* per element: its transform payload *)
  v_order : list nat;              (* items mentioned by the explicit order, in order *)
  v_top : list nat;
  v_bottom : list nat }.
Definition consume (d : adim) (t : xf) : view :=
  mk_view (map (elem_xform d (x_elements t)) (seq 0 (List.length (d_items d))))
          (opt_mentions d (x_ids t)) (opt_mentions d (x_top t)) (opt_mentions d (x_bottom t)).

(* ---- datetime dimensions ------------------------------------------------------------ *)

(* elements of a datetime dimension: (id, value); the value of the missing ("No Data")
   element is a JSON object {"?": -1} *)
Inductive dtval : Type := DVal (v : ident) | DMissing.
Definition dtdim : Type := list (ident * dtval).
(* a translated id: an identifier or an unhashable JSON object (TObj is unreachable since the
   repair: Proofs/ShimDatetime.v dt_translate_never_obj; kept so that a regression is expressible
   on the implementation side of the comparison) *)
Inductive tval : Type := TId (x : ident) | TObj.

(* _element_values_dict = {el["id"]: el["value"] for el in elements if not isinstance(el["value"], dict)}
   (a later duplicate id wins).  Repaired code (commit "fix: a datetime reference to the missing
   element's position is left alone"): the missing element, whose value is a JSON object, is NOT
   in the dict - it keeps its positional id. *)
Fixpoint dt_lookup (k : ident) (d : dtdim) : option dtval :=
  match d with
  | [] => None
  | (k', v) :: t => match dt_lookup k t with
                    | Some v' => Some v'
                    | None => match v with
                              | DMissing => None
                              | DVal _ => if ident_eqb k k' then Some v else None
                              end
                    end
  end.

(* int(_id) if isinstance(_id, str) and _id.isnumeric() else _id *)
Definition dt_key (x : ident) : ident :=
  match x with
  | IStr s => match parse_uint s with Some z => IInt z | None => x end
  | _ => x
  end.

Definition dt_translate (d : dtdim) (x : ident) : tval :=
  match dt_lookup (dt_key x) d with
  | Some (DVal v) => TId v
  | Some DMissing => TObj
  | None => TId x
  end.

Definition dt_replaced_ids (d : dtdim) (l : list ident) : list tval := map (dt_translate d) l.

(* element-transform keys of a datetime dimension (no "key" entry, see Props/C19.v): a key that
   translates to the JSON object cannot be a dict key: TypeError (unhashable) *)
Fixpoint tvals_ids (l : list tval) : res (list ident) :=
  match l with
  | [] => Ok []
  | TObj :: _ => Raise TypeErr
  | TId x :: t => match tvals_ids t with Ok r => Ok (x :: r) | Raise e => Raise e end
  end.
Definition dt_replaced_elements (d : dtdim) (e : edict) : res edict :=
  match dget key_str e with
  | Some KeyAlias => Ok e
  | _ =>
    (* the tuple of new keys is built first (never raises), the dict comprehension then skips
       None and raises on the first unhashable key it is asked to store *)
    match tvals_ids (map (dt_translate d) (map fst e)) with
    | Raise ex => Raise ex
    | Ok ks => Ok (dict_of_pairs (not_none_pairs (combine ks (map snd e))))
    end
  end.

(* ---- the response's dimension dict (shimmed_dimension_dict) ------------------------------ *)
(* the ONE in-place edit of a caller-owned object that remains: every element of an array dimension
   gains a "subvar_alias" field (in the CALLER's response; datetime elements a "datetime_value");
   _build_element_id then uses it as the element id.  An element = (item, current subvar_alias) *)
Definition shim_dim_dict (els : list (item * option ident)) : list (item * option ident) :=
  map (fun p => (fst p, Some (alias_of (fst p)))) els.
Definition build_element_id (p : item * option ident) : ident :=
  match snd p with Some a => a | None => i_eid (fst p) end.

(* ---- rendering ---------------------------------------------------------------------- *)
Local Open Scope Z_scope.
Definition r_exn (e : exn) : list Z := match e with TypeErr => [1] | ValueErr => [2] end.
Definition r_res {A} (f : A -> list Z) (r : res A) : list Z :=
  match r with Ok a => 0 :: f a | Raise e => 1 :: r_exn e end.
Definition r_lst {A} (f : A -> list Z) (l : list A) : list Z :=
  Z.of_nat (List.length l) :: flat_map f l.
Definition r_option {A} (f : A -> list Z) (o : option A) : list Z :=
  match o with None => [0] | Some a => 1 :: f a end.
Definition r_eval (v : eval) : list Z :=
  match v with KeyAlias => [0] | KeySubvar => [1] | Payload p => [2; p] end.
Definition r_edict (e : edict) : list Z := r_lst (fun kv => r_ident (fst kv) ++ r_eval (snd kv)) e.
Definition r_idents : list ident -> list Z := r_lst r_ident.
Definition r_xf (t : xf) : list Z :=
  r_option r_edict (x_elements t) ++ r_option r_idents (x_ids t)
  ++ r_option r_idents (x_top t) ++ r_option r_idents (x_bottom t).
Definition r_shim (p : xf * option exn) : list Z :=
  r_xf (fst p) ++ r_option r_exn (snd p).
Definition r_natl (l : list nat) : list Z := r_lst (fun n => [Z.of_nat n]) l.
Definition r_view (v : view) : list Z :=
  r_lst (r_option r_eval) (v_elem v) ++ r_natl (v_order v) ++ r_natl (v_top v) ++ r_natl (v_bottom v).
Definition r_tval (t : tval) : list Z := match t with TId x => 0 :: r_ident x | TObj => [1] end.
