(* Model of matrix/subtotals.py: the four "blocks" of a measure (base values, subtotal
   columns, subtotal rows, intersections) for the Sum / Nan / PositiveTerm / NegativeTerm
   strategies, and of stripe/insertion.py.  A subtotal is given by the base-element
   OFFSETS of its addends and subtrahends (`addend_idxs`, `subtrahend_idxs`: ascending,
   duplicate-free; computing them from the insertion dict is Model/Insertions.v).
   Executable; no proofs here. *)
From Coq Require Import QArith ZArith List Bool Lia Arith.
From CC Require Import Base.XQ Base.ListX.
Import ListNotations.
Local Close Scope Q_scope.
Local Open Scope nat_scope.

Record subtotal := mkSub { s_add : list nat; s_sub : list nat }.
Definition has_subs (s : subtotal) : bool :=
  match s_sub s with [] => false | _ => true end.

Record blocks := mkBlocks { b_base : mat; b_cols : mat; b_rows : mat; b_inter : mat }.

Section Sum.
  Variable base : mat.          (* nr x nc, payload order, valid elements only *)
  Variable nr nc : nat.
  Variable rsubs csubs : list subtotal.
  Variable dcn drn : bool.      (* diff_cols_nan, diff_rows_nan *)

  Definition sum_rows (idxs : list nat) (j : nat) : xq :=
    xsum (map (fun i => mnth base i j) idxs).
  Definition sum_cols (i : nat) (idxs : list nat) : xq :=
    xsum (map (fun j => mnth base i j) idxs).

  (* SumSubtotals._subtotal_row / _subtotal_column *)
  Definition subrow_cell (s : subtotal) (j : nat) : xq :=
    if drn && has_subs s then NaN
    else xsub (sum_rows (s_add s) j) (sum_rows (s_sub s) j).
  Definition subcol_cell (s : subtotal) (i : nat) : xq :=
    if dcn && has_subs s then NaN
    else xsub (sum_cols i (s_add s)) (sum_cols i (s_sub s)).

  (* SumSubtotals._intersection: accumulated row-first *)
  Definition inter_cell (rs cs : subtotal) : xq :=
    if (has_subs cs && has_subs rs) || (has_subs cs && dcn) || (has_subs rs && drn)
    then NaN
    else xsub (xsum (map (subrow_cell rs) (s_add cs)))
              (xsum (map (subrow_cell rs) (s_sub cs))).
  (* the same value accumulated column-first (not what the code does; see C04) *)
  Definition inter_cell_colfirst (rs cs : subtotal) : xq :=
    if (has_subs cs && has_subs rs) || (has_subs cs && dcn) || (has_subs rs && drn)
    then NaN
    else xsub (xsum (map (subcol_cell cs) (s_add rs)))
              (xsum (map (subcol_cell cs) (s_sub rs))).

  Definition sum_blocks : blocks :=
    {| b_base := base;
       b_cols := tab2 nr (length csubs) (fun i k => subcol_cell (nth k csubs (mkSub [] [])) i);
       b_rows := tab2 (length rsubs) nc (fun k j => subrow_cell (nth k rsubs (mkSub [] [])) j);
       b_inter := tab2 (length rsubs) (length csubs)
                    (fun k l => inter_cell (nth k rsubs (mkSub [] [])) (nth l csubs (mkSub [] []))) |}.

  (* NanSubtotals *)
  Definition nan_blocks : blocks :=
    {| b_base := base;
       b_cols := tab2 nr (length csubs) (fun _ _ => NaN);
       b_rows := tab2 (length rsubs) nc (fun _ _ => NaN);
       b_inter := tab2 (length rsubs) (length csubs) (fun _ _ => NaN) |}.
End Sum.

(* stripe/insertion.py *)
Definition vsum_idx (v : list xq) (idxs : list nat) : xq := xsum (map (vnth v) idxs).
Definition stripe_sum_subtotal (v : list xq) (s : subtotal) : xq :=
  xsub (vsum_idx v (s_add s)) (vsum_idx v (s_sub s)).
Definition stripe_sum_subtotals (v : list xq) (subs : list subtotal) : list xq :=
  map (stripe_sum_subtotal v) subs.
