(* token stream of a [blocks] record: base, inserted columns, inserted rows, intersections *)
From Coq Require Import QArith ZArith List Bool.
From CC Require Import Base.XQ Base.Render Base.ListX Model.Subtotals.
Import ListNotations.
Definition r_blocks (b : blocks) : list Z :=
  r_mat (b_base b) ++ r_mat (b_cols b) ++ r_mat (b_rows b) ++ r_mat (b_inter b).
Definition mkB (a b c d : list (list xq)) : blocks := mkBlocks a b c d.
