(* PyDimension: what the generated text of coq/Gen/DimensionSrc.v (shallow translation of
   src/cr/cube/dimension.py by harness/translate/x_dimension.py) is written in, besides Base/PyList.v,
   Base/PyDict.v and the exception monad of Model/Collator.v / Model/PyCollator.v:

   * the operations on JSON-ish values that can RAISE ([pj_*]: subscript, .get, `in`, iteration, int(),
     str(), .lower(), set operations), with Python's exception classes as codes.  [Unmodelled] is not a
     Python exception: it marks an outcome this embedding does not describe (str() of a float, `+` on
     numbers / strings, iteration over a str ..) - no agreement lemma can state anything about it and no
     `except` clause catches it.  [MutatesCaller] marks an in-place change (item assignment, pop, append) of
     an object the function did not create itself (a parameter, an attribute, a value read out of one):
     the embedding is by VALUE, so such a change cannot be expressed; it is an outcome that equals no
     result of a model.
   * try / except over a list of exception classes, with an explicit "returned / fell through" outcome;
   * the Python objects of dimension.py as records (what their __init__ stores): _Subtotal, _Subtotals,
     Element, _ElementTransforms, Dimension, _OrderSpec, _ElementIdShim; an Elements object is the list of
     its Element objects.

   Definitions only (abstractions to the models and lemmas: Proofs/GenAgreeDimension*.v). *)
From Coq Require Import List ZArith String Bool Arith.
From CC Require Import Base.XQ Base.Ident Base.PyList Base.PyDict Model.DimType.
From CC Require Model.Collator Model.PyCollator.
Import ListNotations.
Local Close Scope Q_scope.
Local Open Scope Z_scope.

(* the exception monad is the collators' one *)
Notation res := Collator.res.
Notation Ok := Collator.Ok.
Notation Err := Collator.Err.
Notation bind := Collator.bind.
Notation ValueError := Collator.ValueError.
Notation KeyError := Collator.KeyError.
Notation TypeError := Collator.TypeError.
Notation py_mapM := PyCollator.py_mapM.
Notation py_foldM := PyCollator.py_foldM.
Notation py_dict_getitem := PyCollator.py_dict_getitem.
Definition AttributeError : Z := 5.
Definition IndexError : Z := 6.
Definition MutatesCaller : Z := 98.
Definition Unmodelled : Z := 99.

Definition of_option {A} (code : Z) (o : option A) : res A :=
  match o with Some a => Ok a | None => Err code end.

(* --- operations on JSON-ish values that may raise ---------------------------------------------------- *)
(* v[k] *)
Definition pj_getitem (v k : jv) : res jv :=
  match v with
  | JDict d => if jv_hashable k then of_option KeyError (jd_get d k) else Err TypeError
  | JList l => match k with
               | JInt i => of_option IndexError (py_nth l i)
               | JBool b => of_option IndexError (py_nth l (if b then 1 else 0))
               | _ => Err TypeError
               end
  | JStr _ => Err Unmodelled
  | _ => Err TypeError
  end.
(* v.get(k, dflt) *)
Definition pj_get (v k dflt : jv) : res jv :=
  match v with
  | JDict d => if jv_hashable k then Ok (jd_get_default d k dflt) else Err TypeError
  | _ => Err AttributeError
  end.
(* x in v *)
Definition pj_contains (x v : jv) : res bool :=
  match v with
  | JDict d => if jv_hashable x then Ok (jd_mem d x) else Err TypeError
  | JList l => Ok (jv_in x l)
  | JStr _ => Err Unmodelled
  | _ => Err TypeError
  end.
(* for x in v / tuple(v) / list(v) *)
Definition pj_iter (v : jv) : res (list jv) :=
  match v with
  | JList l => Ok l
  | JDict d => Ok (jd_keys d)
  | JStr _ => Err Unmodelled
  | _ => Err TypeError
  end.
(* v.keys() *)
Definition pj_keys (v : jv) : res (list jv) :=
  match v with JDict d => Ok (jd_keys d) | _ => Err AttributeError end.
(* v.items() *)
Definition pj_items (v : jv) : res (list (jv * jv)) :=
  match v with JDict d => Ok d | _ => Err AttributeError end.
(* dict(v): a shallow copy of a dict; dict(<pairs>) is not used on a JSON value *)
Definition pj_dict (v : jv) : res jdict :=
  match v with JDict d => Ok d | JList [] => Ok [] | JList _ => Err Unmodelled | _ => Err TypeError end.
(* len(v) *)
Definition pj_len (v : jv) : res Z :=
  match v with
  | JList l => Ok (py_len l)
  | JDict d => Ok (py_len d)
  | JStr s => Ok (Z.of_nat (String.length s))
  | _ => Err TypeError
  end.
(* int(v) / str(v) / v.lower() / v.isnumeric() *)
Definition pj_int (v : jv) : res Z :=
  match jv_int v with
  | IntIs z => Ok z
  | IntValueErr => Err ValueError
  | IntTypeErr => Err TypeError
  | IntUnmodelled => Err Unmodelled
  end.
Definition pj_str (v : jv) : res string := of_option Unmodelled (jv_str v).
Definition pj_lower (v : jv) : res jv :=
  match v with JStr s => Ok (JStr (str_lower s)) | _ => Err AttributeError end.
Definition pj_isnumeric (v : jv) : res bool :=
  match v with JStr s => Ok (str_isnumeric s) | _ => Err AttributeError end.
(* a + b: lists are concatenated; numbers and strings are not modelled *)
Definition pj_add (a b : jv) : res jv :=
  match a, b with
  | JList x, JList y => Ok (JList (x ++ y))
  | JList _, (JNone | JDict _) | (JNone | JDict _), _ => Err TypeError
  | _, _ => Err Unmodelled
  end.
(* a < b, a >= b ... on ints only *)
Definition pj_as_int (v : jv) : res Z :=
  match v with JInt z => Ok z | JBool b => Ok (if b then 1 else 0) | _ => Err Unmodelled end.
(* seq.index(x) on a tuple *)
Definition pl_index (l : list jv) (x : jv) : res Z := of_option ValueError (jv_index x l).
(* seq[i] on a tuple *)
Definition pl_getitem {A} (l : list A) (i : Z) : res A := of_option IndexError (py_nth l i).
(* seq[v] on a tuple with a JSON value as index *)
Definition pl_getitem_jv {A} (l : list A) (v : jv) : res A :=
  match v with
  | JInt i => pl_getitem l i
  | JBool b => pl_getitem l (if b then 1 else 0)
  | _ => Err TypeError
  end.
(* frozenset(xs) / set membership needs hashable items *)
Definition pl_frozenset (l : list jv) : res (list jv) :=
  if forallb jv_hashable l then Ok l else Err TypeError.
(* s.intersection(v): the members of s that occur in the iterable v (order unspecified: only asked
   whether it is empty / for membership) *)
Definition pl_intersection (s : list jv) (v : jv) : res (list jv) :=
  bind (pj_iter v) (fun l =>
    if forallb jv_hashable l then Ok (filter (fun x => jv_in x l) s) else Err TypeError).
(* a dict key must be hashable *)
Definition pj_key (k : jv) : res jv := if jv_hashable k then Ok k else Err TypeError.
(* d[k] / d.get(k, dflt) / k in d on a dict the function built itself (keys: JSON values) *)
Definition pd_getitem (d : jdict) (k : jv) : res jv :=
  if jv_hashable k then of_option KeyError (jd_get d k) else Err TypeError.
Definition pd_get (d : jdict) (k dflt : jv) : res jv :=
  if jv_hashable k then Ok (jd_get_default d k dflt) else Err TypeError.
Definition pd_contains (d : jdict) (k : jv) : res bool :=
  if jv_hashable k then Ok (jd_mem d k) else Err TypeError.
(* {k: v for ..} / dict(pairs) with JSON keys: every key must be hashable *)
Definition pd_of_pairs (l : list (jv * jv)) : res jdict :=
  if forallb (fun kv => jv_hashable (fst kv)) l then Ok (jd_of_pairs l) else Err TypeError.

(* {**v}: v must be a mapping *)
Definition pj_mapping (v : jv) : res jdict :=
  match v with JDict d => Ok d | _ => Err TypeError end.
(* v[k] = x on a dict the function created itself (the caller of this checks that): the new value *)
Definition pj_setitem (v k x : jv) : res jv :=
  match v with
  | JDict d => if jv_hashable k then Ok (JDict (jd_set d k x)) else Err TypeError
  | JList _ => Err Unmodelled
  | _ => Err TypeError
  end.
(* d.get(k, dflt) on a dict the function built itself with keys of a known type *)
Definition py_dict_get_default {K V} (eqb : K -> K -> bool) (d : list (K * V)) (k : K) (dflt : V) : V :=
  match py_dict_get eqb d k with Some v => v | None => dflt end.
(* MODULE_LEVEL_DICT.get(k, dflt): a dict display of string constants *)
Definition pj_strdict_get (d : list (string * string)) (k dflt : jv) : res jv :=
  if jv_hashable k then
    Ok (match k with
        | JStr s => match py_dict_get String.eqb d s with Some v => JStr v | None => dflt end
        | _ => dflt
        end)
  else Err TypeError.
(* an enum.Enum class as its (MEMBER, value) list: Cls(v) is the member whose value is v (here: that value),
   ValueError otherwise; Cls.has_value(v) = `v in cls._value2member_map_` *)
Definition pj_enum_call (tbl : list (string * string)) (v : jv) : res string :=
  match v with
  | JStr s => if existsb (fun mv => String.eqb (snd mv) s) tbl then Ok s else Err ValueError
  | _ => Err ValueError
  end.
Definition pj_enum_has (tbl : list (string * string)) (v : jv) : res bool :=
  if jv_hashable v then
    Ok (match v with JStr s => existsb (fun mv => String.eqb (snd mv) s) tbl | _ => false end)
  else Err TypeError.

(* --- comprehensions / all / any whose parts may raise ---------------------------------------------------- *)
(* [e for x in xs if c]: f x = Ok None when the condition fails *)
Fixpoint py_compM {A B} (f : A -> res (option B)) (l : list A) : res (list B) :=
  match l with
  | [] => Ok []
  | x :: t => bind (f x) (fun o => bind (py_compM f t) (fun r =>
                Ok (match o with Some y => y :: r | None => r end)))
  end.
(* all(f(x) for x in xs) / any(..): stops at the first deciding item *)
Fixpoint py_allM {A} (f : A -> res bool) (l : list A) : res bool :=
  match l with
  | [] => Ok true
  | x :: t => bind (f x) (fun b => if b then py_allM f t else Ok false)
  end.
Fixpoint py_anyM {A} (f : A -> res bool) (l : list A) : res bool :=
  match l with
  | [] => Ok false
  | x :: t => bind (f x) (fun b => if b then Ok true else py_anyM f t)
  end.

(* --- try / except ---------------------------------------------------------------------------------------- *)
(* try: <body> except (<codes>): <handler> *)
Definition py_try {A} (body : res A) (codes : list Z) (handler : res A) : res A :=
  match body with
  | Collator.Err c => if existsb (Z.eqb c) codes then handler else Err c
  | ok => ok
  end.

(* one statement of a try body: it returned ([inl]), fell through with its result ([inr]) or raised *)
Definition py_try_step {R S} (step : res (R + S)) (codes : list Z) (handler : res R) (k : S -> res R) : res R :=
  match step with
  | Collator.Ok (inl r) => Ok r
  | Collator.Ok (inr s) => k s
  | Collator.Err c => if existsb (Z.eqb c) codes then handler else Err c
  end.

(* --- the objects ----------------------------------------------------------------------------------------- *)
(* _ElementTransforms *)
Record pyxforms : Type := mkPyXforms { xf_element_transforms_dict : jv }.
(* Element (the label formatter it also stores is not modelled) *)
Record pyelement : Type := mkPyElement {
  el_element_dict : jv;
  el_index : Z;
  el_element_transforms : pyxforms;
  el_dim_type : dtype
}.
(* Elements(tuple) *)
Definition pyelements : Type := list pyelement.
(* _Subtotal *)
Record pysubtotal : Type := mkPySubtotal {
  st_subtotal_dict : jv;
  st_valid_elements : pyelements
}.
(* _Subtotals *)
Record pysubtotals : Type := mkPySubtotals {
  ss_insertion_dicts : jv;
  ss_valid_elements : pyelements;
  ss_from_view : bool
}.
(* Dimension: the two translated (shimmed) dicts are read as attributes - the lazyproperties
   `_dimension_dict` / `_dimension_transforms_dict` are the outputs of _ElementIdShim *)
Record pydimension : Type := mkPyDimension {
  dm_dimension_type : dtype;
  dm_dimension_dict : jv;
  dm_dimension_transforms_dict : jv
}.
(* _OrderSpec *)
Record pyorderspec : Type := mkPyOrderSpec {
  os_dimension : pydimension;
  os_dimension_transforms_dict : jv
}.
(* _ElementIdShim *)
Record pyshim : Type := mkPyShim {
  sh_dimension_type : dtype;
  sh_dimension_dict : jv;
  sh_dimension_transforms_dict : jv
}.

(* DIMENSION_TYPE members by name (enums.py) *)
Definition DT_BINNED_NUMERIC := TBinned.
Definition DT_CAT := TCat.
Definition DT_CAT_DATE := TCatDate.
Definition DT_CA_CAT := TCaCat.
Definition DT_CA_SUBVAR := TCaSubvar.
Definition DT_DATETIME := TDatetime.
Definition DT_LOGICAL := TLogical.
Definition DT_MR_CAT := TMrCat.
Definition DT_MR_SUBVAR := TMrSubvar.
Definition DT_NUM_ARRAY := TNumArr.
Definition DT_TEXT := TText.
Definition dt_in (t : dtype) (l : list dtype) : bool := existsb (dtype_eqb t) l.
