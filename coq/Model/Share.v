(* Model of the share-of-sum measures: matrix/measure.py (_RowShareSum, _ColumnShareSum,
   _TotalShareSum) and stripe/measure.py (_ShareSum).  Every total is taken over BASE
   (non-inserted) rows / columns only, for base cells and inserted subtotals alike.
   Executable; no proofs here. *)
From Coq Require Import QArith ZArith List Bool Lia Arith.
From CC Require Import Base.XQ Base.ListX Model.Subtotals.
Import ListNotations.
Local Close Scope Q_scope.
Local Open Scope nat_scope.

Section Share.
  Variable sums : mat.            (* base block of the sum measure, nr x nc *)
  Variable nr nc : nat.
  Variable rsubs csubs : list subtotal.

  (* SumSubtotals.blocks(sums, dimensions, diff_cols_nan=True, diff_rows_nan=True) *)
  Definition sb : blocks := sum_blocks sums nr nc rsubs csubs true true.
  Definition nrs := length rsubs.
  Definition ncs := length csubs.

  (* totals over base rows / base columns only *)
  Definition col_total (j : nat) : xq := nansum (tab nr (fun i => mnth sums i j)).
  Definition row_total (i : nat) : xq := nansum (tab nc (fun j => mnth sums i j)).
  Definition table_total : xq := nansum (concat (tab nr (fun i => tab nc (fun j => mnth sums i j)))).
  (* total of an inserted column over base rows; of an inserted row over base columns *)
  Definition subcol_total (l : nat) : xq := nansum (tab nr (fun i => mnth (b_cols sb) i l)).
  Definition subrow_total (k : nat) : xq := nansum (tab nc (fun j => mnth (b_rows sb) k j)).

  Definition col_share : blocks :=
    {| b_base := tab2 nr nc (fun i j => xdiv (mnth sums i j) (col_total j));
       b_cols := tab2 nr ncs (fun i l => xdiv (mnth (b_cols sb) i l) (subcol_total l));
       b_rows := tab2 nrs nc (fun k j => xdiv (mnth (b_rows sb) k j) (col_total j));
       b_inter := tab2 nrs ncs (fun k l => xdiv (mnth (b_inter sb) k l) (subcol_total l)) |}.

  Definition row_share : blocks :=
    {| b_base := tab2 nr nc (fun i j => xdiv (mnth sums i j) (row_total i));
       b_cols := tab2 nr ncs (fun i l => xdiv (mnth (b_cols sb) i l) (row_total i));
       b_rows := tab2 nrs nc (fun k j => xdiv (mnth (b_rows sb) k j) (subrow_total k));
       b_inter := tab2 nrs ncs (fun k l => xdiv (mnth (b_inter sb) k l) (subrow_total k)) |}.

  Definition total_share : blocks :=
    {| b_base := tab2 nr nc (fun i j => xdiv (mnth sums i j) table_total);
       b_cols := tab2 nr ncs (fun i l => xdiv (mnth (b_cols sb) i l) table_total);
       b_rows := tab2 nrs nc (fun k j => xdiv (mnth (b_rows sb) k j) table_total);
       b_inter := tab2 nrs ncs (fun k l => xdiv (mnth (b_inter sb) k l) table_total) |}.
End Share.

(* strand: base = sums / nansum(sums); subtotal = sum of addends' shares - subtrahends' *)
Definition stripe_share_base (sums : list xq) : list xq :=
  map (fun x => xdiv x (nansum sums)) sums.
Definition stripe_share_subtotals (sums : list xq) (subs : list subtotal) : list xq :=
  stripe_sum_subtotals (stripe_share_base sums) subs.
