(* Model/ZscoreP.v -- the two-sided p-value of a residual z-score (property C12) UP TO the normal
   CDF.  Source: src/cr/cube/matrix/measure.py _Pvalues._calculate_pval:
       2 * (1 - norm.cdf(np.abs(zscores)))
   Model/Zscore.v carries z as its signed square zz = z*|z| (|zz| = z^2), so the CDF is taken as a
   function of the SQUARE of its non-negative argument: [ncdf (z^2)] stands for norm.cdf(|z|).
   Executable for any given [ncdf]; no proofs here (Proofs/ZscorePProofs.v: for a function that
   represents a real Phi this IS [pval Phi z] of Proofs/ZscorePval.v, the definition the p-value
   theorems of Props/C12.v are about). *)
From Coq Require Import QArith List.
From CC Require Import Base.XQ Base.ListX.
Import ListNotations.
Local Close Scope Q_scope.
Local Open Scope nat_scope.

Definition pval_n (ncdf : xq -> xq) (zz : xq) : xq :=
  xmul (Fin 2) (xsub (Fin 1) (ncdf (xabs zz))).

(* ZZ: a block of signed squares (Model/Zscore.v [zblock]) *)
Definition pblock_n (ncdf : xq -> xq) (ZZ : mat) : mat :=
  tab2 (nrows ZZ) (ncols ZZ) (fun i j => pval_n ncdf (mnth ZZ i j)).
