(* PyDimType: what the generated text of coq/Gen/DimTypeSrc.v (shallow translation by
   harness/translate/x_dimtype.py of the members of src/cr/cube/dimension.py that x_dimension.py does not write to
   Gen/DimensionSrc.v) is written in, BESIDES Base/PyList.v, Base/PyDict.v and Model/PyDimension.v:

   * `raise NotImplementedError(..)` as an outcome of the exception monad;
   * type(v).__name__, "<sep>".join(xs), xs[n:], a call of an opaque value (the label formatter: the outcome
     [Unmodelled], about which no lemma says anything);
   * a Dimension OBJECT as the record of what Dimension.__init__ stores ([pydimobj]) with the setters an attribute
     assignment `obj.attr = v` on an object the function has just constructed is read as, and `xs[i] = x` on the
     list of such objects ([py_list_set]);
   * the ENVIRONMENT [pyshimenv] of the members of `Dimensions`: the two lazyproperties Dimension._dimension_dict /
     ._dimension_transforms_dict (outputs of _ElementIdShim; the first edits the response in place, which the
     by-value embedding cannot express) as FUNCTIONS of the attributes the object stores, and [dim_view]: the
     record (Model/PyDimension.v [pydimension]) the Dimension members of Gen/DimensionSrc.v are stated on.

   Definitions only (lemmas: Proofs/GenAgreeDimType*.v). *)
From Coq Require Import List ZArith String Ascii Bool Arith.
From CC Require Import Base.XQ Base.Ident Base.PyList Base.PyDict Model.DimType Model.PyDimension.
Import ListNotations.
Local Close Scope Q_scope.
Local Open Scope Z_scope.

Definition NotImplementedError : Z := 7.

(* type(v).__name__ *)
Definition pj_type_name (v : jv) : string :=
  match v with
  | JNone => "NoneType"
  | JBool _ => "bool"
  | JInt _ => "int"
  | JStr _ => "str"
  | JFloat _ => "float"
  | JList _ => "list"
  | JDict _ => "dict"
  end%string.

(* a call of a value the embedding does not describe (Element._label_formatter) *)
Definition py_call_opaque (A : Type) : res A := Err Unmodelled.

(* "<sep>".join(xs): every item must be a str *)
Fixpoint str_join (sep : string) (l : list string) : string :=
  match l with
  | [] => ""
  | [s] => s
  | s :: t => (s ++ sep ++ str_join sep t)
  end%string.
Definition pj_str_join (sep : string) (l : list jv) : res string :=
  bind (py_mapM (fun v => match v with JStr s => Ok s | _ => Err TypeError end) l)
       (fun ss => Ok (str_join sep ss)).

(* xs[n:] for a constant n >= 0 *)
Definition py_slice_from {A} (l : list A) (n : Z) : list A := skipn (Z.to_nat n) l.

(* xs[i] = x for 0 <= i < len(xs) (otherwise the list is left as it is: the translator only writes it for a
   position the enclosing loop walks) *)
Fixpoint list_set_nat {A} (l : list A) (i : nat) (x : A) : list A :=
  match l, i with
  | [], _ => []
  | _ :: t, O => x :: t
  | y :: t, S j => y :: list_set_nat t j x
  end.
Definition py_list_set {A} (l : list A) (i : Z) (x : A) : list A :=
  if i <? 0 then l else list_set_nat l (Z.to_nat i) x.

(* --- a Dimension object --------------------------------------------------------------------------------- *)
Record pydimobj : Type := mkPyDimObj {
  do_unshimmed_dimension_dict : jv;
  do_dimension_type : dtype;
  do_unshimmed_dimension_transforms_dict : jv
}.
Definition set_do_unshimmed_dimension_dict (o : pydimobj) (v : jv) : pydimobj :=
  mkPyDimObj v (do_dimension_type o) (do_unshimmed_dimension_transforms_dict o).
Definition set_do_dimension_type (o : pydimobj) (t : dtype) : pydimobj :=
  mkPyDimObj (do_unshimmed_dimension_dict o) t (do_unshimmed_dimension_transforms_dict o).
Definition set_do_unshimmed_dimension_transforms_dict (o : pydimobj) (v : jv) : pydimobj :=
  mkPyDimObj (do_unshimmed_dimension_dict o) (do_dimension_type o) v.

(* what the lazyproperties _dimension_dict / _dimension_transforms_dict of a Dimension object evaluate to, given
   the dimension type and the two dicts the object stores *)
Record pyshimenv : Type := mkPyShimEnv {
  x_dimension_dict : dtype -> jv -> jv -> jv;
  x_dimension_transforms_dict : dtype -> jv -> jv -> jv
}.
Definition dim_view (X : pyshimenv) (o : pydimobj) : pydimension :=
  mkPyDimension (do_dimension_type o)
    (x_dimension_dict X (do_dimension_type o) (do_unshimmed_dimension_dict o)
                      (do_unshimmed_dimension_transforms_dict o))
    (x_dimension_transforms_dict X (do_dimension_type o) (do_unshimmed_dimension_dict o)
                                 (do_unshimmed_dimension_transforms_dict o)).
