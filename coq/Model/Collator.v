(* Model of the ordering code of cr.cube: what the collators compute.

     src/cr/cube/collator.py        _BaseCollator, _BaseAnchoredCollator, PayloadOrderCollator,
                                    ExplicitOrderCollator, SortByValueCollator
     src/cr/cube/dimension.py       _Subtotal.anchor, _Subtotals (_iter_valid_subtotal_dicts,
                                    _position_crosswalk, _valid_subtotal_dicts_with_ids),
                                    Dimension.subtotals / subtotals_in_payload_order /
                                    hidden_idxs / prune, Element.is_hidden
     src/cr/cube/matrix/assembler.py, stripe/assembler.py
                                    _BaseOrderHelper._display_order, _prune_subtotals,
                                    the ValueError -> payload-order fallback

   Executable definitions only (the proofs are in Proofs/Order*.v); tied to the source by
   the correspondence checks harness/props/c07.py, c08.py, c09.py. *)
From Coq Require Import List ZArith String Ascii Bool Lia Arith QArith.
From CC Require Import Base.XQ Base.SortX Spec.OrderSpec.
Import ListNotations.
Local Close Scope Q_scope.
Local Open Scope nat_scope.

(* Python exceptions that the ordering code lets escape *)
Inductive res (A : Type) : Type := Ok (a : A) | Err (code : Z).
Arguments Ok {A} a.
Arguments Err {A} code.
Definition ValueError : Z := 1%Z.
Definition KeyError : Z := 2%Z.
Definition TypeError : Z := 3%Z.

Definition MAXSIZE : Z := 9223372036854775807%Z.     (* sys.maxsize *)

(* ---------------------------------------------------------------------------------------
   elements and insertions as the dimension sees them
   --------------------------------------------------------------------------------------- *)
(* anchor of a derived (multiple-response insertion) element: references.anchor *)
Inductive danchor : Type := DNone | DTop | DBottom | DRel (before : bool) (alias : ident).

Record elem : Type := mkElem {
  e_id : ident;            (* Element.element_id (category id / subvariable alias) *)
  e_derived : bool;        (* Element.derived *)
  e_danchor : danchor      (* Element.anchor (only looked at when derived) *)
}.

(* one entry of an "insertions" list *)
Record insertion : Type := mkIns {
  i_id : option Z;         (* "id" if present *)
  i_anchor : ident;        (* raw "anchor" value *)
  i_wf : bool;             (* is a dict, function == "subtotal", has "anchor" and "name" *)
  i_hide : bool;           (* "hide" is True *)
  i_terms : list ident     (* positive ++ negative element ids *)
}.

(* _Subtotals._iter_valid_subtotal_dicts *)
Definition ins_valid (valid_ids : list ident) (i : insertion) : bool :=
  i_wf i && negb (i_hide i) && existsb (fun t => imem t valid_ids) (i_terms i).
Definition valid_dicts (valid_ids : list ident) (l : list insertion) : list insertion :=
  filter (ins_valid valid_ids) l.

(* _Subtotal.anchor : "top" | "bottom" | int | some other lower-cased string *)
Inductive nanchor : Type := NTop | NBottom | NAt (z : Z) | NOther (s : string).

Definition norm_int (valid_ids : list ident) (z : Z) : nanchor :=
  if imem (IInt z) valid_ids then NAt z else NBottom.

Definition norm_anchor (valid_ids : list ident) (raw : ident) : nanchor :=
  match raw with
  | INone => NBottom
  | IInt z => norm_int valid_ids z
  | IStr s =>
      match py_int s with
      | Some z => norm_int valid_ids z
      | None =>
          let l := lower s in
          if String.eqb l "top" then NTop
          else if String.eqb l "bottom" then NBottom
          else NOther l
      end
  end.

(* _Subtotals._position_crosswalk: definition positions in "payload display order", as the
   code computes it.  Since the repair of finding C07-crosswalk-raw-anchors every insertion is
   filed under the anchor the collator reads, `_Subtotal(ins, valid_elements).anchor`
   ([norm_anchor]):
       anchor == "top"            -> first
       anchor == "bottom"         -> last
       anchor in element_ids      -> after[str(anchor)]   (an int that IS a valid id by
                                     construction, or a lower-cased string that is itself an
                                     element id - never the case for the int ids of a
                                     categorical dimension, the only ones with subtotals)
       otherwise                  -> last
   then   first ++ [after[str(e)] for e in element_ids if str(e) in after] ++ last.
   (The crosswalk dict is {position: rank}: with duplicated element ids a group would be
   listed twice and the LATER rank would win; [crosswalk_id] reads the first, the two agree
   when the ids are distinct, which the theorems assume.) *)
Definition crosswalk_order (valid_ids : list ident) (ds : list insertion) : list nat :=
  let ix := enumerate ds in
  let anchor (d : insertion) := norm_anchor valid_ids (i_anchor d) in
  (* Some (str(anchor)) when `anchor in element_ids` *)
  let after_key (d : insertion) : option string :=
    match anchor d with
    | NTop | NBottom => None
    | NAt z => if imem (IInt z) valid_ids then Some (py_str_Z z) else None
    | NOther s => if imem (IStr s) valid_ids then Some s else None
    end in
  let is_top (d : insertion) := match anchor d with NTop => true | _ => false end in
  let is_last (d : insertion) :=
    match anchor d with
    | NTop => false
    | NBottom => true
    | _ => match after_key d with Some _ => false | None => true end
    end in
  let first := filter (fun kd => is_top (snd kd)) ix in
  let after (e : ident) :=
    filter (fun kd => match after_key (snd kd) with
                      | Some s => String.eqb s (py_str e)
                      | None => false
                      end) ix in
  let last := filter (fun kd => is_last (snd kd)) ix in
  map fst (first ++ flat_map after valid_ids ++ last).

Fixpoint index_nat (k : nat) (l : list nat) : option nat :=
  match l with
  | [] => None
  | x :: t => if Nat.eqb x k then Some 0 else option_map S (index_nat k t)
  end.

(* position_crosswalk[k] *)
Definition crosswalk_id (valid_ids : list ident) (ds : list insertion) (k : nat) : option Z :=
  option_map (fun r => Z.of_nat (S r)) (index_nat k (crosswalk_order valid_ids ds)).

(* _Subtotals._valid_subtotal_dicts_with_ids: (id, dict) pairs.  The KeyError of a missing
   crosswalk entry cannot happen for int / str / null anchors (id 0 is never produced). *)
Definition has_id (d : insertion) : bool := match i_id d with Some _ => true | None => false end.
Definition with_ids (from_view : bool) (valid_ids : list ident) (ds : list insertion)
  : list (Z * insertion) :=
  map (fun kd : nat * insertion =>
         let (k, d) := kd in
         match i_id d with
         | Some z => (z, d)
         | None =>
             if from_view
             then (match crosswalk_id valid_ids ds k with Some z => z | None => 0%Z end, d)
             else (Z.of_nat (S k), d)
         end) (enumerate ds).

(* ---------------------------------------------------------------------------------------
   the dimension
   --------------------------------------------------------------------------------------- *)
Inductive hideval : Type := HTrue | HFalse | HOther.   (* "hide": True / False / anything else, absent *)

Record dimension : Type := mkDim {
  d_elems : list elem;                        (* valid elements in payload order *)
  d_array : bool;                             (* MR_SUBVAR / CA_SUBVAR: no subtotals *)
  d_view : list insertion;                    (* references.view.transform.insertions *)
  d_tins : option (list insertion);           (* transforms["insertions"] when the key is there *)
  d_hides : list (ident * hideval);           (* transforms["elements"]: key -> hide value *)
  d_prune : bool                              (* transforms["prune"] is True *)
}.

Definition d_ids (d : dimension) : list ident := map e_id (d_elems d).

(* Dimension.subtotals *)
Definition subtotals (d : dimension) : list (Z * insertion) :=
  if d_array d then []
  else match d_tins d with
       | Some l => with_ids false (d_ids d) (valid_dicts (d_ids d) l)
       | None => with_ids true (d_ids d) (valid_dicts (d_ids d) (d_view d))
       end.

(* Dimension.subtotals_in_payload_order *)
Definition subtotals_in_payload_order (d : dimension) : list (Z * insertion) :=
  if d_array d then []
  else match d_view d with
       | _ :: _ => with_ids true (d_ids d) (valid_dicts (d_ids d) (d_view d))
       | [] => with_ids false (d_ids d)
                 (valid_dicts (d_ids d) (match d_tins d with Some l => l | None => [] end))
       end.

(* Element.is_hidden: all_xforms.get(element_id, all_xforms.get(str(element_id), {})) *)
Fixpoint dict_get {V} (k : ident) (l : list (ident * V)) : option V :=
  match l with
  | [] => None
  | (k', v) :: t => if ident_eqb k' k then Some v else dict_get k t
  end.
Definition elem_hidden (hides : list (ident * hideval)) (id : ident) : bool :=
  let v := match dict_get id hides with
           | Some v => Some v
           | None => dict_get (IStr (py_str id)) hides
           end in
  match v with Some HTrue => true | _ => false end.

(* Dimension.hidden_idxs *)
Definition hidden_idxs (d : dimension) : list nat :=
  map fst (filter (fun ke => elem_hidden (d_hides d) (e_id (snd ke))) (enumerate (d_elems d))).

(* _BaseCollator._hidden_idxs *)
Definition collator_hidden (d : dimension) (empties : list nat) : list nat :=
  hidden_set (d_prune d) empties (hidden_idxs d).

(* ---------------------------------------------------------------------------------------
   anchored collators
   --------------------------------------------------------------------------------------- *)
(* _element_order_descriptors: (idx, element_id) in position order *)
Definition descriptors_payload (d : dimension) : list bel := enumerate (d_ids d).

Definition known_elems (d : dimension) : list bel :=
  map (fun ke => (fst ke, e_id (snd ke)))
      (filter (fun ke => negb (e_derived (snd ke))) (enumerate (d_elems d))).

(* OrderedDict.pop *)
Fixpoint pop_id (i : ident) (rem : list bel) : option (bel * list bel) :=
  match rem with
  | [] => None
  | e :: t =>
      if ident_eqb (snd e) i then Some (e, t)
      else match pop_id i t with Some (x, t') => Some (x, e :: t') | None => None end
  end.
Fixpoint explicit_loop (listed : list ident) (rem : list bel) : list bel :=
  match listed with
  | [] => rem
  | i :: r =>
      match pop_id i rem with
      | Some (e, rem') => e :: explicit_loop r rem'
      | None => explicit_loop r rem
      end
  end.
Definition descriptors_explicit (d : dimension) (listed : list ident) : list bel :=
  explicit_loop listed (known_elems d).

(* _element_positions_by_id: dict comprehension, a later entry overwrites an earlier one *)
Definition positions_by_id (desc : list bel) (i : ident) : option nat :=
  fold_left (fun acc pe => if ident_eqb (snd (snd pe)) i then Some (fst pe) else acc)
            (enumerate desc) None.

(* _base_element_orderings *)
Definition base_keys (desc : list bel) : list key :=
  map (fun pe : nat * bel => (Z.of_nat (fst pe), 0%Z, Z.of_nat (fst (snd pe)))) (enumerate desc).

(* _insertion_position / _derived_element_position, on a place *)
Definition float_key (desc : list bel) (f : flt) : key :=
  let idx := fst f in
  match snd f with
  | PTop => ((-1)%Z, 0%Z, idx)
  | PBottom => (MAXSIZE, 0%Z, idx)
  | PBefore a =>
      match positions_by_id desc a with
      | Some p => (Z.of_nat p, (-1)%Z, idx)
      | None => (MAXSIZE, 0%Z, idx)
      end
  | PAfter a =>
      match positions_by_id desc a with
      | Some p => (Z.of_nat p, 1%Z, idx)
      | None => (MAXSIZE, 0%Z, idx)
      end
  end.

Definition place_of_nanchor (a : nanchor) : place :=
  match a with
  | NTop => PTop
  | NBottom => PBottom
  | NAt z => PAfter (IInt z)
  | NOther _ => PBottom       (* never used: the collator raises ValueError first *)
  end.
Definition is_other (a : nanchor) : bool := match a with NOther _ => true | _ => false end.

Definition place_of_danchor (a : danchor) : place :=
  match a with
  | DNone | DBottom => PBottom
  | DTop => PTop
  | DRel true alias => PBefore alias
  | DRel false alias => PAfter alias
  end.

(* the insertions as floats: index i - n for the i-th of n subtotals *)
Definition anchors_of (d : dimension) (subs : list (Z * insertion)) : list nanchor :=
  map (fun s => norm_anchor (d_ids d) (i_anchor (snd s))) subs.
Definition insertion_floats (anchors : list nanchor) : list flt :=
  combine (neg_idxs (List.length anchors)) (map place_of_nanchor anchors).

(* ExplicitOrderCollator._derived_element_orderings *)
Definition derived_floats (d : dimension) : list flt :=
  map (fun ke : nat * elem => (Z.of_nat (fst ke), place_of_danchor (e_danchor (snd ke))))
      (filter (fun ke => e_derived (snd ke)) (enumerate (d_elems d))).

(* sorted(base + insertion + derived orderings), idx of each *)
Definition collate (desc : list bel) (floats : list flt) : list Z :=
  map kidx (ksort (base_keys desc ++ map (float_key desc) floats)).

Inductive order_kind : Type := OPayload | OExplicit (listed : list ident).

Definition desc_of (d : dimension) (o : order_kind) : list bel :=
  match o with OPayload => descriptors_payload d | OExplicit l => descriptors_explicit d l end.
Definition floats_of (d : dimension) (o : order_kind) (anchors : list nanchor) : list flt :=
  insertion_floats anchors
  ++ match o with OPayload => [] | OExplicit _ => derived_floats d end.

(* _BaseAnchoredCollator._display_order (signed indexes), over a given subtotal list *)
Definition anchored_display_over (d : dimension) (o : order_kind) (subs : list (Z * insertion))
           (empties : list nat) : res (list Z) :=
  let anchors := anchors_of d subs in
  if existsb is_other anchors then Err ValueError
  else Ok (displayed (collator_hidden d empties) (collate (desc_of d o) (floats_of d o anchors))).

Definition anchored_display (d : dimension) (o : order_kind) (empties : list nat) : res (list Z) :=
  anchored_display_over d o (subtotals d) empties.

(* ---------------------------------------------------------------------------------------
   'ins_N' rendering
   --------------------------------------------------------------------------------------- *)
(* an entry of a BOGUS_IDS order: base index or "ins_<id>" *)
Inductive entry : Type := EBase (idx : Z) | EIns (id : Z).

(* _order_mapping = dict(zip(neg_idxs, bogus_ids)) *)
Definition order_mapping (bogus : list Z) : list (Z * Z) :=
  combine (neg_idxs (List.length bogus)) bogus.
Fixpoint zlookup (k : Z) (m : list (Z * Z)) : option Z :=
  match m with
  | [] => None
  | (k', v) :: t => if Z.eqb k' k then Some v else zlookup k t
  end.
Fixpoint render_bogus (m : list (Z * Z)) (order : list Z) : res (list entry) :=
  match order with
  | [] => Ok []
  | idx :: t =>
      if Z.ltb idx 0 then
        match zlookup idx m with
        | None => Err KeyError
        | Some id => match render_bogus m t with Ok r => Ok (EIns id :: r) | Err c => Err c end
        end
      else match render_bogus m t with Ok r => Ok (EBase idx :: r) | Err c => Err c end
  end.

(* PayloadOrderCollator._subtotals_bogus_ids: ids of the VIEW subtotals that are also
   among the transform subtotals, in view order *)
Definition zmem (z : Z) (l : list Z) : bool := existsb (Z.eqb z) l.
Definition payload_bogus_ids (d : dimension) : list Z :=
  filter (fun z => zmem z (map fst (subtotals d))) (map fst (subtotals_in_payload_order d)).
(* the other collators: Dimension.subtotals.bogus_ids *)
Definition plain_bogus_ids (d : dimension) : list Z := map fst (subtotals d).

(* _BaseAnchoredCollator._display_order_mapping: the display order indexes the dimension's OWN
   subtotals for every collator (since the repair of finding C07-bogus-ids-payload-mapping; the
   payload-order collator used [payload_bogus_ids], which now only serves [payload_order]) *)
Definition bogus_ids_for (d : dimension) (o : order_kind) : list Z := plain_bogus_ids d.

Definition bind {A B} (r : res A) (f : A -> res B) : res B :=
  match r with Ok a => f a | Err c => Err c end.

Definition anchored_display_bogus (d : dimension) (o : order_kind) (empties : list nat)
  : res (list entry) :=
  bind (anchored_display d o empties)
       (render_bogus (order_mapping (bogus_ids_for d o))).

(* PayloadOrderCollator.payload_order: payload collation of the view subtotals that are
   referenced by the transforms, always rendered with ins_N *)
Definition payload_order (d : dimension) (empties : list nat) : res (list entry) :=
  let tr_ids := map fst (subtotals d) in
  let subs := filter (fun s => zmem (fst s) tr_ids) (subtotals_in_payload_order d) in
  bind (anchored_display_over d OPayload subs empties)
       (render_bogus (order_mapping (payload_bogus_ids d))).

(* ---------------------------------------------------------------------------------------
   sort-by-value collator
   --------------------------------------------------------------------------------------- *)
(* a sort value: a number (NaN included) or a label *)
Inductive sval : Type := VNum (x : xq) | VStr (s : string).

Definition sval_nan (v : sval) : bool := match v with VNum NaN => true | _ => false end.

(* <= on values (numbers among themselves, labels among themselves).  NaN never reaches a
   comparison (the collator puts NaN-valued vectors in a separate bucket first); it is
   placed below everything only to make the relation a total preorder. *)
Definition num_leb (a b : xq) : bool :=
  match a, b with
  | NaN, _ => true
  | _, NaN => false
  | Inf true, _ => true
  | _, Inf true => false
  | _, Inf false => true
  | Inf false, _ => false
  | Fin p, Fin q => Qle_bool p q
  end.
Definition sval_leb (a b : sval) : bool :=
  match a, b with
  | VNum x, VNum y => num_leb x y
  | VStr s, VStr t => String.leb s t
  | VNum _, VStr _ => true         (* not reachable: a value vector is homogeneous *)
  | VStr _, VNum _ => false
  end.

(* Python compares the (value, idx) tuples: by value, then by idx *)
Definition vkey : Type := (sval * Z)%type.
Definition vkey_leb (a b : vkey) : bool :=
  if sval_leb (fst a) (fst b)
  then (if sval_leb (fst b) (fst a) then Z.leb (snd a) (snd b) else true)
  else false.
(* sorted(keys, reverse=descending): for descending the order is reversed *)
Definition vkey_dir_leb (desc : bool) (a b : vkey) : bool :=
  if desc then vkey_leb b a else vkey_leb a b.
Definition sort_vkeys (desc : bool) (l : list vkey) : list vkey := isort (vkey_dir_leb desc) l.

(* _iter_fixed_idxs: {id: idx} (a later duplicate id overwrites), listed ids in listed order *)
Definition idx_by_id (ids : list ident) (i : ident) : option nat :=
  fold_left (fun acc ke => if ident_eqb (snd ke) i then Some (fst ke) else acc)
            (enumerate ids) None.
Definition fixed_idxs (ids : list ident) (listed : list ident) : list nat :=
  flat_map (fun i => match idx_by_id ids i with Some k => [k] | None => [] end) listed.

Definition nmem (k : nat) (l : list nat) : bool := existsb (Nat.eqb k) l.

(* _body_idxs *)
Definition body_keys (vals : list sval) (fixed : list nat) : list vkey :=
  map (fun kv : nat * sval => (snd kv, Z.of_nat (fst kv)))
      (filter (fun kv => negb (nmem (fst kv) fixed) && negb (sval_nan (snd kv))) (enumerate vals)).
Definition body_nans (vals : list sval) (fixed : list nat) : list Z :=
  map (fun kv : nat * sval => Z.of_nat (fst kv))
      (filter (fun kv => negb (nmem (fst kv) fixed) && sval_nan (snd kv)) (enumerate vals)).
Definition body_idxs (desc : bool) (vals : list sval) (fixed : list nat) : list Z :=
  map snd (sort_vkeys desc (body_keys vals fixed)) ++ body_nans vals fixed.

(* _subtotal_idxs *)
Definition subtotal_keys (svals : list sval) : list vkey :=
  filter (fun k => negb (sval_nan (fst k))) (combine svals (neg_idxs (List.length svals))).
Definition subtotal_nans (svals : list sval) : list Z :=
  map snd (filter (fun k => sval_nan (fst k)) (combine svals (neg_idxs (List.length svals)))).
Definition subtotal_idxs (desc : bool) (svals : list sval) : list Z :=
  map snd (sort_vkeys desc (subtotal_keys svals)) ++ subtotal_nans svals.

Record sortspec : Type := mkSort {
  s_desc : bool;              (* direction != "ascending" *)
  s_top : list ident;         (* order.fixed.top *)
  s_bottom : list ident       (* order.fixed.bottom *)
}.

(* SortByValueCollator._display_order before the hidden filter, in its five segments *)
Definition sbv_segments (ids : list ident) (s : sortspec) (vals svals : list sval)
  : list (list Z) :=
  let top := fixed_idxs ids (s_top s) in
  let bottom := fixed_idxs ids (s_bottom s) in
  let subs := subtotal_idxs (s_desc s) svals in
  [ (if s_desc s then subs else []);
    map Z.of_nat top;
    body_idxs (s_desc s) vals (top ++ bottom);
    map Z.of_nat bottom;
    (if s_desc s then [] else subs) ].

(* tuple(dict.fromkeys(seq)): every index once, at the place of its first mention.  (The dict
   inserts a key when it is not there yet: [first_mentions (l ++ [z])] is [first_mentions l]
   when z is in l and [first_mentions l ++ [z]] otherwise - Proofs/SbvDedup.v first_mentions_snoc.) *)
Fixpoint first_mentions (l : list Z) : list Z :=
  match l with
  | [] => []
  | z :: t => z :: filter (fun y => negb (Z.eqb y z)) (first_mentions t)
  end.

(* SortByValueCollator._display_order: the five segments concatenated, the hidden elements
   filtered out, THEN de-duplicated (since the repair of finding C05-fixed-repeats: an element
   named more than once in fixed.top / fixed.bottom is shown once, where it is first mentioned) *)
Definition sbv_display (d : dimension) (s : sortspec) (vals svals : list sval)
           (empties : list nat) : list Z :=
  first_mentions
    (displayed (collator_hidden d empties) (List.concat (sbv_segments (d_ids d) s vals svals))).

(* ---------------------------------------------------------------------------------------
   order helpers: dispatch, fallback, subtotal pruning
   --------------------------------------------------------------------------------------- *)
Inductive ordering : Type :=
  | ByAnchor (o : order_kind)
  (* sort by value: [None] when the sort key cannot be resolved (ValueError in the helper) *)
  | ByValue (s : sortspec) (vals : option (list sval * list sval)).

(* helper._order, signed *)
Definition helper_order (d : dimension) (o : ordering) (empties : list nat) : res (list Z) :=
  match o with
  | ByAnchor k => anchored_display d k empties
  | ByValue s (Some (vals, svals)) => Ok (sbv_display d s vals svals empties)
  | ByValue s None => anchored_display d OPayload empties
  end.

Definition helper_order_bogus (d : dimension) (o : ordering) (empties : list nat)
  : res (list entry) :=
  match o with
  | ByAnchor k => anchored_display_bogus d k empties
  | ByValue s (Some (vals, svals)) =>
      render_bogus (order_mapping (plain_bogus_ids d)) (sbv_display d s vals svals empties)
  | ByValue s None => anchored_display_bogus d OPayload empties
  end.

(* _RowOrderHelper._prune_subtotals / _ColumnOrderHelper._prune_subtotals:
   opposing dimension prunes and ALL its base vectors are empty *)
Definition prune_subtotals (opp_prune : bool) (opp_empties : list nat) (opp_n : nat) : bool :=
  opp_prune && Nat.eqb (List.length opp_empties) opp_n.

(* _BaseOrderHelper._display_order (matrix); a strand never prunes subtotals *)
Definition display_order (d : dimension) (o : ordering) (empties : list nat) (psub : bool)
  : res (list Z) :=
  bind (helper_order d o empties)
       (fun l => Ok (if psub then filter (fun z => Z.leb 0 z) l else l)).

(* with BOGUS_IDS a subtotal is an "ins_N" string: the subtotal pruning drops those (since the
   repair of finding C07-bogus-ids-prune-subtotals-typeerror; `idx >= 0` used to raise on them) *)
Definition is_ins (e : entry) : bool := match e with EIns _ => true | EBase _ => false end.
Definition display_order_bogus (d : dimension) (o : ordering) (empties : list nat) (psub : bool)
  : res (list entry) :=
  bind (helper_order_bogus d o empties)
       (fun l => Ok (if psub then filter (fun e => negb (is_ins e)) l else l)).

(* row_codes / column_codes: (element_ids + insertion_ids)[order] *)
Definition codes (d : dimension) (order : list Z) : list ident :=
  let ids := d_ids d in
  let sids := map fst (subtotals d) in
  map (fun z => if Z.ltb z 0
                then IInt (nth (Z.to_nat (Z.of_nat (List.length sids) + z)) sids 0%Z)
                else nth (Z.to_nat z) ids INone) order.

(* ---------------------------------------------------------------------------------------
   token streams for the correspondence check (decoded by harness/props/order_util.py)
   --------------------------------------------------------------------------------------- *)
Definition r_string (s : string) : list Z :=
  Z.of_nat (String.length s) :: map (fun c => Z.of_nat (nat_of_ascii c)) (list_ascii_of_string s).
Definition r_ident (a : ident) : list Z :=
  match a with IInt z => [0%Z; z] | IStr s => 1%Z :: r_string s | INone => [2%Z] end.
Definition r_entry (e : entry) : list Z :=
  match e with EBase i => [0%Z; i] | EIns i => [1%Z; i] end.
Definition r_seq {A} (f : A -> list Z) (l : list A) : list Z :=
  Z.of_nat (List.length l) :: flat_map f l.
Definition r_res {A} (f : A -> list Z) (r : res A) : list Z :=
  match r with Ok a => 0%Z :: f a | Err c => [c] end.
Definition r_zs (l : list Z) : list Z := r_seq (fun z => [z]) l.

(* everything the public API shows about one dimension of a partition *)
Definition run_dim (d : dimension) (o : ordering) (empties : list nat) (psub : bool) : list Z :=
  let signed := display_order d o empties psub in
  r_res r_zs signed
  ++ r_res (r_seq r_entry) (display_order_bogus d o empties psub)
  ++ r_res (r_seq r_entry) (payload_order d empties)
  ++ r_res (r_seq r_ident) (bind signed (fun l => Ok (codes d l)))
  ++ r_zs (map fst (subtotals d)).

(* the segments of a sort-by-value order after the hidden filter and BEFORE the
   de-duplication of [sbv_display] (for near-tie tolerant comparison in the C08 check) *)
Definition run_sbv_segments (d : dimension) (s : sortspec) (vals svals : list sval)
           (empties : list nat) : list Z :=
  r_seq (fun seg => r_zs (displayed (collator_hidden d empties) seg))
        (sbv_segments (d_ids d) s vals svals).

(* definition positions (in the list the subtotals come from) of the valid subtotals *)
Definition subtotal_sources (d : dimension) : list nat :=
  if d_array d then []
  else
    let src := match d_tins d with Some l => l | None => d_view d end in
    map fst (filter (fun kd => ins_valid (d_ids d) (snd kd)) (enumerate src)).

Definition run_dim_full (d : dimension) (o : ordering) (empties : list nat) (psub : bool) : list Z :=
  run_dim d o empties psub ++ r_zs (map Z.of_nat (subtotal_sources d)).

(* ---------------------------------------------------------------------------------------
   What the property text (C07) says about insertion ids - used as an ORACLE by the check,
   not a model of the code: a subtotal keeps its "id"; without one it is numbered by its
   1-based rank among the subtotals of the payload display order (anchors read with
   [spec_place]) when it comes from the variable, by its 1-based definition position when
   it comes from the analysis.
   --------------------------------------------------------------------------------------- *)
Definition spec_places (ids : list ident) (ds : list insertion) : list place :=
  map (fun d => match spec_place ids (i_anchor d) with Some p => p | None => PBottom end) ds.

Definition spec_ids_of (from_view : bool) (ids : list ident) (ds : list insertion)
  : list (option Z) :=
  let n := List.length ds in
  let order := anchored_order (payload_base ids) (combine (neg_idxs n) (spec_places ids ds)) in
  map (fun kd : nat * insertion =>
         match i_id (snd kd) with
         | Some z => Some z
         | None => if from_view then rank_in_order n (fst kd) order
                   else Some (Z.of_nat (S (fst kd)))
         end) (enumerate ds).

Definition spec_ids (d : dimension) : list (option Z) :=
  if d_array d then []
  else match d_tins d with
       | Some l => spec_ids_of false (d_ids d) (valid_dicts (d_ids d) l)
       | None => spec_ids_of true (d_ids d) (valid_dicts (d_ids d) (d_view d))
       end.

Definition run_spec_ids (d : dimension) : list Z :=
  r_seq (fun o => match o with Some z => [1%Z; z] | None => [0%Z] end) (spec_ids d).
