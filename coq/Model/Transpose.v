(* Model/Transpose.v -- what "exchanging the two dimensions of a response and transposing its
   data" means for the models of Model/CubeCounts.v (tensors, dimension lists, payloads) and
   Model/Subtotals.v ... Model/Population.v (matrices, block quadruples, subtotal lists).
   Property C10.  Executable; definitions only (proofs: Proofs/Transpose*.v).

   Nothing here re-defines a measure: the theorems of C10 relate the EXISTING row-direction
   definitions applied to the transposed input with the EXISTING column-direction definitions
   applied to the original input (they are written separately in the code and in the models). *)
From Coq Require Import QArith ZArith List Bool Lia Arith.
From CC Require Import Base.XQ Base.ListX Spec.Survey Model.CubeCounts Model.Subtotals
  Model.Proportions Model.Population Model.Scale Model.Variance.
Import ListNotations.
Local Close Scope Q_scope.
Local Open Scope nat_scope.

(* ------------------------------------------------------------------------------------ *)
(** * matrices *)

(* the transpose of an nr x nc matrix *)
Definition mtranspose (nr nc : nat) (m : mat) : mat := tab2 nc nr (fun j i => mnth m i j).

(* m has exactly nr rows of exactly nc cells *)
Definition shape (m : mat) (nr nc : nat) : Prop :=
  length m = nr /\ forall i, i < nr -> length (nth i m []) = nc.

(* mT is a transpose of m, cell by cell (up to Qeq), out-of-range cells included *)
Definition MT (mT m : mat) : Prop := forall i j, mnth mT j i =x= mnth m i j.

(* the four blocks of the exchanged analysis: inserted rows and inserted columns trade places *)
Definition tblocks (nr nc nrs ncs : nat) (b : blocks) : blocks :=
  {| b_base := mtranspose nr nc (b_base b);
     b_cols := mtranspose nrs nc (b_rows b);
     b_rows := mtranspose nr ncs (b_cols b);
     b_inter := mtranspose nrs ncs (b_inter b) |}.

(* B' (blocks of the nc x nr analysis with ncs inserted rows, nrs inserted columns) is the
   transpose of B (nr x nc, nrs inserted rows, ncs inserted columns), cell by cell *)
Record BT (nr nc nrs ncs : nat) (B' B : blocks) : Prop := mkBT {
  bt_base : forall i j, i < nr -> j < nc -> mnth (b_base B') j i =x= mnth (b_base B) i j;
  bt_cols : forall i l, i < nr -> l < ncs -> mnth (b_rows B') l i =x= mnth (b_cols B) i l;
  bt_rows : forall k j, k < nrs -> j < nc -> mnth (b_cols B') j k =x= mnth (b_rows B) k j;
  bt_inter : forall k l, k < nrs -> l < ncs -> mnth (b_inter B') l k =x= mnth (b_inter B) k l }.

(* ------------------------------------------------------------------------------------ *)
(** * tensors: an MR dimension moves together with its selection axis *)

Definition cls_mr (c : cls) : bool := match c with CMr => true | _ => false end.
(* number of axes a dimension of class c occupies in the valid slice tensor *)
Definition grp (mr : bool) : nat := if mr then 2 else 1.

(* V is indexed  row-group ++ column-group ; the transposed tensor is indexed
   column-group ++ row-group.  [cmr]: the ORIGINAL columns dimension is MR. *)
Definition ttrans (cmr : bool) (V : tensor) : tensor :=
  fun idx => V (skipn (grp cmr) idx ++ firstn (grp cmr) idx).

(* all-dimensions list of a 2-D cube: the first dimension with its selection axis (if MR) *)
Definition rgrp (ds : list dimd) : nat :=
  match ds with d :: _ => grp (is_mr d) | [] => 0 end.
Definition tdims (ds : list dimd) : list dimd := skipn (rgrp ds) ds ++ firstn (rgrp ds) ds.

(* tensor with [n] leading axes moved to the back: T' (b ++ a) = T (a ++ b), |b| = len - n *)
Definition trot (k : nat) (T : tensor) : tensor :=
  fun idx => T (skipn k idx ++ firstn k idx).

(* the transposed payload of a 2-D cube without numeric-array dimension (row-major) *)
Definition tpayload (ds : list dimd) (data : list xq) : list xq :=
  let sh := map dsize ds in
  let k := length ds - rgrp ds in
  flatten (skipn (rgrp ds) sh ++ firstn (rgrp ds) sh) (trot k (of_flat sh data)).

(* ------------------------------------------------------------------------------------ *)
(** * the analysis of the exchanged cube, computed from the ORIGINAL slice tensor *)

(* Model/CubeCounts.v slice_counts, with the tensor and the sizes as arguments *)
Definition slice_out_of (V : tensor) (nr nc sr sc : nat) (rc cc : cls) : slice_out :=
  let tb := tab2 nr nc (table_bases_of V nr nc sr sc rc cc) in
  mkSliceOut
    (tab2 nr nc (counts_of V rc cc))
    (tab2 nr nc (row_bases_of V nc sc rc cc))
    (tab2 nr nc (column_bases_of V nr sr rc cc))
    tb
    (oapp (tab nr) (rows_base_of V nc rc cc))
    (oapp (tab nc) (columns_base_of V nr rc cc))
    (oapp (tab nr) (rows_table_base_of V nr nc sr rc cc))
    (oapp (tab nc) (columns_table_base_of V nr nc sc rc cc))
    (table_base_of V nr nc rc cc)
    (bases_range tb).

(* B x A from the payload of A x B: transposed tensor, exchanged sizes and classes, and the
   extractors of the exchanged class pair *)
Definition slice_counts_T (ds : list dimd) (data : list xq) : option slice_out :=
  match slice_info_of ds with
  | None => None
  | Some si =>
      let V := slice_tensor ds data si 0 in
      Some (slice_out_of (ttrans (is_mr (si_col si)) V)
                         (nvalid (si_col si)) (nvalid (si_row si)) (si_sc si) (si_sr si)
                         (cls_of (si_col si)) (cls_of (si_row si)))
  end.

(* ------------------------------------------------------------------------------------ *)
(** * vector statistics along rows / along columns (Model/Scale.v is per vector) *)

(* a per-vector statistic [f index counts bases] applied to every row / every column *)
Definition rows_stat (f : nat -> list xq -> list xq -> xq) (nr : nat) (counts bases : mat) : list xq :=
  tab nr (fun i => f i (mrow counts i) (mrow bases i)).
Definition cols_stat (f : nat -> list xq -> list xq -> xq) (nc : nat) (counts bases : mat) : list xq :=
  tab nc (fun j => f j (mcol counts j) (mcol bases j)).

(* cubepart.py rows_margin_proportion / columns_margin_proportion, 2-D fall-back form:
   margin / table base, cell by cell *)
Definition margin_proportion (nr nc : nat) (margin tbase : mat) : mat :=
  tab2 nr nc (fun i j => xdiv (mnth margin i j) (mnth tbase i j)).

(* ------------------------------------------------------------------------------------ *)
(** * relations used in the statements *)

(* two optional per-element marginals: defined together, and then equal element by element *)
Definition orelf (R : xq -> xq -> Prop) (o1 o2 : option (nat -> xq)) : Prop :=
  match o1, o2 with
  | Some f, Some g => forall k, R (f k) (g k)
  | None, None => True
  | _, _ => False
  end.
Definition orelx (o1 o2 : option xq) : Prop :=
  match o1, o2 with
  | Some x, Some y => x =x= y
  | None, None => True
  | _, _ => False
  end.

Definition orelv (R : xq -> xq -> Prop) (n : nat) (o1 o2 : option (list xq)) : Prop :=
  match o1, o2 with
  | Some u, Some v => forall k, k < n -> R (vnth u k) (vnth v k)
  | None, None => True
  | _, _ => False
  end.


(* the slice_out of B x A against the slice_out of A x B (nr x nc) *)
Record slice_out_T (nr nc : nat) (S' S : slice_out) : Prop := mkSoT {
  sot_counts : forall i j, i < nr -> j < nc -> mnth (so_counts S') j i = mnth (so_counts S) i j;
  sot_row_bases : forall i j, i < nr -> j < nc ->
      mnth (so_row_bases S') j i = mnth (so_column_bases S) i j;
  sot_column_bases : forall i j, i < nr -> j < nc ->
      mnth (so_column_bases S') j i = mnth (so_row_bases S) i j;
  sot_table_bases : forall i j, i < nr -> j < nc ->
      mnth (so_table_bases S') j i =x= mnth (so_table_bases S) i j;
  sot_rows_base : orelv eq nc (so_rows_base S') (so_columns_base S);
  sot_columns_base : orelv eq nr (so_columns_base S') (so_rows_base S);
  sot_rows_table_base : orelv xeq nc (so_rows_table_base S') (so_columns_table_base S);
  sot_columns_table_base : orelv xeq nr (so_columns_table_base S') (so_rows_table_base S);
  sot_table_base : orelx (so_table_base S') (so_table_base S) }.


(* the instances of Model/Scale.v: [vals] = numeric values of the opposing dimension *)
Definition f_scale_mean (vals : list xq) := fun (_ : nat) c b => scale_mean_vec c b vals.
Definition f_scale_var (vals : list xq) (diff : nat -> bool) := fun i c b => scale_var_vec (diff i) c b vals.
Definition f_scale_stderr (vals : list xq) (diff : nat -> bool) (margin : nat -> xq) :=
  fun i c b => scale_stderr_sq_vec (diff i) c b vals (margin i).
Definition f_scale_median (vals : list xq) (ord : list nat) (diff : nat -> bool) :=
  fun i c (_ : list xq) => scale_median_vec ord (diff i) c vals.


(* all cells of a matrix are finite numbers *)
Definition all_fin_mat (m : mat) (nr nc : nat) : Prop :=
  forall i j, i < nr -> j < nc -> exists q, mnth m i j = Fin q.


(* ---- composed direction measures: variance and squared standard error of the row / column /
   table proportions (Model/Variance.v over Model/Proportions.v) ---- *)
  (* the model of _ProportionVariances for a direction: proportions + that direction's bases *)
Definition row_var (dn : bool) (n m : nat) (rs cs : list subtotal) (k : mat) (r c' : bool) (rb : mat) :=
  variance_blocks k n m rs cs (row_proportions n m rs cs k dn r c' rb) (row_base_blocks n m rs cs rb).
Definition col_var (dn : bool) (n m : nat) (rs cs : list subtotal) (k : mat) (r c' : bool) (cb : mat) :=
  variance_blocks k n m rs cs (col_proportions n m rs cs k dn r c' cb) (col_base_blocks n m rs cs cb).
Definition tab_var (dn : bool) (n m : nat) (rs cs : list subtotal) (k : mat) (tb : mat) :=
  variance_blocks k n m rs cs (table_proportions n m rs cs k dn tb) (table_base_blocks n m rs cs tb).
  (* squared standard error = variance / base, block by block *)
Definition row_se (dn : bool) (n m : nat) (rs cs : list subtotal) (k : mat) (r c' : bool) (rb : mat) :=
  div_blocks n m rs cs (row_var dn n m rs cs k r c' rb) (row_base_blocks n m rs cs rb).
Definition col_se (dn : bool) (n m : nat) (rs cs : list subtotal) (k : mat) (r c' : bool) (cb : mat) :=
  div_blocks n m rs cs (col_var dn n m rs cs k r c' cb) (col_base_blocks n m rs cs cb).
Definition tab_se (dn : bool) (n m : nat) (rs cs : list subtotal) (k : mat) (tb : mat) :=
  div_blocks n m rs cs (tab_var dn n m rs cs k tb) (table_base_blocks n m rs cs tb).


(* ---- dimension groups of a 2-D response: a plain dimension, or MR items + selection axis ---- *)
Inductive dgroup : list dimd -> Prop :=
| dg_plain d : is_mr d = false -> is_mrcat d = false -> is_numarr d = false -> dgroup [d]
| dg_mr d s : dk d = DMrSubvar -> dk s = DMrCat -> dgroup [d; s].

(* the displayed dimension of a group, its class, the length of its valid selection axis *)
Definition g_dim (g : list dimd) : dimd := hd (mkDim DCat []) g.
Definition g_sel (g : list dimd) : nat := match g with [_; s] => nvalid s | _ => 0 end.

