(* Model/TypedefOrder.v -- the "order" list of a TYPE DEFINITION (type.order of a categorical or
   enum dimension), as dimension.py::Elements.from_typedef honours it:

       element_defs = typedef["categories"] | typedef["elements"]        (catalogue order)
       order = typedef.get("order")
       if order is not None:
           codemap = {edef["id"]: edef for edef in element_defs}
           element_defs = [codemap[code] for code in order if code in codemap]
       ... for idx, element_dict in enumerate(element_defs): Element(element_dict, idx, ...)

   The data of the response runs along the axis in the order of the (known) codes of [order]: the
   catalogue is re-arranged BEFORE the Element objects are numbered, so [Element.index] is the
   PAYLOAD position (what Cube._valid_idxs needs), not the catalogue position.  Codes the
   catalogue does not know are skipped (they have no payload slot); categories the list does not
   mention are not elements of the dimension at all.  Without "order" the catalogue order is the
   payload order.  Executable; definitions only (proofs: Proofs/TypedefOrderProofs.v). *)
From Coq Require Import ZArith List Bool Arith.
From CC Require Import Base.ListX Base.Render Spec.Survey Model.CubeCounts.
Import ListNotations.
Local Open Scope nat_scope.

(* one category / enum element of the type definition *)
Record edef := mkEdef { ed_id : Z; ed_missing : bool }.

(* the dict comprehension: a LATER definition of the same id replaces an earlier one *)
Fixpoint codemap_get (defs : list edef) (code : Z) : option edef :=
  match defs with
  | [] => None
  | e :: t =>
      match codemap_get t code with
      | Some x => Some x
      | None => if Z.eqb (ed_id e) code then Some e else None
      end
  end.

Definition known_codes (defs : list edef) (o : list Z) : list Z :=
  filter (fun c => match codemap_get defs c with Some _ => true | None => false end) o.

(* element_defs after the re-arrangement: PAYLOAD order *)
Definition ordered_defs (defs : list edef) (order : option (list Z)) : list edef :=
  match order with
  | None => defs
  | Some o => flat_map (fun c => match codemap_get defs c with Some e => [e] | None => [] end) o
  end.

(* Element objects: the definition and the index enumerate() gives it *)
Record element := mkElement { el_def : edef; el_index : nat }.
Definition number_elements (l : list edef) : list element :=
  map (fun pe => mkElement (snd pe) (fst pe)) (combine (seq 0 (length l)) l).
Definition elements_of (defs : list edef) (order : option (list Z)) : list element :=
  number_elements (ordered_defs defs order).

Definition el_valid (e : element) : bool := negb (ed_missing (el_def e)).
(* Dimension.valid_elements, .element_idxs (-> Cube._valid_idxs), .element_ids *)
Definition valid_elements (defs : list edef) (order : option (list Z)) : list element :=
  filter el_valid (elements_of defs order).
Definition element_idxs (defs : list edef) (order : option (list Z)) : list nat :=
  map el_index (valid_elements defs order).
Definition element_ids (defs : list edef) (order : option (list Z)) : list Z :=
  map (fun e => ed_id (el_def e)) (valid_elements defs order).

(* the dimension Model/CubeCounts.v works with: missing flag per PAYLOAD position *)
Definition dim_of_typedef (k : dkind) (defs : list edef) (order : option (list Z)) : dimd :=
  mkDim k (map ed_missing (ordered_defs defs order)).

(* token stream for the correspondence (harness/props/c01.py): missing flags in payload order,
   ids of the valid elements in display (= payload) order, their payload offsets *)
Definition r_typedef (defs : list edef) (order : option (list Z)) : list Z :=
  (r_list r_bool (dmiss (dim_of_typedef DCat defs order))
   ++ r_Zs (element_ids defs order) ++ r_nats (element_idxs defs order))%list.
