(* Model/Partition.v -- executable model of how a cube response is cut into partitions:

     src/cr/cube/cube.py       Cube._ca_as_0th, Cube._slice_idxs, Cube.partitions,
                               Cube.inflate, Cube.augment_response,
                               CubeSet._is_multi_cube, ._is_numeric_measure, ._cubes,
                               .partition_sets
     src/cr/cube/cubepart.py   CubePartition.factory, _Slice/_Strand/_Nub.table_name, tab_label
     src/cr/cube/matrix/cubemeasure.py   _BaseCubeMeasure._slice_idx_expr  (= CubeCounts.slice_at)
     src/cr/cube/stripe/cubemeasure.py   _BaseCubeCounts.factory, ca_as_0th branch

   Definitions only (proofs: Proofs/Partition*.v).  The per-partition count extractors are the
   ones of Model/CubeCounts.v (slice_counts / strand_counts), which C01/C02 own; this file
   adds WHICH partitions exist, WHICH part of the payload each one sees, and what the
   multi-cube machinery does to the responses before they are cut. *)
From Coq Require Import QArith ZArith List Bool Lia Arith.
From CC Require Import Base.XQ Base.ListX Spec.Survey Model.CubeCounts.
Import ListNotations.
Local Close Scope Q_scope.
Local Open Scope nat_scope.

(* ------------------------------------------------------------------------------------ *)
(** * cube.py: dimensionality, CA-as-0th, slice indices *)

Definition is_ca_subvar (d : dimd) : bool := match dk d with DCaSubvar => true | _ => false end.

(* Cube.ndim: number of apparent dimensions (the MR selection axis is hidden) *)
Definition cube_ndim (ds : list dimd) : nat := length (apparent ds).
(* Cube.dimensions[0] *)
Definition dim0 (ds : list dimd) : option dimd :=
  match apparent ds with d :: _ => Some d | [] => None end.

(* Cube._ca_as_0th:  (cube_idx == 0 or is_single_filter_col_cube)
                     and len(dimension_types) > 0 and dimension_types[0] == DT.CA *)
Definition ca_as_0th (cube_idx : option nat) (single_col : bool) (ds : list dimd) : bool :=
  ((match cube_idx with Some 0 => true | _ => false end) || single_col)
  && match dim0 ds with Some d => is_ca_subvar d | None => false end.

(* Cube._slice_idxs: range(1) if ndim < 3 and not ca_as_0th
                     else range(len(dimensions[0].valid_elements)) *)
Definition slice_idxs (ds : list dimd) (ca0 : bool) : list nat := seq 0 (n_partitions ds ca0).

(* the payload position of the dimension-0 element partition k stands for:
   dimensions[0].valid_elements[k] *)
Definition table_element (ds : list dimd) (k : nat) : nat :=
  match dim0 ds with Some d => nth k (dvalid d) 0 | None => 0 end.

(* ------------------------------------------------------------------------------------ *)
(** * cubepart.py: CubePartition.factory *)

Inductive pkind := PNub | PStrand | PSlice.

Definition factory (ndim : nat) (ca0 : bool) : pkind :=
  if ndim =? 0 then PNub
  else if (ndim =? 1) || ca0 then PStrand
  else PSlice.

Record partition := mkPart { pt_kind : pkind; pt_idx : nat }.

(* Cube.partitions *)
Definition partitions (ds : list dimd) (ca0 : bool) : list partition :=
  map (fun k => mkPart (factory (cube_ndim ds) ca0) k) (slice_idxs ds ca0).

(* ------------------------------------------------------------------------------------ *)
(** * which part of a (valid) tensor partition k sees *)

Definition table_is_mr (ds : list dimd) : bool :=
  match dim0 ds with Some d => is_mr d | None => false end.

(* matrix/cubemeasure.py _slice_idx_expr: np.s_[:] | np.s_[k, 0] (MR table: selected plane)
   | np.s_[k] *)
Definition slice_idx_expr (ds : list dimd) (k : nat) (T : tensor) : tensor :=
  slice_at (cube_ndim ds) (table_is_mr ds) k T.

(* stripe/cubemeasure.py _BaseCubeCounts.factory: counts[slice_idx] when ca_as_0th *)
Definition strand_idx_expr (ca0 : bool) (k : nat) (T : tensor) : tensor :=
  if ca0 then (fun idx => T (k :: idx)) else T.

(* ------------------------------------------------------------------------------------ *)
(** * names: _Slice.table_name / _Strand.table_name / tab_label

   The name of a partition is "<cube name>: <label of dimensions[0].valid_elements[k]>"; the
   model returns the payload position of that element (None = the property is None / ""). *)

Definition name_element (ds : list dimd) (kd : pkind) (k : nat) : option nat :=
  match kd, dim0 ds with
  | PSlice, Some d =>
      if cube_ndim ds <? 3 then None
      else if nvalid d =? 0 then None else Some (nth k (dvalid d) 0)
  | PStrand, Some d => if nvalid d =? 0 then None else Some (nth k (dvalid d) 0)
  | _, _ => None
  end.

(* tab_label: only when dimension 0 is a CA sub-variables dimension *)
Definition tab_element (ds : list dimd) (kd : pkind) (k : nat) : option nat :=
  match kd, dim0 ds with
  | PNub, _ => None
  | _, Some d => if is_ca_subvar d then Some (nth k (dvalid d) 0) else None
  | _, None => None
  end.

(* ------------------------------------------------------------------------------------ *)
(** * one partition of a cube: kind, names, counts and bases (weighted / unweighted) *)

Record part_out := mkPartOut {
  po_kind : pkind;
  po_name : option nat;
  po_tab : option nat;
  po_slice_w : option slice_out;  po_slice_u : option slice_out;
  po_strand_w : option strand_out; po_strand_u : option strand_out;
  po_nub : option xq }.                       (* _Nub.unweighted_count *)

Definition part_out_of (ds : list dimd) (p : payload) (ca0 : bool) (k : nat) : part_out :=
  let kd := factory (cube_ndim ds) ca0 in
  let w := weighted_counts_payload p in
  let u := unweighted_counts_payload p in
  match kd with
  | PSlice => mkPartOut kd (name_element ds kd k) (tab_element ds kd k)
                        (slice_counts ds w k) (slice_counts ds u k) None None None
  | PStrand => mkPartOut kd (name_element ds kd k) (tab_element ds kd k) None None
                         (strand_counts ds w ca0 k) (strand_counts ds u ca0 k) None
  | PNub => mkPartOut kd None None None None None None (Some (nth 0 u NaN))
  end.

Definition cube_parts (ds : list dimd) (p : payload) (ca0 : bool) : list part_out :=
  map (part_out_of ds p ca0) (slice_idxs ds ca0).

(* ------------------------------------------------------------------------------------ *)
(** * cube.py: Cube.inflate -- prefix a one-category rows dimension; the payload is untouched.

   The code inserts the new dimension dict into the list [num_array_dim] + dims when the
   response describes a numeric array (a fresh list: the response itself is NOT changed), and
   into the response's own dimension list otherwise.  So a numeric-array response is left as
   it is. *)

Definition row1 : dimd := mkDim DCat [false].

Definition inflate_dims (ds : list dimd) : list dimd :=
  if existsb is_numarr ds then ds else row1 :: ds.
Definition inflate_data (data : list xq) : list xq := data.

(* ------------------------------------------------------------------------------------ *)
(** * cube.py: Cube.augment_response

   elements  = summary.dimensions[0].elements
   values    = [el.value for el in own.dimensions[0].elements if el.value is int or str]
   positions = [el.id for el in elements if el.value in values]
   data      = [0] * len(summary.counts);  for pos, v in zip(positions, own.counts): data[pos] = v
   (only when len(own.counts) != len(summary.counts); dimension 0 becomes the summary's) *)

(* an element of an enum dimension: id, missing flag, value (Some code for an int / str value,
   None for anything else, e.g. the {"?": -1} of the missing element) *)
Record elem := mkElem { e_id : Z; e_missing : bool; e_key : option nat }.

(* Python list indexing with a possibly negative index *)
Definition py_index (n : nat) (z : Z) : option nat :=
  if (0 <=? z)%Z then (if (z <? Z.of_nat n)%Z then Some (Z.to_nat z) else None)
  else if (- Z.of_nat n <=? z)%Z then Some (Z.to_nat (Z.of_nat n + z)) else None.

Fixpoint set_nth {A} (i : nat) (x : A) (l : list A) : list A :=
  match l, i with
  | [], _ => []
  | _ :: t, O => x :: t
  | a :: t, S i' => a :: set_nth i' x t
  end.

(* for pos, v in zip(positions, counts): data[pos] = v      (None = IndexError) *)
Fixpoint place (ps : list Z) (cs : list xq) (data : list xq) : option (list xq) :=
  match ps, cs with
  | p :: ps', c :: cs' =>
      match py_index (length data) p with
      | Some i => place ps' cs' (set_nth i c data)
      | None => None
      end
  | _, _ => Some data
  end.

Definition keys_of (els : list elem) : list nat :=
  flat_map (fun e => match e_key e with Some k => [k] | None => [] end) els.

Definition key_in (ks : list nat) (e : elem) : bool :=
  match e_key e with Some k => existsb (Nat.eqb k) ks | None => false end.

Definition augment_positions (summary own : list elem) : list Z :=
  map e_id (filter (key_in (keys_of own)) summary).

(* the new counts; [n] = len(summary counts) *)
Definition augment_counts (summary own : list elem) (n : nat) (counts : list xq)
  : option (list xq) :=
  place (augment_positions summary own) counts (repeat (Fin 0) n).

(* ------------------------------------------------------------------------------------ *)
(** * cube.py: CubeSet *)

(* a cube response as far as the multi-cube machinery looks at it: ALL dimensions (a numeric
   array dimension first), the elements of response dimension 0 when it is an enum
   dimension, the is_single_col_cube flag, the payload *)
Record cube_desc := mkCube {
  cd_dims : list dimd;
  cd_elems0 : list elem;
  cd_single_col : bool;
  cd_payload : payload }.

Definition is_multi_cube (n : nat) : bool := 1 <? n.
(* the cube_idx argument each Cube is built with *)
Definition cube_idx_arg (n idx : nat) : option nat :=
  if is_multi_cube n then Some idx else None.
(* CubeSet._is_numeric_measure: multi-cube and the FIRST response is 0-D *)
Definition is_numeric_measure (n : nat) (ds0 : list dimd) : bool :=
  is_multi_cube n && (cube_ndim ds0 =? 0).
(* which cubes go through augment_response *)
Definition augments (n idx : nat) (single_col : bool) : bool :=
  is_multi_cube n && single_col && (0 <? idx).

Definition set_dim0_missing (ds : list dimd) (ms : list bool) : list dimd :=
  match ds with d :: t => mkDim (dk d) ms :: t | [] => [] end.

(* augment_response of cube c against the summary cube (None = the code raises) *)
Definition augment_cube (summary c : cube_desc) : option cube_desc :=
  let own := p_counts (cd_payload c) in
  let n := length (p_counts (cd_payload summary)) in
  if length own =? n then Some c
  else
    match augment_counts (cd_elems0 summary) (cd_elems0 c) n own with
    | None => None
    | Some data =>
        (* the count measure (the weighted counts) is positioned from its OWN data - since the
           repair of finding C06-augment-overwrites-weighted-count it is no longer overwritten
           with the positioned unweighted counts *)
        let count_data :=
          match p_count (cd_payload c) with
          | Some cnt => augment_counts (cd_elems0 summary) (cd_elems0 c) n cnt
          | None => Some data
          end in
        match count_data with
        | None => None
        | Some cdata =>
            Some (mkCube (set_dim0_missing (cd_dims c) (map e_missing (cd_elems0 summary)))
                         (cd_elems0 summary) (cd_single_col c)
                         (mkPayload data (Some cdata) (p_vcu (cd_payload c)) (p_vcw (cd_payload c))))
        end
    end.

Definition inflate_cube (c : cube_desc) : cube_desc :=
  mkCube (inflate_dims (cd_dims c)) (cd_elems0 c) (cd_single_col c) (cd_payload c).

(* CubeSet._cubes: the cube each response becomes, with its ca_as_0th flag *)
Definition cubeset_cube (cs : list cube_desc) (idx : nat) (c : cube_desc)
  : option (cube_desc * bool) :=
  let n := length cs in
  let c0 := nth 0 cs c in
  let aug := if augments n idx (cd_single_col c) then augment_cube c0 c else Some c in
  match aug with
  | None => None
  | Some c1 =>
      let c2 := if is_numeric_measure n (cd_dims c0) then inflate_cube c1 else c1 in
      Some (c2, ca_as_0th (cube_idx_arg n idx) (cd_single_col c2) (cd_dims c2))
  end.

Fixpoint mapi_from {A B} (i : nat) (f : nat -> A -> B) (l : list A) : list B :=
  match l with [] => [] | a :: t => f i a :: mapi_from (S i) f t end.

Fixpoint sequence_opt {A} (l : list (option A)) : option (list A) :=
  match l with
  | [] => Some []
  | None :: _ => None
  | Some a :: t => match sequence_opt t with Some r => Some (a :: r) | None => None end
  end.

Definition cubeset_cubes (cs : list cube_desc) : option (list (cube_desc * bool)) :=
  sequence_opt (mapi_from 0 (cubeset_cube cs) cs).

(* tuple(zip( *lists )): k-th items of all lists, as long as every list has a k-th item *)
Definition min_len {A} (ls : list (list A)) : nat :=
  match ls with [] => 0 | l :: t => fold_left Nat.min (map (@length A) t) (length l) end.
Definition zipn {A} (ls : list (list A)) : list (list A) :=
  tab (min_len ls)
      (fun k => flat_map (fun l => match nth_error l k with Some x => [x] | None => [] end) ls).

(* CubeSet.partition_sets *)
Definition partition_sets (cs : list cube_desc) : option (list (list part_out)) :=
  match cubeset_cubes cs with
  | None => None
  | Some cubes =>
      Some (zipn (map (fun cb => cube_parts (cd_dims (fst cb)) (cd_payload (fst cb)) (snd cb)) cubes))
  end.
