(* Base/Tensor.v -- the meaning of the numpy one-liners of
     src/cr/cube/matrix/cubemeasure.py, src/cr/cube/stripe/cubemeasure.py
   as far as the source translator (harness/translate/translate.py) reads them.

   [texp] is the deep-embedded sub-language the translator emits into Gen/*.v (one term per
   (class, method), inheritance flattened, local names and [self.<property>] inlined);
   [teval] is its meaning: numpy BASIC INDEXING (ints, slices a:b with 0 <= a, None), sums
   over axes ([np.sum(x, axis=k | (k1, k2, ..))], [np.sum(x)]), RIGHT-ALIGNED BROADCASTING
   ([np.broadcast_to(x, y.shape)], [a / b]), [np.repeat(scalar, y.shape[k])],
   [x[np.ix_(valid row offsets)]] and [x == 0].

   A tensor value is a shape and a function from an index (list nat) to [xq] -- the same
   representation Model/CubeCounts.v uses ([tensor := list nat -> xq]) plus the shape.

   TRUSTED: this file IS the reading of numpy that the GenAgree tie relies on (DESIGN 2.8).
   Not modelled: exceptions for an out-of-range integer index (the value read is whatever the
   payload function returns there; every GenAgree lemma is stated for in-range cells only),
   negative indices / steps (the translator refuses them), dtype, views vs copies. *)
From Coq Require Import QArith ZArith List Bool Lia Arith String.
From CC Require Import Base.XQ Base.ListX.
Import ListNotations.
Local Close Scope Q_scope.
Local Close Scope string_scope.
Local Open Scope nat_scope.

(* ------------------------------------------------------------------------------------ *)
(** * syntax *)

Inductive ix := All | At (k : nat) | Range (a b : nat) | NewAxis.

Inductive texp :=
| Self (name : string)                   (* self.<attribute set by __init__> *)
| NoneVal                                (* return None *)
| Raise                                  (* raise NotImplementedError(...) *)
| Index (e : texp) (ixs : list ix)       (* e[ix, ix, ...] *)
| TakeValid (e : texp) (d : nat)         (* e[np.ix_(self._dimensions[-d].valid_elements.element_idxs)] *)
| SumAxes (e : texp) (axes : list nat)   (* np.sum(e, axis=k) / axis=(k1, k2, ...) *)
| SumAll (e : texp)                      (* np.sum(e) *)
| BroadcastLike (e like : texp)          (* np.broadcast_to(e, like.shape) *)
| RepeatLike (e like : texp) (axis : nat)  (* np.repeat(e, like.shape[axis]), e a scalar *)
| TileRows (e like : texp)               (* np.tile(e, (like.shape[0], 1, 1)) *)
| Div (a b : texp)                       (* a / b *)
| EqZero (e : texp).                     (* e == 0   (1 = True, 0 = False) *)

(* ------------------------------------------------------------------------------------ *)
(** * values *)

Inductive tres :=
| TErr                                            (* raises *)
| TNone                                           (* None *)
| TVal (shp : list nat) (f : list nat -> xq).     (* ndarray (shape [] = 0-d / scalar) *)

Record tenv := mkEnv {
  e_self : string -> tres;        (* attributes *)
  e_valid : nat -> list nat }.    (* d |-> self._dimensions[-d].valid_elements.element_idxs *)

Definition xsumN (n : nat) (f : nat -> xq) : xq := xsum (tab n f).

(* computations on literals (axes, ranks): private copies, so that the proofs can keep
   [Nat.eqb]/[length] on SYMBOLIC dimensions folded *)
Fixpoint eqn (a b : nat) : bool :=
  match a, b with
  | 0, 0 => true
  | S a', S b' => eqn a' b'
  | _, _ => false
  end.
Fixpoint ltn (a b : nat) : bool :=
  match a, b with
  | _, 0 => false
  | 0, S _ => true
  | S a', S b' => ltn a' b'
  end.
Fixpoint len {A} (l : list A) : nat := match l with [] => 0 | _ :: t => S (len t) end.
Fixpoint mem (k : nat) (l : list nat) : bool :=
  match l with [] => false | a :: t => if eqn k a then true else mem k t end.
Fixpoint dim_at (k : nat) (shp : list nat) : nat :=
  match shp, k with
  | [], _ => 0
  | n :: _, 0 => n
  | _ :: t, S k' => dim_at k' t
  end.
Fixpoint drop {A} (k : nat) (l : list A) : list A :=
  match k, l with
  | 0, _ => l
  | S k', _ :: t => drop k' t
  | S _, [] => []
  end.
Fixpoint subn (a b : nat) : nat :=
  match a, b with
  | S a', S b' => subn a' b'
  | _, _ => a
  end.
Definition hd0 (l : list nat) : nat := match l with i :: _ => i | [] => 0 end.
Definition tl0 (l : list nat) : list nat := match l with _ :: t => t | [] => [] end.

(* ------------------------------------------------------------------------------------ *)
(** * basic indexing *)

(* length of the slice a:b of an axis of length n (numpy clips b to n) *)
Definition range_len (a b n : nat) : nat :=
  match a with 0 => Nat.min b n | _ => Nat.min b n - a end.

(* the shape of e[ixs]; too many indices raise (None) *)
Fixpoint ix_shape (ixs : list ix) (shp : list nat) : option (list nat) :=
  match ixs with
  | [] => Some shp
  | NewAxis :: r => option_map (cons 1) (ix_shape r shp)
  | All :: r =>
      match shp with [] => None | n :: sh => option_map (cons n) (ix_shape r sh) end
  | At _ :: r =>
      match shp with [] => None | _ :: sh => ix_shape r sh end
  | Range a b :: r =>
      match shp with [] => None | n :: sh => option_map (cons (range_len a b n)) (ix_shape r sh) end
  end.

(* the source index read by output index [out] *)
Fixpoint ix_map (ixs : list ix) (out : list nat) : list nat :=
  match ixs with
  | [] => out
  | NewAxis :: r => ix_map r (tl0 out)
  | At k :: r => k :: ix_map r out
  | All :: r => hd0 out :: ix_map r (tl0 out)
  | Range a _ :: r => (a + hd0 out) :: ix_map r (tl0 out)
  end.

(* ------------------------------------------------------------------------------------ *)
(** * sums *)

Fixpoint insert_at (k s : nat) (idx : list nat) : list nat :=
  match k with
  | 0 => s :: idx
  | S k' => match idx with [] => [s] | i :: r => i :: insert_at k' s r end
  end.
Fixpoint remove_at (k : nat) (shp : list nat) : list nat :=
  match shp, k with
  | [], _ => []
  | _ :: t, 0 => t
  | n :: t, S k' => n :: remove_at k' t
  end.

Definition tv := (list nat * (list nat -> xq))%type.

Definition sum_axis (k : nat) (t : tv) : tv :=
  let (shp, f) := t in
  (remove_at k shp, fun idx => xsumN (dim_at k shp) (fun s => f (insert_at k s idx))).

(* sum over every axis < k that is a member of [axes], the highest axis first (so that the
   outermost sum of the result runs over the LOWEST summed axis) *)
Fixpoint sum_axes_below (k : nat) (axes : list nat) (t : tv) : tv :=
  match k with
  | 0 => t
  | S k' => sum_axes_below k' axes (if mem k' axes then sum_axis k' t else t)
  end.

Fixpoint all_ltn (axes : list nat) (n : nat) : bool :=
  match axes with [] => true | a :: r => ltn a n && all_ltn r n end.
Fixpoint seqn (k : nat) : list nat := match k with 0 => [] | S k' => seqn k' ++ [k'] end.

(* ------------------------------------------------------------------------------------ *)
(** * broadcasting (right-aligned; an axis of length 1 is stretched) *)

Definition bidx (d i : nat) : nat := if d =? 1 then 0 else i.       (* index into an axis of length d *)
Definition bdim (da db : nat) : nat := if da =? 1 then db else da.  (* length of the joint axis *)
Definition bok (da db : nat) : bool := (da =? db) || (da =? 1) || (db =? 1).

Fixpoint bmap (shp : list nat) (idx : list nat) : list nat :=       (* same rank *)
  match shp, idx with
  | d :: sh, i :: r => bidx d i :: bmap sh r
  | _, _ => []
  end.
(* index into a tensor of shape [shp] from an index of a (not shorter) broadcast shape *)
Definition bread (shp : list nat) (idx : list nat) : list nat :=
  bmap shp (drop (subn (len idx) (len shp)) idx).

(* can [src] be broadcast to exactly [tgt]? *)
Fixpoint bto_ok_aligned (src tgt : list nat) : bool :=
  match src, tgt with
  | [], [] => true
  | d :: s, t :: r => ((d =? t) || (d =? 1)) && bto_ok_aligned s r
  | _, _ => false
  end.
Definition bto_ok (src tgt : list nat) : bool :=
  if ltn (len tgt) (len src) then false
  else bto_ok_aligned src (drop (subn (len tgt) (len src)) tgt).

(* joint shape of two operands *)
Fixpoint bshape_aligned (a b : list nat) : list nat :=
  match a, b with
  | da :: ra, db :: rb => bdim da db :: bshape_aligned ra rb
  | _, _ => []
  end.
Fixpoint bok_aligned (a b : list nat) : bool :=
  match a, b with
  | da :: ra, db :: rb => bok da db && bok_aligned ra rb
  | _, _ => true
  end.
Fixpoint take {A} (k : nat) (l : list A) : list A :=
  match k, l with
  | S k', a :: t => a :: take k' t
  | _, _ => []
  end.
Definition bshape (a b : list nat) : list nat :=
  if ltn (len a) (len b)
  then take (subn (len b) (len a)) b ++ bshape_aligned a (drop (subn (len b) (len a)) b)
  else take (subn (len a) (len b)) a ++ bshape_aligned (drop (subn (len a) (len b)) a) b.
Definition bshape_ok (a b : list nat) : bool :=
  if ltn (len a) (len b)
  then bok_aligned a (drop (subn (len b) (len a)) b)
  else bok_aligned (drop (subn (len a) (len b)) a) b.

(* ------------------------------------------------------------------------------------ *)
(** * evaluation *)

Definition is_zero (x : xq) : xq := if xeqb x (Fin 0) then Fin 1 else Fin 0.

Fixpoint teval (E : tenv) (e : texp) : tres :=
  match e with
  | Self name => e_self E name
  | NoneVal => TNone
  | Raise => TErr
  | Index e ixs =>
      match teval E e with
      | TVal shp f =>
          match ix_shape ixs shp with
          | Some shp' => TVal shp' (fun out => f (ix_map ixs out))
          | None => TErr
          end
      | _ => TErr
      end
  | TakeValid e d =>
      (* np.ix_ of ONE sequence is a 1-tuple: advanced indexing of axis 0 *)
      match teval E e with
      | TVal (_ :: sh) f =>
          TVal (List.length (e_valid E d) :: sh)
               (fun out => f (nth (hd0 out) (e_valid E d) 0 :: tl0 out))
      | _ => TErr
      end
  | SumAxes e axes =>
      match teval E e with
      | TVal shp f =>
          if all_ltn axes (len shp)
          then let (shp', f') := sum_axes_below (len shp) axes (shp, f) in TVal shp' f'
          else TErr
      | _ => TErr
      end
  | SumAll e =>
      match teval E e with
      | TVal shp f =>
          let (shp', f') := sum_axes_below (len shp) (seqn (len shp)) (shp, f) in TVal shp' f'
      | _ => TErr
      end
  | BroadcastLike e like =>
      match teval E e, teval E like with
      | TVal shp f, TVal tgt _ =>
          if bto_ok shp tgt then TVal tgt (fun out => f (bread shp out)) else TErr
      | _, _ => TErr
      end
  | RepeatLike e like axis =>
      match teval E e, teval E like with
      | TVal [] f, TVal tgt _ =>
          if ltn axis (len tgt) then TVal [dim_at axis tgt] (fun _ => f []) else TErr
      | _, _ => TErr
      end
  | TileRows e like =>
      (* np.tile(v, (n, 1, 1)) of a 1-D v: shape (n, 1, len v) *)
      match teval E e, teval E like with
      | TVal [m] f, TVal (n :: _) _ => TVal [n; 1; m] (fun out => f (drop 2 out))
      | _, _ => TErr
      end
  | Div a b =>
      match teval E a, teval E b with
      | TVal sa fa, TVal sb fb =>
          if bshape_ok sa sb
          then TVal (bshape sa sb) (fun out => xdiv (fa (bread sa out)) (fb (bread sb out)))
          else TErr
      | _, _ => TErr
      end
  | EqZero e =>
      match teval E e with
      | TVal shp f => TVal shp (fun out => is_zero (f out))
      | _ => TErr
      end
  end.

(* ------------------------------------------------------------------------------------ *)
(** * the shape of a statement "the source's term denotes <canonical definition>" *)

Definition agrees0 (r : tres) (g : xq) : Prop :=
  match r with TVal shp f => shp = [] /\ f [] =x= g | _ => False end.
Definition agrees1 (r : tres) (n : nat) (g : nat -> xq) : Prop :=
  match r with
  | TVal shp f => shp = [n] /\ forall i, i < n -> f [i] =x= g i
  | _ => False
  end.
Definition agrees2 (r : tres) (nr nc : nat) (g : nat -> nat -> xq) : Prop :=
  match r with
  | TVal shp f => shp = [nr; nc] /\ forall i j, i < nr -> j < nc -> f [i; j] =x= g i j
  | _ => False
  end.
Definition agrees3 (r : tres) (n0 n1 n2 : nat) (g : nat -> nat -> nat -> xq) : Prop :=
  match r with
  | TVal shp f => shp = [n0; n1; n2] /\
                  forall i j k, i < n0 -> j < n1 -> k < n2 -> f [i; j; k] =x= g i j k
  | _ => False
  end.
Definition agrees_none (r : tres) : Prop := r = TNone.
Definition agrees_raise (r : tres) : Prop := r = TErr.

(* ------------------------------------------------------------------------------------ *)
(** * _slice_idx_expr and the factory dispatch, as read from the source *)

(* np.s_[...] with the symbolic [slice_idx] *)
Inductive six := SAll | SSliceIdx | SAt (k : nat).
Inductive scond := NdimLt (n : nat) | Dim0IsMR.
(* if c1: return s1; if c2: return s2; ...; return s_default *)
Definition slice_rule := (list (scond * list six) * list six)%type.

Definition six_ix (k : nat) (s : six) : ix :=
  match s with SAll => All | SSliceIdx => At k | SAt c => At c end.
Definition scond_holds (ndim : nat) (dim0_mr : bool) (c : scond) : bool :=
  match c with NdimLt n => ndim <? n | Dim0IsMR => dim0_mr end.
Fixpoint slice_rule_pick (ndim : nat) (dim0_mr : bool) (rs : list (scond * list six))
         (dflt : list six) : list six :=
  match rs with
  | [] => dflt
  | (c, s) :: r => if scond_holds ndim dim0_mr c then s else slice_rule_pick ndim dim0_mr r dflt
  end.
(* counts[cls._slice_idx_expr(cube, slice_idx)] on the index function (shape-free: an [All]
   or a missing trailing index keeps the axis) *)
Definition slice_rule_apply (R : slice_rule) (ndim : nat) (dim0_mr : bool) (k : nat)
           (T : list nat -> xq) : list nat -> xq :=
  fun idx => T (ix_map (map (six_ix k) (slice_rule_pick ndim dim0_mr (fst R) (snd R))) idx).

Fixpoint assoc {A} (k : string) (l : list (string * A)) : option A :=
  match l with
  | [] => None
  | (k', a) :: r => if String.eqb k k' then Some a else assoc k r
  end.

(* what a factory passes to the constructor for an attribute *)
Inductive fsrc :=
| FParam (name : string)      (* a parameter of the factory *)
| FCube (attr : string)       (* cube.<attr> *)
| FSliced (x : fsrc).         (* x[cls._slice_idx_expr(cube, slice_idx)] *)

(* "MR" if t == DT.MR else "ARR" if t in DT.ARRAY_TYPES else "CAT" *)
Inductive tcond := TIs (member : string) | TIn (subset : string).
Definition typestr_rule := (list (tcond * string) * string)%type.

Definition tcond_holds (members : list (string * string)) (subsets : list (string * list string))
           (name : string) (c : tcond) : bool :=
  match c with
  | TIs m => match assoc m members with Some n => String.eqb name n | None => false end
  | TIn s => match assoc s subsets with Some l => existsb (String.eqb name) l | None => false end
  end.
(* the type string of a dimension whose _DimensionType name is [name] *)
Fixpoint typestr_pick members subsets (name : string) (rs : list (tcond * string)) (dflt : string)
  : string :=
  match rs with
  | [] => dflt
  | (c, s) :: r => if tcond_holds members subsets name c then s
                   else typestr_pick members subsets name r dflt
  end.

(* stripe factory: if ca_as_0th: ...; if rows_dimension.dimension_type == DT.x: ...; ...
   each alternative names a class and says whether counts is cut with [slice_idx] *)
Inductive stcond := StCaAs0th | StDimIs (member : string).
Definition stripe_dispatch := (list (stcond * (string * bool)) * (string * bool))%type.

(* dispatch tables: keys are the type strings / conditions of the factories *)
Inductive dcond := BothMR | RowsMR | ColsMR.        (* dimension_types == (MR, MR) / [0] == MR / [1] == MR *)
Definition cond_dispatch := (list (dcond * string) * string)%type.
Definition dict_dispatch := (list ((string * string) * string) * string)%type.

Definition dcond_holds (rmr cmr : bool) (c : dcond) : bool :=
  match c with BothMR => rmr && cmr | RowsMR => rmr | ColsMR => cmr end.
Fixpoint cond_pick (rmr cmr : bool) (rs : list (dcond * string)) (dflt : string) : string :=
  match rs with
  | [] => dflt
  | (c, s) :: r => if dcond_holds rmr cmr c then s else cond_pick rmr cmr r dflt
  end.
Fixpoint dict_pick (k : string * string) (rs : list ((string * string) * string)) (dflt : string)
  : string :=
  match rs with
  | [] => dflt
  | (k', s) :: r =>
      if (String.eqb (fst k) (fst k') && String.eqb (snd k) (snd k'))%bool then s
      else dict_pick k r dflt
  end.
(* ------------------------------------------------------------------------------------ *)
(** * facts used by Proofs/GenAgree.v *)

Lemma bidx_lt d i : i < d -> bidx d i = i.
Proof.
  intros H. unfold bidx. destruct (Nat.eqb_spec d 1) as [E|E]; [lia|reflexivity].
Qed.
Lemma bidx_1 i : bidx 1 i = 0.
Proof. reflexivity. Qed.
Lemma bdim_same d : bdim d d = d.
Proof. unfold bdim. destruct (d =? 1); reflexivity. Qed.
Lemma bdim_1_l d : bdim 1 d = d.
Proof. reflexivity. Qed.
Lemma bdim_1_r d : bdim d 1 = d.
Proof. unfold bdim. destruct (Nat.eqb_spec d 1); congruence. Qed.
Lemma bok_same d : bok d d = true.
Proof. unfold bok. rewrite Nat.eqb_refl. reflexivity. Qed.
Lemma bok_1_r d : bok d 1 = true.
Proof. unfold bok. simpl. rewrite !orb_true_r. reflexivity. Qed.
Lemma bok_1_l d : bok 1 d = true.
Proof. unfold bok. simpl. rewrite orb_true_r. reflexivity. Qed.

Lemma xsumN_ext n f g : (forall i, i < n -> f i =x= g i) -> xsumN n f =x= xsumN n g.
Proof.
  unfold xsumN, tab. intros H.
  assert (G : forall l, (forall i, In i l -> i < n) -> xsum (map f l) =x= xsum (map g l)).
  { induction l as [|a l IH]; intros Hl; simpl; [reflexivity|].
    rewrite (H a) by (apply Hl; left; reflexivity).
    rewrite IH by (intros i Hi; apply Hl; right; exact Hi). reflexivity. }
  apply G. intros i Hi. apply in_seq in Hi. lia.
Qed.

Lemma xsumN_S n f : xsumN (S n) f =x= xadd (xsumN n f) (f n).
Proof.
  unfold xsumN, tab. rewrite seq_S, map_app. simpl.
  rewrite xsum_app. simpl. rewrite xadd_0_r. reflexivity.
Qed.

Lemma xsumN_add n f g : xsumN n (fun i => xadd (f i) (g i)) =x= xadd (xsumN n f) (xsumN n g).
Proof.
  induction n as [|n IH].
  - unfold xsumN, tab. simpl. reflexivity.
  - rewrite !xsumN_S, IH.
    rewrite <- !xadd_assoc. apply xadd_Proper; [reflexivity|].
    rewrite !xadd_assoc. apply xadd_Proper; [|reflexivity]. apply xadd_comm.
Qed.

Lemma xsumN_zero n : xsumN n (fun _ => Fin 0) =x= Fin 0.
Proof.
  induction n as [|n IH]; [unfold xsumN, tab; simpl; reflexivity|].
  rewrite xsumN_S, IH. reflexivity.
Qed.

(* exchange of two nested sums *)
Lemma xsumN_swap n m (f : nat -> nat -> xq) :
  xsumN n (fun i => xsumN m (fun j => f i j)) =x= xsumN m (fun j => xsumN n (fun i => f i j)).
Proof.
  induction n as [|n IH].
  - symmetry. exact (xsumN_zero m).
  - etransitivity; [apply xsumN_S|].
    etransitivity; [apply xadd_Proper; [apply IH | reflexivity]|].
    symmetry.
    etransitivity; [apply xsumN_ext; intros j _; apply xsumN_S|].
    exact (xsumN_add m (fun j => xsumN n (fun i => f i j)) (fun j => f n j)).
Qed.

(* a sum over the elements of a list is a sum over its positions *)
Lemma xsum_map_nth (f : nat -> xq) (l : list nat) :
  xsum (map f l) = xsumN (List.length l) (fun i => f (nth i l 0)).
Proof.
  unfold xsumN, tab. f_equal.
  apply nth_ext with (d := f 0) (d' := f 0).
  - rewrite !map_length, seq_length. reflexivity.
  - intros k Hk. rewrite map_length in Hk.
    rewrite (map_nth f l 0 k).
    rewrite (nth_indep _ (f 0) ((fun i => f (nth i l 0)) 0))
      by (rewrite map_length, seq_length; exact Hk).
    rewrite (map_nth (fun i => f (nth i l 0)) (seq 0 (List.length l)) 0 k).
    rewrite seq_nth by exact Hk. reflexivity.
Qed.
