(* PyList: the small fixed library of Python-semantics combinators the SHALLOW translator
   harness/translate/x_collator.py builds its output from (coq/Gen/CollatorSrc.v), with their basic
   lemmas.  Pure part only (exceptions: Model/PyCollator.v).

     tuple / list                 list (tuples of fixed arity are Coq tuples, left nested)
     a + b on sequences           a ++ b
     len(x)                       py_len x : Z            (every Python int is a Z)
     range(n)                     py_range n
     enumerate(x)                 py_enumerate x          list (Z * A)
     zip(a, b)                    py_zip a b              stops at the shorter one
     tuple(f(x) for x in xs if c) map f (filter c xs)
     frozenset(x), `y in s`       py_frozenset x (the list; only membership is ever asked), py_in eqb y s
     sorted(<int triples>)        py_sorted_keys = SortX.ksort: THE sorted permutation for the
                                  lexicographic order on Z*Z*Z (SortX.key_sorted_unique: any sorting
                                  algorithm returns this list)
     dict / OrderedDict           association list in insertion order with distinct keys:
                                  py_dict_set (d[k] = v: an existing key keeps its place and gets the
                                  new value), py_dict_of_pairs (dict(pairs), {k: v for ..}: later pair
                                  wins), py_dict_get / py_dict_mem (`k in d`) / py_dict_pop / py_dict_items /
                                  py_dict_keys (tuple(d))
     dict.fromkeys(xs)            py_dict_fromkeys: keys in first-mention order ([py_dedup])

   Equality on keys is passed explicitly ([Z.eqb], [ident_eqb], ..): the translator is type-directed. *)
From Coq Require Import List ZArith Bool Lia Arith.
From CC Require Import Base.SortX.
Import ListNotations.
Local Open Scope Z_scope.

Definition py_len {A} (l : list A) : Z := Z.of_nat (List.length l).
Definition py_range (n : Z) : list Z := map Z.of_nat (seq 0 (Z.to_nat n)).
Definition py_enumerate {A} (l : list A) : list (Z * A) := combine (py_range (py_len l)) l.
Definition py_zip {A B} (a : list A) (b : list B) : list (A * B) := combine a b.
Definition py_in {A} (eqb : A -> A -> bool) (x : A) (l : list A) : bool := existsb (eqb x) l.
Definition py_frozenset {A} (l : list A) : list A := l.
(* truth value of a sequence: not empty *)
Definition py_truthy {A} (l : list A) : bool := match l with [] => false | _ :: _ => true end.
Definition py_sorted_keys (l : list key) : list key := ksort l.

Section Dict.
  Context {K V : Type} (eqb : K -> K -> bool).

  Fixpoint py_dict_set (d : list (K * V)) (k : K) (v : V) : list (K * V) :=
    match d with
    | [] => [(k, v)]
    | (k', v') :: t => if eqb k' k then (k', v) :: t else (k', v') :: py_dict_set t k v
    end.
  Definition py_dict_of_pairs (l : list (K * V)) : list (K * V) :=
    fold_left (fun d kv => py_dict_set d (fst kv) (snd kv)) l [].
  Fixpoint py_dict_get (d : list (K * V)) (k : K) : option V :=
    match d with
    | [] => None
    | (k', v) :: t => if eqb k' k then Some v else py_dict_get t k
    end.
  Definition py_dict_mem (d : list (K * V)) (k : K) : bool :=
    match py_dict_get d k with Some _ => true | None => false end.
  Fixpoint py_dict_pop (d : list (K * V)) (k : K) : option (V * list (K * V)) :=
    match d with
    | [] => None
    | (k', v) :: t =>
        if eqb k' k then Some (v, t)
        else match py_dict_pop t k with Some (x, t') => Some (x, (k', v) :: t') | None => None end
    end.
  Definition py_dict_items (d : list (K * V)) : list (K * V) := d.
  Definition py_dict_keys (d : list (K * V)) : list K := map fst d.
End Dict.

Definition py_dict_fromkeys {K} (eqb : K -> K -> bool) (l : list K) : list (K * unit) :=
  py_dict_of_pairs eqb (map (fun k => (k, tt)) l).

(* every key once, where it is first mentioned *)
Fixpoint py_dedup {K} (eqb : K -> K -> bool) (l : list K) : list K :=
  match l with
  | [] => []
  | x :: t => x :: filter (fun y => negb (eqb y x)) (py_dedup eqb t)
  end.

(* ------------------------------------------------------------------------------------ *)
(* `x if x else ()` on a sequence *)
Lemma py_truthy_self {A} (l : list A) : (if py_truthy l then l else []) = l.
Proof. destruct l; reflexivity. Qed.

Lemma py_len_nonneg {A} (l : list A) : 0 <= py_len l.
Proof. unfold py_len. lia. Qed.

Lemma py_range_len {A} (l : list A) : py_range (py_len l) = map Z.of_nat (seq 0 (List.length l)).
Proof. unfold py_range, py_len. rewrite Nat2Z.id. reflexivity. Qed.

Lemma py_range_of_nat n : py_range (Z.of_nat n) = map Z.of_nat (seq 0 n).
Proof. unfold py_range. rewrite Nat2Z.id. reflexivity. Qed.

Lemma combine_map_l {A B C} (f : A -> C) (a : list A) (b : list B) :
  combine (map f a) b = map (fun p => (f (fst p), snd p)) (combine a b).
Proof.
  revert b. induction a as [|x t IH]; intros [|y b]; simpl; auto. rewrite IH. reflexivity.
Qed.

Lemma combine_map_r {A B C} (f : B -> C) (a : list A) (b : list B) :
  combine a (map f b) = map (fun p => (fst p, f (snd p))) (combine a b).
Proof.
  revert b. induction a as [|x t IH]; intros [|y b]; simpl; auto. rewrite IH. reflexivity.
Qed.

(* enumerate, through the nat-indexed enumeration the models use *)
Lemma py_enumerate_nat {A} (l : list A) :
  py_enumerate l = map (fun p => (Z.of_nat (fst p), snd p)) (combine (seq 0 (List.length l)) l).
Proof. unfold py_enumerate. rewrite py_range_len. apply combine_map_l. Qed.

Lemma py_in_map {A B} (eqa : A -> A -> bool) (eqb : B -> B -> bool) (f : A -> B) x l :
  (forall y, eqb (f x) (f y) = eqa x y) -> py_in eqb (f x) (map f l) = py_in eqa x l.
Proof.
  intros H. unfold py_in. induction l as [|y t IH]; simpl; auto. rewrite H, IH. reflexivity.
Qed.

(* `k in d` / d[k] through d.pop(k) *)
Lemma py_dict_get_pop {K V} (eqb : K -> K -> bool) (d : list (K * V)) k :
  py_dict_get eqb d k = option_map fst (py_dict_pop eqb d k).
Proof.
  induction d as [|[k' v] t IH]; simpl; auto.
  destruct (eqb k' k); [reflexivity|]. rewrite IH.
  destruct (py_dict_pop eqb t k) as [[x t']|]; reflexivity.
Qed.

Section DictLemmas.
  Context {K V : Type} (eqb : K -> K -> bool).
  Hypothesis eqb_eq : forall a b, eqb a b = true <-> a = b.

  Lemma eqb_refl' a : eqb a a = true.
  Proof. apply eqb_eq. reflexivity. Qed.

  Lemma py_dict_get_set (d : list (K * V)) k v k' :
    py_dict_get eqb (py_dict_set eqb d k v) k' = if eqb k k' then Some v else py_dict_get eqb d k'.
  Proof.
    induction d as [|[k0 v0] t IH]; simpl.
    - reflexivity.
    - destruct (eqb k0 k) eqn:E0; simpl.
      + apply eqb_eq in E0. subst k0. destruct (eqb k k'); reflexivity.
      + destruct (eqb k0 k') eqn:E1.
        * apply eqb_eq in E1. subst k0.
          destruct (eqb k k') eqn:E2; [|reflexivity].
          apply eqb_eq in E2. subst. rewrite eqb_refl' in E0. discriminate.
        * apply IH.
  Qed.

  (* dict(pairs)[k]: the LAST pair with that key *)
  Lemma py_dict_get_of_pairs_gen (l : list (K * V)) d k :
    py_dict_get eqb (fold_left (fun d kv => py_dict_set eqb d (fst kv) (snd kv)) l d) k
    = fold_left (fun acc kv => if eqb (fst kv) k then Some (snd kv) else acc) l (py_dict_get eqb d k).
  Proof.
    revert d. induction l as [|[k0 v0] t IH]; intros d; simpl; auto.
    rewrite IH, py_dict_get_set. reflexivity.
  Qed.

  Lemma py_dict_get_of_pairs (l : list (K * V)) k :
    py_dict_get eqb (py_dict_of_pairs eqb l) k
    = fold_left (fun acc kv => if eqb (fst kv) k then Some (snd kv) else acc) l None.
  Proof. apply (py_dict_get_of_pairs_gen l [] k). Qed.

  Lemma py_dict_get_none (d : list (K * V)) k :
    py_dict_get eqb d k = None <-> ~ In k (map fst d).
  Proof.
    induction d as [|[k0 v0] t IH]; simpl.
    - tauto.
    - destruct (eqb k0 k) eqn:E.
      + apply eqb_eq in E. subst. split; [discriminate|]. intros H. exfalso. apply H. auto.
      + rewrite IH. split.
        * intros H [H1|H1]; [subst; rewrite eqb_refl' in E; discriminate|tauto].
        * tauto.
  Qed.

  Lemma py_dict_set_fresh (d : list (K * V)) k v :
    ~ In k (map fst d) -> py_dict_set eqb d k v = d ++ [(k, v)].
  Proof.
    induction d as [|[k0 v0] t IH]; simpl; intros H; auto.
    destruct (eqb k0 k) eqn:E.
    - apply eqb_eq in E. subst. exfalso. apply H. auto.
    - rewrite IH by tauto. reflexivity.
  Qed.

  Lemma py_dict_of_pairs_nodup_gen (l d : list (K * V)) :
    NoDup (map fst (d ++ l)) ->
    fold_left (fun d kv => py_dict_set eqb d (fst kv) (snd kv)) l d = d ++ l.
  Proof.
    revert d. induction l as [|[k v] t IH]; intros d H; simpl.
    - rewrite app_nil_r. reflexivity.
    - rewrite py_dict_set_fresh.
      + rewrite IH; rewrite <- app_assoc; simpl; auto.
      + rewrite map_app in H. simpl in H. apply NoDup_remove_2 in H.
        intros I. apply H. apply in_or_app. auto.
  Qed.

  (* distinct keys: the dict IS the list of pairs *)
  Lemma py_dict_of_pairs_nodup (l : list (K * V)) :
    NoDup (map fst l) -> py_dict_of_pairs eqb l = l.
  Proof. intros H. apply (py_dict_of_pairs_nodup_gen l []). exact H. Qed.

  Lemma py_dict_set_keys_mem (d : list (K * V)) k v :
    In k (map fst d) -> map fst (py_dict_set eqb d k v) = map fst d.
  Proof.
    induction d as [|[k0 v0] t IH]; simpl; intros H; [tauto|].
    destruct (eqb k0 k) eqn:E; simpl; [reflexivity|].
    f_equal. apply IH. destruct H as [H|H]; auto. subst. rewrite eqb_refl' in E. discriminate.
  Qed.
End DictLemmas.

Section Dedup.
  Context {K : Type} (eqb : K -> K -> bool).
  Hypothesis eqb_eq : forall a b, eqb a b = true <-> a = b.

  Definition notin (ks : list K) (y : K) : bool := negb (py_in eqb y ks).

  Lemma notin_app a b y : notin (a ++ b) y = notin a y && notin b y.
  Proof. unfold notin, py_in. rewrite existsb_app, negb_orb. reflexivity. Qed.

  Lemma py_in_In x l : py_in eqb x l = true <-> In x l.
  Proof.
    unfold py_in. rewrite existsb_exists. split.
    - intros (y & Hy & E). apply eqb_eq in E. subst. exact Hy.
    - intros H. exists x. split; auto. apply eqb_eq. reflexivity.
  Qed.

  Lemma filter_filter' {A} (p q : A -> bool) l :
    filter p (filter q l) = filter (fun x => q x && p x) l.
  Proof.
    induction l as [|x t IH]; simpl; auto.
    destruct (q x); simpl; [destruct (p x)|]; rewrite IH; reflexivity.
  Qed.

  Lemma fromkeys_gen (l : list K) (d : list (K * unit)) :
    map fst (fold_left (fun d kv => py_dict_set eqb d (fst kv) (snd kv)) (map (fun k => (k, tt)) l) d)
    = map fst d ++ filter (notin (map fst d)) (py_dedup eqb l).
  Proof.
    revert d. induction l as [|x t IH]; intros d; simpl.
    - rewrite app_nil_r. reflexivity.
    - rewrite IH. destruct (py_in eqb x (map fst d)) eqn:E.
      + assert (I : In x (map fst d)) by (apply py_in_In; exact E).
        rewrite (py_dict_set_keys_mem eqb eqb_eq) by exact I.
        unfold notin at 2. rewrite E. simpl. f_equal.
        rewrite filter_filter'. apply filter_ext_in'. intros y _.
        destruct (eqb y x) eqn:Eyx; simpl; [|reflexivity].
        apply eqb_eq in Eyx. subst y. unfold notin. rewrite E. reflexivity.
      + assert (NI : ~ In x (map fst d)).
        { intros I. apply py_in_In in I. congruence. }
        rewrite (py_dict_set_fresh eqb eqb_eq) by exact NI.
        unfold notin at 2. rewrite E. simpl. rewrite map_app. simpl. rewrite <- app_assoc. simpl.
        f_equal. f_equal. rewrite filter_filter'. apply filter_ext_in'. intros y _.
        rewrite notin_app. unfold notin at 2. unfold py_in. simpl. rewrite orb_false_r.
        rewrite andb_comm. reflexivity.
  Qed.

  (* tuple(dict.fromkeys(xs)): first mentions *)
  Lemma py_dict_fromkeys_keys (l : list K) :
    py_dict_keys (py_dict_fromkeys eqb l) = py_dedup eqb l.
  Proof.
    unfold py_dict_keys, py_dict_fromkeys, py_dict_of_pairs. rewrite fromkeys_gen. simpl.
    apply filter_true_id. intros; reflexivity.
  Qed.
End Dedup.
