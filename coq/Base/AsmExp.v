(* Base/AsmExp.v -- the meaning of the ASSEMBLY step of
     src/cr/cube/cubepart.py   _Slice._assemble_matrix, _assemble_marginal, the label / code / alias
                               lists, rows_dimension_fills, inserted_*_idxs, derived_*_idxs,
                               diff_*_idxs, _row_order_signed_indexes, _column_order_signed_indexes;
                               _Strand._assemble_vector and the strand twins
   as far as the source translator harness/translate/x_assemble.py reads them.

   [aexp] is the deep-embedded sub-language emitted into Gen/AssembleSrc.v (one term per member;
   local names, `self.<lazyproperty>` and `self._method(args)` are inlined by the translator).
   [aeval] is its meaning: numpy / Python written literally, over an arbitrary element type [A]
   (numbers for measures, tokens for labels, booleans for flag vectors).

     * np.block of a nested list: the innermost lists are joined along the LAST axis (all blocks of
       a row need the same number of rows), the results along the first (all need the same number
       of columns); anything else is an error ([VErr]).  A 2-D array carries its SHAPE, so that
       (n, 0) and (0, p) blocks are what they are in numpy.
     * np.hstack / np.concatenate of a list of 1-D arrays: their concatenation.
     * FANCY INDEXING  a[idx]  with an int array: every index k must satisfy -len <= k < len
       (numpy raises IndexError otherwise: [VErr]); a negative k addresses len + k.  [wrap].
     * np.ix_(r, c) is the open mesh of the two int arrays;  M[np.ix_(r, c)][i][j] = M[r[i]][c[j]],
       each axis with its own wrap-around.
     * a Python list / tuple ([VList]) is not an ndarray ([VVec]): `+` concatenates lists, only an
       ndarray takes an int array as index, np.array(list) makes the ndarray.
     * `x[k]` on a Python sequence with an int k: -len <= k < len, negative from the end (the same
       rule, [wrap]).
     * np.where(v)[0]: the positions of the truthy entries of a 1-D array, ascending.
     * `(i for i, x in enumerate(order) if <cond on x>)`, `(<expr of idx> for idx in order)`.

   An INPUT ([AIn path]) is a method parameter or an attribute chain below one / below a terminal
   attribute of the partition (`blocks`, `marginal.blocks`, `dim0.element_labels`,
   `dim1.valid_elements.derived` - the last one is the translator's reading of
   `[e.derived for e in dim.valid_elements]` and of `dim.valid_elements[k].derived`: the list of that
   attribute over the sequence).  A sequence of objects of which only the length is used is
   [VObjs n].  The two signed display orders are the calls [AOrd f fmt] of the order helpers'
   factory methods (matrix row / column, stripe) with the format they are asked for.

   TRUSTED: this file IS the reading of numpy / Python the GenAgree lemmas of
   Proofs/GenAgreeAssemble.v rely on.  Not modelled: dtype, views vs copies, warnings. *)
From Coq Require Import List ZArith Bool Lia Arith String.
Import ListNotations.
Local Open Scope nat_scope.

(* ------------------------------------------------------------------------------------ *)
(** * syntax *)

(* the factory method a display order comes from *)
Inductive ofun :=
| FMatrixRow        (* cr.cube.matrix.assembler._BaseOrderHelper.row_display_order(dimensions, measures, format) *)
| FMatrixColumn     (* ... .column_display_order(dimensions, measures, format) *)
| FStripe.          (* cr.cube.stripe.assembler._BaseOrderHelper.display_order(rows_dimension, measures, format) *)

Inductive ofmt := FmtSigned | FmtBogus.     (* ORDER_FORMAT.SIGNED_INDEXES / BOGUS_IDS *)

(* integer expressions over the loop variable of a generator *)
Inductive zexp :=
| ZIdx                        (* the loop variable *)
| ZLit (z : Z)
| ZLenIn (x : string)         (* len(<input x>) *)
| ZAdd (a b : zexp).

Inductive zcmp := CLt | CLe | CGt | CGe | CEq | CNe.
Inductive icond :=
| ICmp (op : zcmp) (a b : zexp)
| IAnd (a b : icond) | INot (a : icond).

(* the element expression of `(<iexp> for idx in order)` *)
Inductive iexp :=
| IItemIn (x : string) (i : zexp)      (* <input x>[i], x a Python sequence *)
| IIf (c : icond) (a b : iexp).

Inductive acond :=
| CFlag (x : string)                        (* a boolean input, e.g. marginal.is_defined *)
| CIsMember (x : string) (en mem : string)  (* <input x> == <enum en>.<mem> *)
| CNot (c : acond).

Inductive aexp :=
| AIn (x : string)
| ANone
| AOrd (f : ofun) (m : ofmt)
| AIntArray (e : aexp)            (* np.array(e, dtype=int) *)
| AArray (e : aexp)               (* np.array(e) *)
| ABlock (e : aexp)               (* np.block(e) *)
| AHstack (e : aexp)              (* np.hstack(e) *)
| AConcat (e : aexp)              (* np.concatenate(e) *)
| AIx (r c : aexp)                (* np.ix_(r, c) *)
| AIndex (e i : aexp)             (* e[i] *)
| AListAdd (a b : aexp)           (* a + b, Python lists / tuples *)
| ARepeat (b : bool) (n : aexp)   (* [b] * n *)
| ALen (e : aexp)                 (* len(e) *)
| AWhere0 (e : aexp)              (* np.where(e)[0] *)
| ATuple (e : aexp)               (* tuple(e) *)
| AIf (c : acond) (a b : aexp)    (* a if c else b;  if c: return a ... return b *)
| AEnumPos (e : aexp) (c : icond) (* (i for i, x in enumerate(e) if c), c about x *)
| AMapIdx (e : aexp) (body : iexp). (* (body for idx in e) *)

(* ------------------------------------------------------------------------------------ *)
(** * values and evaluation *)

(* index normalisation on an axis of length n *)
Definition wrap (n : nat) (z : Z) : option nat :=
  if (z <? 0)%Z
  then (if (- Z.of_nat n <=? z)%Z then Some (Z.to_nat (Z.of_nat n + z)) else None)
  else (if (z <? Z.of_nat n)%Z then Some (Z.to_nat z) else None).

(* all-or-nothing map *)
Fixpoint omap {X Y} (f : X -> option Y) (l : list X) : option (list Y) :=
  match l with
  | [] => Some []
  | x :: t => match f x, omap f t with
              | Some y, Some r => Some (y :: r)
              | _, _ => None
              end
  end.

Fixpoint positions_from {X} (f : X -> bool) (s : nat) (l : list X) : list nat :=
  match l with
  | [] => []
  | x :: t => if f x then s :: positions_from f (S s) t else positions_from f (S s) t
  end.

Section Eval.
Variable A : Type.
Variable d : A.                       (* default for [nth]; never returned for an in-range index *)
Variable lit : bool -> option A.      (* a bool literal as an element, if it is one *)
Variable truthy : A -> bool.          (* truthiness of an element (np.where) *)

Inductive aval :=
| VErr
| VNone
| VObjs (n : nat)                          (* n objects; only len() applies *)
| VList (l : list A)                       (* Python list / tuple of scalars *)
| VVec (l : list A)                        (* 1-D ndarray *)
| VMat (nr nc : nat) (m : list (list A))   (* 2-D ndarray of shape (nr, nc), row lists *)
| VInts (l : list Z)                       (* 1-D int ndarray (a signed display order) *)
| VMesh (r c : list Z)                     (* np.ix_(r, c) *)
| VSeq (l : list aval)                     (* a list / tuple of arrays or of such lists *)
| VNat (n : nat)
| VNats (l : list nat).                    (* a tuple / array of positions *)

Record aenv := mkAenv {
  e_in : string -> aval;
  e_flag : string -> bool;
  e_enum : string -> (string * string);          (* the enum member an input is *)
  e_order : ofun -> ofmt -> aval }.

(* row-wise concatenation of 2-D arrays with equal row counts (np.hstack, the inner lists of np.block) *)
Fixpoint zip_rows (a b : list (list A)) : list (list A) :=
  match a, b with
  | x :: a', y :: b' => (x ++ y) :: zip_rows a' b'
  | _, _ => []
  end.

Definition hjoin2 (u v : aval) : aval :=
  match u, v with
  | VMat r1 c1 a, VMat r2 c2 b => if r1 =? r2 then VMat r1 (c1 + c2) (zip_rows a b) else VErr
  | _, _ => VErr
  end.
Definition vjoin2 (u v : aval) : aval :=
  match u, v with
  | VMat r1 c1 a, VMat r2 c2 b => if c1 =? c2 then VMat (r1 + r2) c1 (a ++ b) else VErr
  | _, _ => VErr
  end.
(* a non-empty list joined left to right *)
Definition join_all (j : aval -> aval -> aval) (l : list aval) : aval :=
  match l with
  | [] => VErr
  | x :: t => fold_left j t x
  end.
Definition is_mat (v : aval) : bool := match v with VMat _ _ _ => true | _ => false end.

(* concatenation of 1-D arrays *)
Fixpoint cat_vecs (l : list aval) : option (list A) :=
  match l with
  | [] => Some []
  | VVec a :: t => match cat_vecs t with Some r => Some (a ++ r) | None => None end
  | _ => None
  end.

(* np.block(v) *)
Definition np_block_val (v : aval) : aval :=
  match v with
  | VSeq rows =>
      match rows with
      | VSeq _ :: _ =>
          join_all vjoin2
            (map (fun r => match r with
                           | VSeq cells => if forallb is_mat cells then join_all hjoin2 cells else VErr
                           | _ => VErr
                           end) rows)
      | VVec _ :: _ => match cat_vecs rows with Some l => VVec l | None => VErr end
      | _ => VErr
      end
  | _ => VErr
  end.

(* np.hstack(v) / np.concatenate(v) *)
Definition np_hstack_val (v : aval) : aval :=
  match v with
  | VSeq ((VVec _ :: _) as l) => match cat_vecs l with Some r => VVec r | None => VErr end
  | VSeq ((VMat _ _ _ :: _) as l) => if forallb is_mat l then join_all hjoin2 l else VErr
  | _ => VErr
  end.
Definition np_concat_val (v : aval) : aval :=
  match v with
  | VSeq ((VVec _ :: _) as l) => match cat_vecs l with Some r => VVec r | None => VErr end
  | VSeq ((VMat _ _ _ :: _) as l) => if forallb is_mat l then join_all vjoin2 l else VErr
  | _ => VErr
  end.

(* a[idx] *)
Definition take (l : list A) (idx : list Z) : option (list A) :=
  omap (fun z => match wrap (List.length l) z with Some k => Some (nth k l d) | None => None end) idx.

Definition index_val (v i : aval) : aval :=
  match v, i with
  | VVec l, VInts idx => match take l idx with Some r => VVec r | None => VErr end
  | VMat nr nc m, VMesh r c =>
      match omap (wrap nr) r, omap (wrap nc) c with
      | Some rs, Some cs =>
          VMat (List.length r) (List.length c) (map (fun i => map (fun j => nth j (nth i m []) d) cs) rs)
      | _, _ => VErr
      end
  | VSeq l, VNat k => nth k l VErr
  | _, _ => VErr
  end.

Fixpoint zeval (E : aenv) (x : Z) (e : zexp) : option Z :=
  match e with
  | ZIdx => Some x
  | ZLit z => Some z
  | ZLenIn p =>
      match e_in E p with
      | VObjs n => Some (Z.of_nat n)
      | VList l => Some (Z.of_nat (List.length l))
      | VVec l => Some (Z.of_nat (List.length l))
      | _ => None
      end
  | ZAdd a b => match zeval E x a, zeval E x b with Some u, Some v => Some (u + v)%Z | _, _ => None end
  end.

Definition cmp_of (op : zcmp) (a b : Z) : bool :=
  match op with
  | CLt => (a <? b)%Z | CLe => (a <=? b)%Z | CGt => (b <? a)%Z | CGe => (b <=? a)%Z
  | CEq => (a =? b)%Z | CNe => negb (a =? b)%Z
  end.

Fixpoint iceval (E : aenv) (x : Z) (c : icond) : option bool :=
  match c with
  | ICmp op a b => match zeval E x a, zeval E x b with
                   | Some u, Some v => Some (cmp_of op u v) | _, _ => None end
  | IAnd a b => match iceval E x a, iceval E x b with
                | Some u, Some v => Some (u && v) | _, _ => None end
  | INot a => match iceval E x a with Some u => Some (negb u) | None => None end
  end.

Fixpoint ieval (E : aenv) (x : Z) (e : iexp) : option A :=
  match e with
  | IItemIn p i =>
      match e_in E p, zeval E x i with
      | VList l, Some k => match wrap (List.length l) k with Some n => Some (nth n l d) | None => None end
      | _, _ => None
      end
  | IIf c a b =>
      match iceval E x c with
      | Some true => ieval E x a
      | Some false => ieval E x b
      | None => None
      end
  end.

Fixpoint ceval (E : aenv) (c : acond) : bool :=
  match c with
  | CFlag x => e_flag E x
  | CIsMember x en mem =>
      String.eqb (fst (e_enum E x)) en && String.eqb (snd (e_enum E x)) mem
  | CNot a => negb (ceval E a)
  end.

Fixpoint aeval (E : aenv) (e : aexp) {struct e} : aval :=
  match e with
  | AIn x => e_in E x
  | ANone => VNone
  | AOrd f m => e_order E f m
  | AIntArray a => match aeval E a with VInts l => VInts l | _ => VErr end
  | AArray a => match aeval E a with VList l => VVec l | VVec l => VVec l | _ => VErr end
  | ABlock a => np_block_val (aeval E a)
  | AHstack a => np_hstack_val (aeval E a)
  | AConcat a => np_concat_val (aeval E a)
  | AIx r c => match aeval E r, aeval E c with VInts a, VInts b => VMesh a b | _, _ => VErr end
  | AIndex a i => index_val (aeval E a) (aeval E i)
  | AListAdd a b => match aeval E a, aeval E b with VList x, VList y => VList (x ++ y) | _, _ => VErr end
  | ARepeat b n =>
      match lit b, aeval E n with
      | Some x, VNat k => VList (repeat x k)
      | _, _ => VErr
      end
  | ALen a =>
      match aeval E a with
      | VObjs n => VNat n
      | VList l => VNat (List.length l)
      | VVec l => VNat (List.length l)
      | VInts l => VNat (List.length l)
      | _ => VErr
      end
  | AWhere0 a => match aeval E a with VVec l => VNats (positions_from truthy 0 l) | _ => VErr end
  | ATuple a => match aeval E a with
                | VNats l => VNats l | VList l => VList l | VVec l => VList l | _ => VErr end
  | AIf c a b => if ceval E c then aeval E a else aeval E b
  | AEnumPos a c =>
      match aeval E a with
      | VInts l =>
          match omap (fun z => iceval E z c) l with
          | Some bs => VNats (positions_from (fun b : bool => b) 0 bs)
          | None => VErr
          end
      | _ => VErr
      end
  | AMapIdx a body =>
      match aeval E a with
      | VInts l => match omap (fun z => ieval E z body) l with Some r => VList r | None => VErr end
      | _ => VErr
      end
  end.

End Eval.

Arguments VErr {A}.
Arguments VNone {A}.
Arguments VObjs {A} n.
Arguments VList {A} l.
Arguments VVec {A} l.
Arguments VMat {A} nr nc m.
Arguments VInts {A} l.
Arguments VMesh {A} r c.
Arguments VSeq {A} l.
Arguments VNat {A} n.
Arguments VNats {A} l.
Arguments mkAenv {A} _ _ _ _.
Arguments e_in {A} _ _.
Arguments e_flag {A} _ _.
Arguments e_enum {A} _ _.
Arguments e_order {A} _ _ _.
