(* Base/MeasureExp.v -- the meaning of the CELL-WISE block formulas of
     src/cr/cube/matrix/measure.py, src/cr/cube/stripe/measure.py and of the margin-of-error /
     population one-liners of src/cr/cube/cubepart.py
   as far as the second source translator (harness/translate/measures.py) reads them.

   [mexp] is the deep-embedded sub-language emitted into Gen/MeasureSrc.v,
   Gen/StripeMeasureSrc.v and Gen/PartMeasureSrc.v (one term per (class, member); for a
   `blocks` member one term per block; local names, helper methods with arguments, and
   `self.<lazyproperty>` are inlined by the translator).  [meval] is its meaning.

   VALUES carry a symbolic shape: every axis is one of the five [dim] tags
       D1 (length 1)  DR (base rows)  DC (base columns)  DRS (row subtotals)  DCS (column subtotals)
   and an operation of two arrays is defined only when numpy's RIGHT-ALIGNED broadcasting is
   forced by the TAGS (equal tags, or one of them D1); otherwise the value is [VErr].  That is a
   restriction of numpy's rule (equal tags => equal lengths), never an extension: when [meval]
   yields a value, numpy yields the same one.  A GenAgree lemma is only provable for a non-error
   value, so a formula that relies on two different axes happening to have the same length is a
   broken obligation, not a silent pass.

   LEAVES are looked up in an environment [menv]:
     [MBlock m bi bj]   self._second_order_measures.<m>.blocks[bi][bj]   (a matrix, list (list xq))
     [MVBlock m k]      self._measures.<m>.base_values (k=0) / .subtotal_values (k=1)   (strand)
     [MCube c a]        self._cube_measures.<c>.<a>   (shape given by the environment)
     [MProp p]          self.<p>, another public array of the same partition (cubepart.py)
     [MScalar s]        a scalar attribute (self._population, self._cube.population_fraction)
     [MName n]          a module-level constant (Z_975)
   The SUBTOTAL STRATEGIES of matrix/subtotals.py and stripe/insertion.py are Python control
   flow the translator does not read: [MStrat] / [MWave] / [MVStrat] / [MVWave] only record
   WHICH strategy is called on WHICH operands, and their meaning is a field of the environment
   ([e_strat], [e_wave], ...), instantiated in Proofs/GenAgreeMeasTac.v with the definitions of
   Model/Subtotals.v, Model/Proportions.v, Model/Variance.v (which stay tied to subtotals.py by
   the correspondence checks of C04 / C03 / C11).

   SQUARE ROOTS never get a value: [meval] of [MSqrt e] is [VErr].  The second evaluator
   [meval_sq] gives the SIGNED SQUARE  v*|v|  of the value v of an expression whose roots sit
   below products and quotients only:
       ssq (sqrt e) = e  if not e < 0, NaN otherwise      ([sqrt_guard]; np.sqrt of a negative
                                                           number or of -inf is NaN)
       ssq (a * b)  = ssq a * ssq b       ssq (a / b) = ssq a / ssq b
       ssq e        = v * |v|   for a root-free e of value v
   This is the framework's convention (the models carry the square, and the sign, of every
   radical quantity; DESIGN 2.2).

   TRUSTED: this file IS the reading of numpy (cell-wise arithmetic, ** k, np.nansum over an
   axis / everything, .T, np.all(a == b), np.full(x.shape, nan), np.repeat(c, x.shape) of a 1-D x,
   right-aligned broadcasting) that the second GenAgree tie relies on.  Not modelled: dtype,
   warnings (np.errstate is transparent), views vs copies, signed zero. *)
From Coq Require Import QArith ZArith List Bool Lia Arith String.
From CC Require Import Base.XQ Base.ListX.
Import ListNotations.
Local Close Scope Q_scope.
Local Close Scope string_scope.
Local Open Scope nat_scope.

(* ------------------------------------------------------------------------------------ *)
(** * syntax *)

Inductive dim := D1 | DR | DC | DRS | DCS.
Inductive axis := AxRows | AxCols.

(* a boolean argument of a strategy call: a literal or <cube-measure object>.<attribute> *)
Inductive bflag := BLit (b : bool) | BCube (c a : string).

(* SumSubtotals(diff_cols_nan, diff_rows_nan) / PositiveTermSubtotals / NegativeTermSubtotals *)
Inductive strat := SSum (dcn drn : bflag) | SPos | SNeg.

Inductive mexp :=
| MConst (q : Q)                         (* a numeric literal *)
| MName (n : string)                     (* a module-level constant *)
| MScalar (s : string)                   (* a scalar attribute of self *)
| MProp (p : string)                     (* self.<p>: another array-valued property *)
| MBlock (m : string) (bi bj : nat)      (* second-order measure m, block [bi][bj] *)
| MVBlock (m : string) (k : nat)         (* strand measure m: 0 base_values, 1 subtotal_values *)
| MCube (c a : string)                   (* self._cube_measures.<c>.<a> *)
| MStrat (s : strat) (c a : string) (bi bj : nat)
                                         (* <Strategy>.blocks(cube c.a, dimensions, ..)[bi][bj] *)
| MWave (ax : axis) (bc ba cc ca : string) (dflt : mexp)
      (* WaveDiffSubtotal.subtotal_rows / _columns(cube bc.ba, cube cc.ca, dflt, dimensions) *)
| MNanSub (e : mexp) (bi bj : nat)       (* NanSubtotals.blocks(e, dimensions)[bi][bj] *)
| MVStrat (s : strat) (e : mexp)         (* <Strategy>.subtotal_values(e, rows_dimension) *)
| MVWave (bc ba cc ca : string) (dflt : mexp)
      (* WaveDiffSubtotals.subtotal_values(cube bc.ba, cube cc.ca, dflt, rows_dimension) *)
| MAdd (a b : mexp) | MSub (a b : mexp) | MMul (a b : mexp) | MDiv (a b : mexp)
| MPow (a : mexp) (k : nat)              (* a ** k, k a literal natural *)
| MSqrt (a : mexp)                       (* np.sqrt(a): see [meval_sq] *)
| MT (a : mexp)                          (* a.T *)
| MNansum (a : mexp) (ax : option nat)   (* np.nansum(a, axis=k) / np.nansum(a) *)
| MNanLike (a : mexp)                    (* np.full(a.shape, np.nan) *)
| MRepeatLike (q : Q) (a : mexp)         (* np.repeat(q, a.shape), a 1-D *)
| MDiffNan (ax : axis) (d : nat) (a : mexp)
      (* x = np.array(a, dtype=np.float64); x[:, D] = np.nan (AxCols) / x[D, :] = np.nan (AxRows) /
         x[D] = np.nan (1-D, AxRows)  where
         D = [i for i, s in enumerate(self._dimensions[-d].subtotals) if s.is_difference] *)
| MUnlessNone (c a : string) (e : mexp)
      (* `if <cube c.a> is None: return np.array([])` ... `return e`: the value when c.a is not
         None (the None case -- no subtotals can exist then -- is not modelled) *)
| MIf (c : mcond) (a b : mexp)           (* `if c: return a` ... `return b`;  a if c else b *)
with mcond :=
| CFlag (m : string)                     (* self.<m>, a boolean member that is not inlined *)
| CDimType (d : nat) (t : string)        (* self._dimensions[-d].dimension_type == DT.<t> *)
| CAllEq (a b : mexp)                    (* np.all(a == b) *)
| CNoDiff (d : nat)                      (* not D, D the difference positions of dimension -d *)
| CAllShape (a : mexp)                   (* np.all(a.shape): no axis of length 0 *)
| CRankLt2 (m : string) (bi bj : nat)    (* np.linalg.matrix_rank(<block>) < 2 *)
| COr (a b : mcond) | CAnd (a b : mcond) | CNot (a : mcond).

(* ------------------------------------------------------------------------------------ *)
(** * values *)

Inductive mval :=
| VErr
| VScal (x : xq)
| VVec (d : dim) (f : nat -> xq)
| VMat (dr dc : dim) (f : nat -> nat -> xq).

Record menv := mkMenv {
  e_size : dim -> nat;                                   (* length of an axis *)
  e_name : string -> xq;
  e_scalar : string -> xq;
  e_prop : string -> mval;
  e_block : string -> nat -> nat -> list (list xq);
  e_vblock : string -> nat -> list xq;
  e_cube : string -> string -> mval;
  e_cubeflag : string -> string -> bool;
  e_flag : string -> bool;
  e_dimtype : nat -> string -> bool;
  e_isdiff : nat -> nat -> bool;      (* d, k: is subtotal k of dimension -d a difference *)
  e_nodiff : nat -> bool;             (* d: dimension -d has no difference subtotal *)
  e_ranklt2 : list (list xq) -> bool; (* np.linalg.matrix_rank(m) < 2 *)
  (* strategy, diff_cols_nan, diff_rows_nan, cube operand, block: the block's cells *)
  e_strat : nat -> bool -> bool -> string -> string -> nat -> nat -> nat -> nat -> xq;
  (* axis, bases operand, counts operand, default values: the block's cells *)
  e_wave : axis -> string -> string -> string -> string -> (nat -> nat -> xq) -> nat -> nat -> xq;
  e_vstrat : nat -> (nat -> xq) -> nat -> xq;
  e_vwave : string -> string -> string -> string -> (nat -> xq) -> nat -> xq }.

Definition dim_eqb (a b : dim) : bool :=
  match a, b with
  | D1, D1 | DR, DR | DC, DC | DRS, DRS | DCS, DCS => true
  | _, _ => false
  end.

(* the axis two broadcast axes give (None: numpy would compare two unrelated lengths) *)
Definition bdim (a b : dim) : option dim :=
  if dim_eqb a b then Some a
  else match a, b with
       | D1, _ => Some b
       | _, D1 => Some a
       | _, _ => None
       end.
(* the index read on an axis of tag d by output index i *)
Definition bix (d : dim) (i : nat) : nat := match d with D1 => 0 | _ => i end.

Definition bin (op : xq -> xq -> xq) (a b : mval) : mval :=
  match a, b with
  | VErr, _ | _, VErr => VErr
  | VScal x, VScal y => VScal (op x y)
  | VScal x, VVec d g => VVec d (fun i => op x (g i))
  | VVec d f, VScal y => VVec d (fun i => op (f i) y)
  | VScal x, VMat r c g => VMat r c (fun i j => op x (g i j))
  | VMat r c f, VScal y => VMat r c (fun i j => op (f i j) y)
  | VVec d f, VVec d' g =>
      match bdim d d' with
      | Some e => VVec e (fun i => op (f (bix d i)) (g (bix d' i)))
      | None => VErr
      end
  | VMat r c f, VVec d g =>
      match bdim c d with
      | Some e => VMat r e (fun i j => op (f i (bix c j)) (g (bix d j)))
      | None => VErr
      end
  | VVec d f, VMat r c g =>
      match bdim d c with
      | Some e => VMat r e (fun i j => op (f (bix d j)) (g i (bix c j)))
      | None => VErr
      end
  | VMat r c f, VMat r' c' g =>
      match bdim r r', bdim c c' with
      | Some e, Some e' =>
          VMat e e' (fun i j => op (f (bix r i) (bix c j)) (g (bix r' i) (bix c' j)))
      | _, _ => VErr
      end
  end.

Definition vmap (h : xq -> xq) (a : mval) : mval :=
  match a with
  | VErr => VErr
  | VScal x => VScal (h x)
  | VVec d f => VVec d (fun i => h (f i))
  | VMat r c f => VMat r c (fun i j => h (f i j))
  end.

(* a ** k by repeated multiplication on the right: a**2 = a*a, a**3 = (a*a)*a *)
Fixpoint xpow (x : xq) (k : nat) : xq :=
  match k with
  | 0 => Fin 1%Q
  | 1 => x
  | S k' => xmul (xpow x k') x
  end.

Definition rdim (bi : nat) : option dim :=
  match bi with 0 => Some DR | 1 => Some DRS | _ => None end.
Definition cdim (bj : nat) : option dim :=
  match bj with 0 => Some DC | 1 => Some DCS | _ => None end.

Definition strat_tag (s : strat) : nat :=
  match s with SSum _ _ => 0 | SPos => 1 | SNeg => 2 end.
Definition bflag_val (E : menv) (b : bflag) : bool :=
  match b with BLit x => x | BCube c a => e_cubeflag E c a end.
Definition strat_dcn (E : menv) (s : strat) : bool :=
  match s with SSum d _ => bflag_val E d | _ => false end.
Definition strat_drn (E : menv) (s : strat) : bool :=
  match s with SSum _ d => bflag_val E d | _ => false end.

Definition nansumN (n : nat) (f : nat -> xq) : xq := nansum (tab n f).

(* np.all(a == b) of two arrays of the same (tagged) shape *)
Definition all_eq (E : menv) (a b : mval) : option bool :=
  match a, b with
  | VMat r c f, VMat r' c' g =>
      if dim_eqb r r' && dim_eqb c c'
      then Some (forallb (fun i => forallb (fun j => xeqb (f i j) (g i j)) (seq 0 (e_size E c)))
                         (seq 0 (e_size E r)))
      else None
  | VVec d f, VVec d' g =>
      if dim_eqb d d'
      then Some (forallb (fun i => xeqb (f i) (g i)) (seq 0 (e_size E d)))
      else None
  | _, _ => None
  end.

Definition oor (a b : option bool) : option bool :=
  match a, b with Some x, Some y => Some (x || y) | _, _ => None end.
Definition oand (a b : option bool) : option bool :=
  match a, b with Some x, Some y => Some (x && y) | _, _ => None end.
Definition onot (a : option bool) : option bool :=
  match a with Some x => Some (negb x) | None => None end.

(* a conditional: both branches must have the same tagged shape; the condition is pushed
   into the cells *)
Definition vif (t : bool) (a b : mval) : mval :=
  match a, b with
  | VScal x, VScal y => VScal (if t then x else y)
  | VVec d f, VVec d' g =>
      if dim_eqb d d' then VVec d (fun i => if t then f i else g i) else VErr
  | VMat r c f, VMat r' c' g =>
      if dim_eqb r r' && dim_eqb c c'
      then VMat r c (fun i j => if t then f i j else g i j) else VErr
  | _, _ => VErr
  end.

(* ------------------------------------------------------------------------------------ *)
(** * the meaning of a term *)

Fixpoint meval (E : menv) (e : mexp) {struct e} : mval :=
  match e with
  | MConst q => VScal (Fin q)
  | MName n => VScal (e_name E n)
  | MScalar s => VScal (e_scalar E s)
  | MProp p => e_prop E p
  | MBlock m bi bj =>
      match rdim bi, cdim bj with
      | Some r, Some c => VMat r c (mnth (e_block E m bi bj))
      | _, _ => VErr
      end
  | MVBlock m k =>
      match rdim k with
      | Some r => VVec r (vnth (e_vblock E m k))
      | None => VErr
      end
  | MCube c a => e_cube E c a
  | MStrat s c a bi bj =>
      match rdim bi, cdim bj with
      | Some r, Some cd =>
          VMat r cd (e_strat E (strat_tag s) (strat_dcn E s) (strat_drn E s) c a bi bj)
      | _, _ => VErr
      end
  | MWave ax bc ba cc ca d =>
      match ax, meval E d with
      | AxCols, VMat DR DCS f => VMat DR DCS (e_wave E AxCols bc ba cc ca f)
      | AxRows, VMat DRS DC f => VMat DRS DC (e_wave E AxRows bc ba cc ca f)
      | _, _ => VErr
      end
  | MNanSub a bi bj =>
      match bi, bj with
      | 0, 0 => match meval E a with VMat DR DC f => VMat DR DC f | _ => VErr end
      | _, _ => match meval E a, rdim bi, cdim bj with
                | VMat DR DC _, Some r, Some c => VMat r c (fun _ _ => NaN)
                | _, _, _ => VErr
                end
      end
  | MVStrat s a =>
      match meval E a with
      | VVec DR f => VVec DRS (e_vstrat E (strat_tag s) f)
      | _ => VErr
      end
  | MVWave bc ba cc ca d =>
      match meval E d with
      | VVec DRS f => VVec DRS (e_vwave E bc ba cc ca f)
      | _ => VErr
      end
  | MAdd a b => bin xadd (meval E a) (meval E b)
  | MSub a b => bin xsub (meval E a) (meval E b)
  | MMul a b => bin xmul (meval E a) (meval E b)
  | MDiv a b => bin xdiv (meval E a) (meval E b)
  | MPow a k => vmap (fun x => xpow x k) (meval E a)
  | MSqrt _ => VErr
  | MT a =>
      match meval E a with
      | VMat r c f => VMat c r (fun i j => f j i)
      | v => v
      end
  | MNansum a ax =>
      match meval E a, ax with
      | VMat r c f, Some 0 => VVec c (fun j => nansumN (e_size E r) (fun i => f i j))
      | VMat r c f, Some 1 => VVec r (fun i => nansumN (e_size E c) (fun j => f i j))
      | VMat r c f, None =>
          VScal (nansum (List.concat (tab (e_size E r) (fun i => tab (e_size E c) (fun j => f i j)))))
      | VVec d f, None => VScal (nansumN (e_size E d) f)
      | VVec d f, Some 0 => VScal (nansumN (e_size E d) f)
      | _, _ => VErr
      end
  | MNanLike a => vmap (fun _ => NaN) (meval E a)
  | MRepeatLike q a =>
      match meval E a with
      | VVec d _ => VVec d (fun _ => Fin q)
      | _ => VErr
      end
  | MDiffNan ax d a =>
      match ax, d, meval E a with
      | AxCols, 1, VMat r DCS f => VMat r DCS (fun i j => if e_isdiff E 1 j then NaN else f i j)
      | AxRows, 2, VMat DRS c f => VMat DRS c (fun i j => if e_isdiff E 2 i then NaN else f i j)
      | AxRows, 1, VVec DRS f => VVec DRS (fun i => if e_isdiff E 1 i then NaN else f i)
      | _, _, _ => VErr
      end
  | MUnlessNone _ _ a => meval E a
  | MIf c a b =>
      match ceval E c with
      | Some t => vif t (meval E a) (meval E b)
      | None => VErr
      end
  end
with ceval (E : menv) (c : mcond) {struct c} : option bool :=
  match c with
  | CFlag m => Some (e_flag E m)
  | CDimType d t => Some (e_dimtype E d t)
  | CAllEq a b => all_eq E (meval E a) (meval E b)
  | CNoDiff d => Some (e_nodiff E d)
  | CAllShape a =>
      match meval E a with
      | VMat r c _ => Some (negb (Nat.eqb (e_size E r) 0) && negb (Nat.eqb (e_size E c) 0))
      | VVec d _ => Some (negb (Nat.eqb (e_size E d) 0))
      | _ => None
      end
  | CRankLt2 m bi bj =>
      match rdim bi, cdim bj with
      | Some _, Some _ => Some (e_ranklt2 E (e_block E m bi bj))
      | _, _ => None
      end
  | COr a b => oor (ceval E a) (ceval E b)
  | CAnd a b => oand (ceval E a) (ceval E b)
  | CNot a => onot (ceval E a)
  end.

(* ------------------------------------------------------------------------------------ *)
(** * signed squares *)

Definition ssq (x : xq) : xq := xmul x (xabs x).
(* the square of np.sqrt(v) *)
Definition sqrt_guard (v : xq) : xq := if xltb v (Fin 0%Q) then NaN else v.

Fixpoint meval_sq (E : menv) (e : mexp) {struct e} : mval :=
  match e with
  | MSqrt a => vmap sqrt_guard (meval E a)
  | MMul a b => bin xmul (meval_sq E a) (meval_sq E b)
  | MDiv a b => bin xdiv (meval_sq E a) (meval_sq E b)
  | MIf c a b =>
      match ceval E c with
      | Some t => vif t (meval_sq E a) (meval_sq E b)
      | None => VErr
      end
  | MNanLike a => vmap (fun _ => NaN) (meval E a)
  | _ => vmap ssq (meval E e)
  end.

(* ------------------------------------------------------------------------------------ *)
(** * statement shapes of the GenAgree lemmas *)

(* the value is a matrix of tagged shape (dr, dc) whose in-range cells are g *)
Definition agrees_mat (E : menv) (v : mval) (dr dc : dim) (g : nat -> nat -> xq) : Prop :=
  match v with
  | VMat r c f => r = dr /\ c = dc /\
                  forall i j, i < e_size E dr -> j < e_size E dc -> f i j = g i j
  | _ => False
  end.
Definition agrees_vec (E : menv) (v : mval) (d : dim) (g : nat -> xq) : Prop :=
  match v with
  | VVec d' f => d' = d /\ forall i, i < e_size E d -> f i = g i
  | _ => False
  end.
Definition agrees_scal (v : mval) (x : xq) : Prop :=
  match v with VScal y => y = x | _ => False end.
