(* PyDict: JSON-ish Python VALUES and the pure Python-semantics combinators on them that the SHALLOW
   translator harness/translate/x_dimension.py builds its output from (coq/Gen/DimensionSrc.v), besides
   Base/PyList.v.  Pure part only: every operation that can raise returns a classified outcome here and is
   wrapped into the exception monad in Model/PyDimension.v.

     None / True / False / int / str / float     JNone / JBool b / JInt z / JStr s / JFloat x
     list, tuple                                 JList l
     dict                                        JDict d     association list in insertion order, keys distinct
                                                             (w.r.t. [jv_eqb]) and hashable

   What is a faithful reading of Python and what is not modelled:
     x == y        [jv_eqb]: numbers compare by value across bool / int / float (True == 1 == 1.0; NaN equals
                   nothing), strings by characters, None only equals None, lists element-wise, dicts as sets
                   of items; values of different kinds are unequal.
     bool(x)       [jv_truthy]: None, False, 0, 0.0, "", [], {} are false.
     hash(x)       [jv_hashable]: lists and dicts are unhashable (TypeError as a dict key / set member).
     str(x)        [jv_str]: int (canonical decimal), str, None, bool; str() of a float / list / dict is NOT
                   modelled ([None]).
     int(x)        [jv_int]: int, bool, str (ASCII: blanks around, sign, digits with single underscores -
                   the same reading as Spec/OrderSpec.v [py_int]); None / list / dict raise TypeError; int()
                   of a float is NOT modelled.
     s.lower(), s.isnumeric()   ASCII only (a non-ASCII character makes isnumeric() unmodelled in Python
                   terms; here it simply is no digit).
   Strings are sequences of bytes read as ASCII; str subclasses, user-defined __eq__ / __hash__ do not exist. *)
From Coq Require Import List ZArith String Ascii Bool Lia Arith QArith.
From CC Require Import Base.XQ Base.Ident Base.PyList.
Import ListNotations.
Local Close Scope Q_scope.
Local Open Scope nat_scope.

Inductive jv : Type :=
| JNone
| JBool (b : bool)
| JInt (z : Z)
| JStr (s : string)
| JFloat (x : xq)
| JList (l : list jv)
| JDict (d : list (jv * jv)).

Definition jdict : Type := list (jv * jv).

(* --- numbers as Python compares them ------------------------------------------------------------ *)
Definition jv_number (v : jv) : option xq :=
  match v with
  | JBool b => Some (xofZ (if b then 1 else 0)%Z)
  | JInt z => Some (xofZ z)
  | JFloat x => Some x
  | _ => None
  end.

(* x == y *)
Fixpoint jv_eqb (a b : jv) : bool :=
  match a, b with
  | JNone, JNone => true
  | JStr s, JStr t => String.eqb s t
  | JInt x, JInt y => Z.eqb x y
  | JBool x, JBool y => Bool.eqb x y
  | JBool _, (JInt _ | JFloat _) | JInt _, (JBool _ | JFloat _) | JFloat _, (JBool _ | JInt _ | JFloat _) =>
      match jv_number a, jv_number b with Some x, Some y => xeqb x y | _, _ => false end
  | JList l1, JList l2 =>
      (fix go (l1 l2 : list jv) : bool :=
         match l1, l2 with
         | [], [] => true
         | x :: t, y :: u => jv_eqb x y && go t u
         | _, _ => false
         end) l1 l2
  | JDict d1, JDict d2 =>
      Nat.eqb (List.length d1) (List.length d2)
      && (fix go (d1 : list (jv * jv)) : bool :=
            match d1 with
            | [] => true
            | (k, v) :: t =>
                match (fix find (d2 : list (jv * jv)) : option jv :=
                         match d2 with
                         | [] => None
                         | (k2, v2) :: u => if jv_eqb k k2 then Some v2 else find u
                         end) d2 with
                | Some v2 => jv_eqb v v2
                | None => false
                end && go t
            end) d1
  | _, _ => false
  end.

(* bool(x) *)
Definition jv_truthy (v : jv) : bool :=
  match v with
  | JNone => false
  | JBool b => b
  | JInt z => negb (Z.eqb z 0)
  | JStr s => negb (String.eqb s "")
  | JFloat x => negb (xeqb x (Fin 0%Q))
  | JList l => match l with [] => false | _ => true end
  | JDict d => match d with [] => false | _ => true end
  end.

Definition jv_hashable (v : jv) : bool :=
  match v with JList _ | JDict _ => false | _ => true end.

Definition jv_is_none (v : jv) : bool := match v with JNone => true | _ => false end.
(* `x is True` / `x is False`: only the two bool singletons *)
Definition jv_is_true (v : jv) : bool := match v with JBool true => true | _ => false end.
Definition jv_is_false (v : jv) : bool := match v with JBool false => true | _ => false end.
(* isinstance(x, dict) / isinstance(x, str) *)
Definition jv_is_dict (v : jv) : bool := match v with JDict _ => true | _ => false end.
Definition jv_is_str (v : jv) : bool := match v with JStr _ => true | _ => false end.
Definition jv_is_list (v : jv) : bool := match v with JList _ => true | _ => false end.

(* --- dicts ------------------------------------------------------------------------------------------- *)
(* d.get(k) on a dict with a hashable key; [None] = the key is absent *)
Definition jd_get (d : jdict) (k : jv) : option jv := py_dict_get jv_eqb d k.
Definition jd_mem (d : jdict) (k : jv) : bool := py_dict_mem jv_eqb d k.
Definition jd_get_default (d : jdict) (k dflt : jv) : jv :=
  match jd_get d k with Some v => v | None => dflt end.
(* d[k] = v *)
Definition jd_set (d : jdict) (k v : jv) : jdict := py_dict_set jv_eqb d k v.
(* {**a, **b}, dict(a, **b) *)
Definition jd_update (a b : jdict) : jdict :=
  fold_left (fun d kv => jd_set d (fst kv) (snd kv)) b a.
(* dict(pairs) / {k: v for ..} *)
Definition jd_of_pairs (l : list (jv * jv)) : jdict := py_dict_of_pairs jv_eqb l.
Definition jd_keys (d : jdict) : list jv := map fst d.

(* x in seq  (tuple / list): == on each item *)
Definition jv_in (x : jv) (l : list jv) : bool := py_in jv_eqb x l.
(* seq.index(x): first position; [None] = ValueError *)
Fixpoint jv_index (x : jv) (l : list jv) : option Z :=
  match l with
  | [] => None
  | y :: t => if jv_eqb y x then Some 0%Z else option_map Z.succ (jv_index x t)
  end.

(* seq[i] with Python's negative wrap-around; [None] = IndexError *)
Definition py_nth {A} (l : list A) (i : Z) : option A :=
  let n := Z.of_nat (List.length l) in
  let j := if (i <? 0)%Z then (i + n)%Z else i in
  if ((0 <=? j) && (j <? n))%Z%bool then nth_error l (Z.to_nat j) else None.

(* --- strings ------------------------------------------------------------------------------------------ *)
(* str.lower() on ASCII *)
Definition lower_ascii (c : ascii) : ascii :=
  let n := nat_of_ascii c in
  if (65 <=? n) && (n <=? 90) then ascii_of_nat (n + 32) else c.
Fixpoint str_lower (s : string) : string :=
  match s with EmptyString => EmptyString | String c r => String (lower_ascii c) (str_lower r) end.

(* int(str) on ASCII strings: blanks around are dropped (9..13 and 32), then an optional sign, then one or
   more ASCII digits (leading zeros allowed); a single "_" may separate two digits *)
Definition digit_of (c : ascii) : option Z :=
  let n := Z.of_nat (nat_of_ascii c) in
  if ((48 <=? n) && (n <=? 57))%Z then Some (n - 48)%Z else None.
Fixpoint digits (s : string) (acc : Z) (after_digit : bool) : option Z :=
  match s with
  | EmptyString => if after_digit then Some acc else None
  | String c r =>
      match digit_of c with
      | Some d => digits r (10 * acc + d)%Z true
      | None => if Ascii.eqb c "_"%char && after_digit then digits r acc false else None
      end
  end.
Definition unsigned_int (s : string) : option Z := digits s 0%Z false.
Definition signed_int (s : string) : option Z :=
  match s with
  | String c r =>
      if Ascii.eqb c "-"%char then option_map Z.opp (unsigned_int r)
      else if Ascii.eqb c "+"%char then unsigned_int r
      else unsigned_int s
  | EmptyString => None
  end.
Definition is_blank (c : ascii) : bool :=
  let n := nat_of_ascii c in ((9 <=? n) && (n <=? 13)) || (n =? 32).
Fixpoint lstrip (s : string) : string :=
  match s with
  | String c r => if is_blank c then lstrip r else s
  | EmptyString => EmptyString
  end.
Fixpoint rstrip (s : string) : string :=
  match s with
  | String c r =>
      match rstrip r with
      | EmptyString => if is_blank c then EmptyString else String c EmptyString
      | r' => String c r'
      end
  | EmptyString => EmptyString
  end.
Definition str_int (s : string) : option Z := signed_int (rstrip (lstrip s)).

(* str.isnumeric() on ASCII: not empty, digits only *)
Fixpoint all_digits (s : string) : bool :=
  match s with
  | EmptyString => true
  | String c r => match digit_of c with Some _ => all_digits r | None => false end
  end.
Definition str_isnumeric (s : string) : bool :=
  match s with EmptyString => false | _ => all_digits s end.

(* --- str() / int() ------------------------------------------------------------------------------------ *)
(* str(x); [None] = not modelled (float, list, dict) *)
Definition jv_str (v : jv) : option string :=
  match v with
  | JNone => Some "None"%string
  | JBool b => Some (if b then "True" else "False")%string
  | JInt z => Some (dec z)
  | JStr s => Some s
  | _ => None
  end.

Inductive int_outcome : Type :=
| IntIs (z : Z)
| IntValueErr          (* a string that is no number *)
| IntTypeErr           (* None, list, dict *)
| IntUnmodelled.       (* float *)

Definition jv_int (v : jv) : int_outcome :=
  match v with
  | JInt z => IntIs z
  | JBool b => IntIs (if b then 1 else 0)%Z
  | JStr s => match str_int s with Some z => IntIs z | None => IntValueErr end
  | JFloat _ => IntUnmodelled
  | JNone | JList _ | JDict _ => IntTypeErr
  end.

(* --- identifiers (Base/Ident.v) as JSON values ---------------------------------------------------------- *)
Definition jv_of_ident (x : ident) : jv :=
  match x with IInt z => JInt z | IStr s => JStr s | INone => JNone end.
Definition ident_of_jv (v : jv) : option ident :=
  match v with
  | JInt z => Some (IInt z)
  | JStr s => Some (IStr s)
  | JNone => Some INone
  | _ => None
  end.

(* ------------------------------------------------------------------------------------------------------ *)
Lemma ident_of_jv_of_ident x : ident_of_jv (jv_of_ident x) = Some x.
Proof. destruct x; reflexivity. Qed.

Lemma jv_of_ident_of_jv v x : ident_of_jv v = Some x -> v = jv_of_ident x.
Proof. destruct v; simpl; intros H; inversion H; reflexivity. Qed.

Lemma jv_eqb_ident a b : jv_eqb (jv_of_ident a) (jv_of_ident b) = ident_eqb a b.
Proof. destruct a, b; reflexivity. Qed.

Lemma jv_str_ident x : jv_str (jv_of_ident x) = Some (str_of_ident x).
Proof. destruct x; reflexivity. Qed.

Lemma jv_hashable_ident x : jv_hashable (jv_of_ident x) = true.
Proof. destruct x; reflexivity. Qed.

Lemma jv_in_idents x l : jv_in (jv_of_ident x) (map jv_of_ident l) = Ident.py_in x l.
Proof.
  unfold jv_in, PyList.py_in, Ident.py_in. induction l as [|y t IH]; simpl; auto.
  rewrite jv_eqb_ident, IH. reflexivity.
Qed.

Lemma jv_eqb_str_r v s : jv_eqb v (JStr s) = match v with JStr t => String.eqb t s | _ => false end.
Proof. destruct v; reflexivity. Qed.
