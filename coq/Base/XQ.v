(* XQ: exact rationals extended with NaN and +-infinity, with numpy/IEEE propagation
   rules (signed zero is NOT modelled: a zero divisor yields the infinity whose sign
   is the sign of the dividend).  This is the number domain of the whole model. *)
From Coq Require Import QArith Qabs ZArith List Bool Lia Setoid Morphisms.
Import ListNotations.
Open Scope Q_scope.

Inductive xq : Type :=
| Fin (q : Q)
| Inf (neg : bool)
| NaN.

Definition xzero : xq := Fin 0.
Definition xone : xq := Fin 1.
Definition xofZ (z : Z) : xq := Fin (inject_Z z).
Definition xofnat (n : nat) : xq := Fin (inject_Z (Z.of_nat n)).

(* --- equivalence ---------------------------------------------------------------- *)
Definition xeq (a b : xq) : Prop :=
  match a, b with
  | Fin p, Fin q => p == q
  | Inf s, Inf t => s = t
  | NaN, NaN => True
  | _, _ => False
  end.
Infix "=x=" := xeq (at level 70, no associativity).

Lemma xeq_refl a : a =x= a.
Proof. destruct a; simpl; auto with qarith. Qed.
Lemma xeq_sym a b : a =x= b -> b =x= a.
Proof. destruct a, b; simpl; auto with qarith. Qed.
Lemma xeq_trans a b c : a =x= b -> b =x= c -> a =x= c.
Proof.
  destruct a, b, c; simpl; try tauto; try congruence.
  intros H1 H2; rewrite H1; exact H2.
Qed.
#[global] Instance xeq_Equivalence : Equivalence xeq.
Proof. split; [exact xeq_refl | exact xeq_sym | exact xeq_trans]. Qed.

(* boolean version, used by the executable model (e.g. "== 0" tests of the code) *)
Definition xeqb (a b : xq) : bool :=
  match a, b with
  | Fin p, Fin q => Qeq_bool p q
  | Inf s, Inf t => Bool.eqb s t
  | _, _ => false          (* NaN == NaN is False in numpy *)
  end.

Definition is_nan (a : xq) : bool := match a with NaN => true | _ => false end.
Definition is_fin (a : xq) : bool := match a with Fin _ => true | _ => false end.

(* --- arithmetic ----------------------------------------------------------------- *)
Definition xneg (a : xq) : xq :=
  match a with Fin q => Fin (- q) | Inf s => Inf (negb s) | NaN => NaN end.

Definition xadd (a b : xq) : xq :=
  match a, b with
  | NaN, _ | _, NaN => NaN
  | Fin p, Fin q => Fin (p + q)
  | Fin _, Inf s | Inf s, Fin _ => Inf s
  | Inf s, Inf t => if Bool.eqb s t then Inf s else NaN
  end.

Definition xsub (a b : xq) : xq := xadd a (xneg b).

Definition qneg (q : Q) : bool := if Qlt_le_dec q 0 then true else false.   (* q < 0 *)
Definition qzero (q : Q) : bool := Qeq_bool q 0.

Definition xmul (a b : xq) : xq :=
  match a, b with
  | NaN, _ | _, NaN => NaN
  | Fin p, Fin q => Fin (p * q)
  | Fin p, Inf s | Inf s, Fin p =>
      if qzero p then NaN else Inf (xorb s (qneg p))
  | Inf s, Inf t => Inf (xorb s t)
  end.

Definition xdiv (a b : xq) : xq :=
  match a, b with
  | NaN, _ | _, NaN => NaN
  | Fin p, Fin q =>
      if qzero q then (if qzero p then NaN else Inf (qneg p)) else Fin (p / q)
  | Fin _, Inf _ => Fin 0
  | Inf s, Fin q => Inf (xorb s (qneg q))
  | Inf _, Inf _ => NaN
  end.

Definition xabs (a : xq) : xq :=
  match a with Fin q => Fin (Qabs q) | Inf _ => Inf false | NaN => NaN end.

Definition xsq (a : xq) : xq := xmul a a.

(* --- comparisons (all false when a NaN is involved, as in IEEE) -------------------- *)
Definition xltb (a b : xq) : bool :=
  match a, b with
  | Fin p, Fin q => if Qlt_le_dec p q then true else false
  | Fin _, Inf s => negb s
  | Inf s, Fin _ => s
  | Inf s, Inf t => s && negb t
  | _, _ => false
  end.
Definition xleb (a b : xq) : bool :=
  match a, b with
  | NaN, _ | _, NaN => false
  | _, _ => negb (xltb b a)
  end.

(* sign of a value: -1, 0, 1 ; NaN has no sign (None) *)
Definition xsgn (a : xq) : option Z :=
  match a with
  | Fin q => Some (if qzero q then 0 else if qneg q then -1 else 1)%Z
  | Inf s => Some (if s then -1 else 1)%Z
  | NaN => None
  end.

(* --- sums -------------------------------------------------------------------------- *)
Definition xsum (l : list xq) : xq := fold_right xadd (Fin 0) l.
(* np.nansum: NaN entries count as 0 *)
Definition nansum (l : list xq) : xq :=
  fold_right (fun a acc => if is_nan a then acc else xadd a acc) (Fin 0) l.

Definition xmin (a b : xq) : xq :=
  match a, b with NaN, _ | _, NaN => NaN | _, _ => if xltb b a then b else a end.
Definition xmax (a b : xq) : xq :=
  match a, b with NaN, _ | _, NaN => NaN | _, _ => if xltb a b then b else a end.

(* reduce the fraction (used at stage boundaries to keep vm_compute fast) *)
Definition xred (a : xq) : xq := match a with Fin q => Fin (Qred q) | _ => a end.
Lemma xred_eq a : xred a =x= a.
Proof. destruct a; simpl; auto. apply Qred_correct. Qed.

(* --- morphisms ----------------------------------------------------------------------- *)
Lemma qzero_compat p q : p == q -> qzero p = qzero q.
Proof.
  intros H. unfold qzero.
  destruct (Qeq_bool p 0) eqn:E1, (Qeq_bool q 0) eqn:E2; auto.
  - apply Qeq_bool_iff in E1. rewrite H in E1. apply Qeq_bool_iff in E1. congruence.
  - apply Qeq_bool_iff in E2. rewrite <- H in E2. apply Qeq_bool_iff in E2. congruence.
Qed.
Lemma qneg_compat p q : p == q -> qneg p = qneg q.
Proof.
  intros H. unfold qneg.
  destruct (Qlt_le_dec p 0) as [L1|L1], (Qlt_le_dec q 0) as [L2|L2]; auto; simpl.
  - rewrite H in L1. exfalso. apply (Qlt_not_le _ _ L1 L2).
  - rewrite <- H in L2. exfalso. apply (Qlt_not_le _ _ L2 L1).
Qed.
Lemma qzero_true q : qzero q = true <-> q == 0.
Proof. unfold qzero. apply Qeq_bool_iff. Qed.
Lemma qzero_false q : qzero q = false <-> ~ q == 0.
Proof.
  unfold qzero. split; intros H.
  - intros E. apply Qeq_bool_iff in E. congruence.
  - destruct (Qeq_bool q 0) eqn:E; auto. apply Qeq_bool_iff in E. tauto.
Qed.
Lemma qneg_true q : qneg q = true <-> q < 0.
Proof.
  unfold qneg. destruct (Qlt_le_dec q 0) as [L|L]; simpl; split; auto; try discriminate.
  intros L'. exfalso. apply (Qlt_not_le _ _ L' L).
Qed.
Lemma qneg_false q : qneg q = false <-> 0 <= q.
Proof.
  unfold qneg. destruct (Qlt_le_dec q 0) as [L|L]; simpl; split; auto; try discriminate.
  intros L'. exfalso. apply (Qlt_not_le _ _ L L').
Qed.

#[global] Instance xneg_Proper : Proper (xeq ==> xeq) xneg.
Proof. intros [p|s|] [q|t|]; simpl; try tauto. intros H; rewrite H; reflexivity. congruence. Qed.

#[global] Instance xadd_Proper : Proper (xeq ==> xeq ==> xeq) xadd.
Proof.
  intros [p|s|] [q|t|] H1 [p'|s'|] [q'|t'|] H2; simpl in *; try tauto; subst; auto.
  - rewrite H1, H2; reflexivity.
  - destruct (Bool.eqb t t'); simpl; auto.
Qed.

#[global] Instance xsub_Proper : Proper (xeq ==> xeq ==> xeq) xsub.
Proof. intros a b H1 c d H2. unfold xsub. rewrite H1, H2. reflexivity. Qed.

#[global] Instance xmul_Proper : Proper (xeq ==> xeq ==> xeq) xmul.
Proof.
  intros [p|s|] [q|t|] H1 [p'|s'|] [q'|t'|] H2; simpl in *; try tauto; subst; auto.
  - rewrite H1, H2; reflexivity.
  - rewrite (qzero_compat _ _ H1), (qneg_compat _ _ H1). destruct (qzero q); simpl; auto.
  - rewrite (qzero_compat _ _ H2), (qneg_compat _ _ H2). destruct (qzero q'); simpl; auto.
Qed.

#[global] Instance xdiv_Proper : Proper (xeq ==> xeq ==> xeq) xdiv.
Proof.
  intros [p|s|] [q|t|] H1 [p'|s'|] [q'|t'|] H2; simpl in *; try tauto; subst; auto.
  - rewrite (qzero_compat _ _ H2), (qzero_compat _ _ H1), (qneg_compat _ _ H1).
    destruct (qzero q') eqn:E; [destruct (qzero q); simpl; auto|].
    simpl. rewrite H1, H2. reflexivity.
  - reflexivity.
  - rewrite (qneg_compat _ _ H2). reflexivity.
Qed.

#[global] Instance xabs_Proper : Proper (xeq ==> xeq) xabs.
Proof. intros [p|s|] [q|t|]; simpl; try tauto. intros H; rewrite H; reflexivity. Qed.

#[global] Instance is_nan_Proper : Proper (xeq ==> eq) is_nan.
Proof. intros [p|s|] [q|t|]; simpl; tauto. Qed.

Lemma xeq_Fin p q : p == q -> Fin p =x= Fin q.
Proof. auto. Qed.

(* --- basic facts ------------------------------------------------------------------------ *)
Lemma xadd_comm a b : xadd a b =x= xadd b a.
Proof.
  destruct a as [p|s|], b as [q|t|]; simpl; auto; try ring.
  destruct s, t; simpl; auto.
Qed.

Lemma xadd_0_l a : xadd (Fin 0) a =x= a.
Proof. destruct a; simpl; auto. ring. Qed.
Lemma xadd_0_r a : xadd a (Fin 0) =x= a.
Proof. destruct a; simpl; auto. ring. Qed.

Lemma xmul_comm a b : xmul a b =x= xmul b a.
Proof.
  destruct a as [p|s|], b as [q|t|]; simpl; auto; try ring;
    try (destruct (qzero p); simpl; auto; fail);
    try (destruct (qzero q); simpl; auto; fail).
Qed.

Lemma xdiv_nan_l b : xdiv NaN b = NaN.
Proof. destruct b; reflexivity. Qed.
Lemma xdiv_nan_r a : xdiv a NaN = NaN.
Proof. destruct a; reflexivity. Qed.
Lemma xadd_nan_r a : xadd a NaN = NaN.
Proof. destruct a; reflexivity. Qed.
Lemma xmul_nan_r a : xmul a NaN = NaN.
Proof. destruct a; reflexivity. Qed.

Lemma xdiv_fin p q : ~ q == 0 -> xdiv (Fin p) (Fin q) = Fin (p / q).
Proof. intros H. simpl. apply qzero_false in H. rewrite H. reflexivity. Qed.

Lemma xdiv_zero_zero p q : p == 0 -> q == 0 -> xdiv (Fin p) (Fin q) = NaN.
Proof.
  intros Hp Hq. simpl. apply qzero_true in Hp, Hq. rewrite Hp, Hq. reflexivity.
Qed.

(* all-finite sums *)
Fixpoint qsum (l : list Q) : Q := match l with [] => 0 | q :: t => q + qsum t end.
Lemma xsum_fin l : xsum (map Fin l) = Fin (qsum l).
Proof. induction l as [|q t IH]; simpl; auto. rewrite IH. reflexivity. Qed.

Lemma xadd_assoc a b c : xadd a (xadd b c) =x= xadd (xadd a b) c.
Proof.
  destruct a as [p|[|]|], b as [q|[|]|], c as [r|[|]|]; simpl; auto; ring.
Qed.

Lemma xsum_app l1 l2 : xsum (l1 ++ l2) =x= xadd (xsum l1) (xsum l2).
Proof.
  induction l1 as [|a t IH]; simpl.
  - symmetry. apply xadd_0_l.
  - rewrite IH. apply xadd_assoc.
Qed.
