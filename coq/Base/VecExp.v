(* Base/VecExp.v -- the meaning of the LIST-LEVEL numpy code of
     src/cr/cube/smoothing.py            (Smoother.factory, _SingleSidedMovingAvgSmoother)
     src/cr/cube/matrix/measure.py       (_BaseMarginal, _BaseScaledCountMarginal, _ScaleMean, _ScaleMeanSmoothed,
                                          _ScaleMedian, _ScaleMeanStddev, _ScaleMeanStderr, the smoothed measures)
     src/cr/cube/stripe/measure.py       (_ScaledCounts, _MeansSmoothed)
   as far as the source translator harness/translate/x_scale.py reads them.

   [vexp] is the deep-embedded sub-language emitted into Gen/SmoothingSrc.v, Gen/ScaleSrc.v and
   Gen/StripeScaleSrc.v (one term per (class, member); local names, `self.<lazyproperty>`,
   `self._method(args)`, static methods passed as functions and the smoother object built by
   `Smoother.factory` are inlined by the translator).  [veval] is its meaning.

   Unlike Base/MeasureExp.v (cell-wise, axis tags) and Base/SubtotalExp.v (views), VALUES ARE CONCRETE
   LISTS here: a 1-D float array is a [list xq], a 2-D float array of shape (n, c) is [VM c m] with
   m a list of n rows of length c (the column count is explicit so that (0, c) and (n, 0) exist),
   boolean masks are [list bool], index arrays [list nat], Python lists / tuples [VL].  Each numpy
   function the code uses is one definition over lists, written the way numpy's documentation
   defines it:

     a[mask]  a[:, mask]  a[mask, :]  a[:, k]  a[k, :]  a[idx]  a[[i, j]]  a.take(idx, axis)  a[k]  a[k:]  a[:-1]
     np.isnan  ~  np.all  np.sum / np.nansum (axis = None, 0, 1)   * / - + on equal shapes, with a
     scalar, and of an (n, k) with an (n, 1) array (a.reshape(-1, 1))     pow(x, 2)    .T  .shape  .ndim  .size
     .reshape(-1, 1)   np.broadcast_to(v, (n, k))   np.ones(w)   np.convolve(a, v, mode="valid")
     np.full(shape, x)   np.concatenate([a, b], axis)   np.array(..)   np.apply_along_axis
     np.nan_to_num  np.cumsum  np.argmax (of a boolean array)  np.mean  x.argsort()  np.argwhere
     np.setdiff1d(a, b, assume_unique=True)   np.repeat  .astype("int64")  np.median   np.sqrt

   Everything numpy would raise on (index out of range, shapes that do not match, np.convolve of
   an empty array, np.argmax of an empty array, np.apply_along_axis over an empty iteration
   dimension, x[-1] of an empty array, ..) evaluates to [VErr]: a restriction, never an extension --
   when [veval] yields a value, numpy yields the same one.  numpy's length-1 broadcasting is only
   modelled for (n, k) op a.reshape(-1, 1).  A GenAgree lemma is only provable for a non-error value, so the
   guards of the source (`if arr.shape[1 - axis] == 0`, `if not self.is_defined: raise`,
   `_can_smooth`) are needed for the lemmas to hold.

   SQUARE ROOTS never get a numeric value: np.sqrt(a) evaluates to the ROOT VALUE [VRS] / [VRV] that
   carries the argument (NaN when the argument is negative: [root_arg]); the quotient of two roots
   is the root of the quotient (both are non-negative), nothing else is defined on roots.  This is
   the convention of the whole development (the harness compares squares).

   x.argsort() is not a function of x alone (the order of equal keys is unspecified for numpy's
   default sort): it is a field of the environment; the lemmas quantify over every function that
   returns an ascending permutation with the NaNs last.

   TRUSTED: this file IS the reading of numpy / Python the GenAgree tie of x_scale.py relies on.
   Not modelled: dtype (ints vs floats of arrays), warnings (`warnings.warn(..)` is skipped by the
   translator, `with np.errstate(..)` is transparent), views vs copies, signed zero, float rounding
   and summation order (exact rationals), np.nan_to_num of an infinity ([VErr]). *)
From Coq Require Import QArith ZArith List Bool Lia Arith String.
From CC Require Import Base.XQ Base.ListX.
Import ListNotations.
Local Close Scope Q_scope.
Local Close Scope string_scope.
Local Open Scope nat_scope.

(* ------------------------------------------------------------------------------------ *)
(** * syntax *)

Inductive vcmp := CEq | CNe | CLt | CLe | CGt | CGe.

Inductive vexp :=
(* leaves *)
| XVar (s : string)                 (* a parameter of the member / a comprehension variable *)
| XAttr (p : string)                (* self.<p>: an attribute path rooted at a constructor field,
                                       e.g. "_dimensions[1].numeric_values",
                                       "_second_order_measures.weighted_counts.blocks[0][0]" *)
| XGet (p k : string)               (* self.<p>.get("<k>") *)
| XNone | XBool (b : bool) | XInt (z : Z) | XNum (q : Q) | XNan
| XStr (s : string)                 (* a string literal *)
| XEnum (s : string)                (* an enum member: "DT.CAT_DATE", "MO.ROWS" *)
| XRaise                            (* raise ..: no value *)
| XCall1 (f : string) (a : vexp)    (* a function of another module, recorded by name *)
(* Python *)
| XIf (c a b : vexp)                (* `a if c else b`;  `if c: return a` ... `return b` *)
| XNot (a : vexp) | XAnd (a b : vexp) | XOr (a b : vexp)
| XIsNone (a : vexp)                (* a is None *)
| XCmp (op : vcmp) (a b : vexp)
| XAdd (a b : vexp) | XSub (a b : vexp) | XMul (a b : vexp) | XDiv (a b : vexp)
| XSq (a : vexp)                    (* pow(a, 2) / a ** 2 *)
| XItem (a k : vexp)                (* a[k]: k an int, a boolean mask, an index array, a list of ints *)
| XNil | XCons (a l : vexp)         (* [a, b, ..] / (a, b, ..) *)
| XFor (v : string) (src body : vexp)             (* [body for v in src] / (body for v in src) *)
| XZip (v1 v2 : string) (s1 s2 body : vexp)       (* [body for v1, v2 in zip(s1, s2)] *)
| XListOf (a : vexp)                (* list(a) *)
| XTuple (a : vexp)                 (* tuple(a) *)
| XInit (a : vexp)                  (* a[:-1] *)
| XFrom (a k : vexp)                (* a[k:] *)
(* numpy *)
| XNdim (a : vexp) | XSize (a : vexp) | XShape (a : vexp)
| XArray (a : vexp)                 (* np.array(a) / np.array(a, dtype=np.float64) *)
| XIsnan (a : vexp) | XInvert (a : vexp) | XAll (a : vexp)
| XItemCols (a m : vexp)            (* a[:, m] *)
| XItemRows (a m : vexp)            (* a[m, :] *)
| XTakeAx (a idx ax : vexp)         (* a.take(idx, ax) *)
| XSum (a : vexp) (ax : option nat) | XNansum (a : vexp) (ax : option nat)
| XOnes (w : vexp)                  (* np.ones(w) *)
| XConvValid (a v : vexp)           (* np.convolve(a, v, mode="valid") *)
| XFull (shape x : vexp)            (* np.full(shape, x) *)
| XConcat (l ax : vexp)             (* np.concatenate(l, axis=ax) *)
| XApply (v : string) (body ax arr : vexp)
      (* np.apply_along_axis(lambda v: body, ax, arr) *)
| XBroadcast (a shape : vexp)       (* np.broadcast_to(a, shape) *)
| XColumn (a : vexp)                (* a.reshape(-1, 1) *)
| XT (a : vexp)                     (* a.T *)
| XSqrt (a : vexp)                  (* np.sqrt(a) *)
| XNanToNum (a : vexp) | XCumsum (a : vexp) | XArgmax (a : vexp) | XMean (a : vexp)
| XArgsort (a : vexp)               (* a.argsort() *)
| XArgwhere (a : vexp)              (* np.argwhere(a), a 1-D *)
| XSetdiff (a b : vexp)             (* np.setdiff1d(a, b, assume_unique=True) *)
| XAstypeInt (a : vexp)             (* a.astype("int64") *)
| XRepeat (a n : vexp)              (* np.repeat(a, n) *)
| XMedian (a : vexp).               (* np.median(a) *)

(* ------------------------------------------------------------------------------------ *)
(** * values *)

Inductive vval :=
| VErr
| VNone
| VB (b : bool)
| VZ (z : Z)                        (* a Python int *)
| VS (x : xq)                       (* a float scalar *)
| VStr (s : string)
| VEnum (s : string)
| VV (l : list xq)                  (* 1-D float array *)
| VM (nc : nat) (m : list (list xq))  (* 2-D float array of shape (length m, nc) *)
| VBV (l : list bool)               (* 1-D boolean array *)
| VIV (l : list nat)                (* 1-D array of non-negative ints (indexes, counts) *)
| VCol (l : list xq)                (* the (n, 1) array a.reshape(-1, 1) of a 1-D array a *)
| VRS (x : xq)                      (* np.sqrt(x'), where x = root_arg x' *)
| VRV (l : list xq)                 (* element-wise roots *)
| VL (l : list vval).               (* Python list / tuple *)

Record venv := mkVenv {
  e_var : string -> vval;
  e_attr : string -> vval;
  e_get : string -> string -> vval;
  e_call : string -> vval -> vval;
  e_argsort : list xq -> list nat }.

Definition bind (E : venv) (v : string) (x : vval) : venv :=
  mkVenv (fun s => if String.eqb s v then x else e_var E s) (e_attr E) (e_get E) (e_call E) (e_argsort E).

(* ------------------------------------------------------------------------------------ *)
(** * numpy / Python on lists *)

Definition zq (z : Z) : xq := Fin (inject_Z z).

Definition map2 {A B C} (f : A -> B -> C) (a : list A) (b : list B) : list C :=
  map (fun p => f (fst p) (snd p)) (combine a b).

(* Python index normalisation of x[k] for a sequence of n elements *)
Definition zidx (n : nat) (k : Z) : option nat :=
  if (0 <=? k)%Z then (if (k <? Z.of_nat n)%Z then Some (Z.to_nat k) else None)
  else if (- Z.of_nat n <=? k)%Z then Some (Z.to_nat (Z.of_nat n + k)) else None.

(* a[mask]: the elements where the mask is True (the mask must have a's length) *)
Definition mask_take {A} (l : list A) (m : list bool) : list A :=
  map fst (filter (fun p => snd p) (combine l m)).
(* a[idx] *)
Definition idx_take {A} (d : A) (l : list A) (idx : list nat) : list A := map (fun i => nth i l d) idx.
Definition all_lt (n : nat) (idx : list nat) : bool := forallb (fun i => i <? n) idx.

Definition count_true (m : list bool) : nat := List.length (filter (fun b => b) m).

(* np.convolve(a, v, mode="valid"), both non-empty.  numpy: the discrete convolution
   (a * v)[k] = sum_j a[k - j] v[j]; "valid" returns the max(M, N) - min(M, N) + 1 points where
   the two sequences overlap completely, and the operands are swapped when v is the longer.
   With the signal s (n points) and the kernel k (m <= n points): out[t] = sum_{j<m} s[t+m-1-j] k[j] *)
Definition conv_valid (a v : list xq) : list xq :=
  let s := if List.length v <=? List.length a then a else v in
  let k := if List.length v <=? List.length a then v else a in
  tab (List.length s - List.length k + 1)
      (fun t => xsum (tab (List.length k)
                          (fun j => xmul (vnth s (t + List.length k - 1 - j)) (vnth k j)))).

(* np.cumsum: out[k] = a[0] + .. + a[k] *)
Fixpoint cumsum_x (acc : xq) (l : list xq) : list xq :=
  match l with
  | [] => []
  | c :: t => xadd acc c :: cumsum_x (xadd acc c) t
  end.

Fixpoint first_true_v (l : list bool) : nat :=
  match l with
  | [] => 0
  | true :: _ => 0
  | false :: t => S (first_true_v t)
  end.
(* np.argmax of a non-empty boolean array: the first True, 0 when there is none *)
Definition argmax_v (l : list bool) : nat :=
  let k := first_true_v l in if k <? List.length l then k else 0.

(* np.argwhere(mask) of a 1-D mask: the positions of the True entries *)
Definition where_true (m : list bool) : list nat :=
  map fst (filter (fun p => snd p) (combine (seq 0 (List.length m)) m)).

Fixpoint mem_n (x : nat) (l : list nat) : bool :=
  match l with [] => false | y :: t => (x =? y) || mem_n x t end.
(* np.setdiff1d(a, b, assume_unique=True): the elements of a that are not in b, IN THE ORDER OF a *)
Definition setdiff_keep (a b : list nat) : list nat := filter (fun i => negb (mem_n i b)) a.

(* the argument of np.sqrt: a negative one gives NaN *)
Definition root_arg (a : xq) : xq :=
  match a with
  | Fin q => if qneg q then NaN else a
  | Inf true => NaN
  | _ => a
  end.

(* np.nan_to_num of one entry; an infinity (-> the largest float) is not modelled *)
Definition nan0 (a : xq) : option xq :=
  match a with NaN => Some (Fin 0%Q) | Fin q => Some a | Inf _ => None end.
Fixpoint opt_all {A} (l : list (option A)) : option (list A) :=
  match l with
  | [] => Some []
  | Some x :: t => match opt_all t with Some r => Some (x :: r) | None => None end
  | None :: _ => None
  end.

(* float -> int64 of a finite non-negative value truncates toward zero; anything else (negative,
   non-finite) is not modelled *)
Definition trunc_nat (a : xq) : option nat :=
  match a with
  | Fin q => if qneg q then None else Some (Z.to_nat (Z.quot (Qnum q) (Zpos (Qden q))))
  | _ => None
  end.

(* np.repeat(values, counts): values[i] repeated counts[i] times *)
Definition repeat_each (vals : list xq) (cnt : list nat) : list xq :=
  flat_map (fun vc => repeat (fst vc) (snd vc)) (combine vals cnt).

(* np.median of a non-empty array of FINITE values: the middle of the sorted array (the mean of
   the two middle values when the length is even); [xq_ins] sorts ascending *)
Fixpoint xq_ins (x : xq) (l : list xq) : list xq :=
  match l with
  | [] => [x]
  | y :: t => if xleb x y then x :: l else y :: xq_ins x t
  end.
Definition xq_sort (l : list xq) : list xq := fold_right xq_ins [] l.
Definition median_sorted (s : list xq) : xq :=
  let n := List.length s in
  if Nat.even n then xdiv (xadd (vnth s (n / 2 - 1)) (vnth s (n / 2))) (Fin 2%Q) else vnth s (n / 2).

(* ------------------------------------------------------------------------------------ *)
(** * value-level dispatch *)

Definition as_scalar (v : vval) : option xq :=
  match v with VS x => Some x | VZ z => Some (zq z) | _ => None end.

(* Python truthiness, where it is defined without ambiguity *)
Definition truthy (v : vval) : option bool :=
  match v with
  | VB b => Some b
  | VNone => Some false
  | VZ z => Some (negb (z =? 0)%Z)
  | VStr s => Some (negb (String.eqb s EmptyString))
  | _ => None
  end.

Definition cmp_x (op : vcmp) (a b : xq) : bool :=
  match op with
  | CEq => xeqb a b
  | CNe => negb (xeqb a b)
  | CLt => xltb a b
  | CLe => xleb a b
  | CGt => xltb b a
  | CGe => xleb b a
  end.
Definition cmp_z (op : vcmp) (a b : Z) : bool :=
  match op with
  | CEq => (a =? b)%Z
  | CNe => negb (a =? b)%Z
  | CLt => (a <? b)%Z
  | CLe => (a <=? b)%Z
  | CGt => (b <? a)%Z
  | CGe => (b <=? a)%Z
  end.

Definition v_cmp (op : vcmp) (a b : vval) : vval :=
  match a, b with
  | VZ x, VZ y => VB (cmp_z op x y)
  | VStr x, VStr y =>
      match op with CEq => VB (String.eqb x y) | CNe => VB (negb (String.eqb x y)) | _ => VErr end
  | VEnum x, VEnum y =>
      match op with CEq => VB (String.eqb x y) | CNe => VB (negb (String.eqb x y)) | _ => VErr end
  | VV l, _ => match as_scalar b with Some y => VBV (map (fun x => cmp_x op x y) l) | None => VErr end
  | _, _ =>
      match as_scalar a, as_scalar b with
      | Some x, Some y => VB (cmp_x op x y)
      | _, _ => VErr
      end
  end.

Inductive vop := OAdd | OSub | OMul | ODiv.
Definition op_x (o : vop) : xq -> xq -> xq :=
  match o with OAdd => xadd | OSub => xsub | OMul => xmul | ODiv => xdiv end.

Definition v_bin (o : vop) (a b : vval) : vval :=
  match a, b with
  | VZ x, VZ y =>
      match o with
      | OAdd => VZ (x + y) | OSub => VZ (x - y) | OMul => VZ (x * y)
      | ODiv => VS (xdiv (zq x) (zq y))
      end
  | VL x, VL y => match o with OAdd => VL (x ++ y) | _ => VErr end
  | VV x, VV y => if List.length x =? List.length y then VV (map2 (op_x o) x y) else VErr
  | VM c x, VM c' y =>
      if List.length x =? List.length y then
        if c =? c' then VM c (map2 (map2 (op_x o)) x y) else VErr
      else VErr
  | VM c x, VCol y =>     (* (n, c) op (n, 1): the column is broadcast along the rows *)
      if List.length x =? List.length y
      then VM c (map2 (fun r u => map (fun a => op_x o a u) r) x y) else VErr
  | VRS x, VRS y => match o with ODiv => VRS (xdiv x y) | _ => VErr end
  | VRV x, VRV y =>
      match o with
      | ODiv => if List.length x =? List.length y then VRV (map2 xdiv x y) else VErr
      | _ => VErr
      end
  | VV x, VRV y =>        (* only the EMPTY float array (np.array([])) against an empty array of roots *)
      match o with
      | ODiv => if (List.length x =? 0) && (List.length y =? 0) then VRV [] else VErr
      | _ => VErr
      end
  | VV x, _ => match as_scalar b with Some y => VV (map (fun u => op_x o u y) x) | None => VErr end
  | VM c x, _ => match as_scalar b with Some y => VM c (map (map (fun u => op_x o u y)) x) | None => VErr end
  | _, VV y => match as_scalar a with Some x => VV (map (fun u => op_x o x u) y) | None => VErr end
  | _, VM c y => match as_scalar a with Some x => VM c (map (map (fun u => op_x o x u)) y) | None => VErr end
  | _, _ =>
      match as_scalar a, as_scalar b with
      | Some x, Some y => VS (op_x o x y)
      | _, _ => VErr
      end
  end.

Definition v_sq (a : vval) : vval :=
  match a with
  | VS x => VS (xsq x)
  | VV l => VV (map xsq l)
  | VM c m => VM c (map (map xsq) m)
  | _ => VErr
  end.

Definition v_item (a k : vval) : vval :=
  match a, k with
  | VL l, VZ z => match zidx (List.length l) z with Some i => nth i l VErr | None => VErr end
  | VV l, VZ z => match zidx (List.length l) z with Some i => VS (vnth l i) | None => VErr end
  | VV l, VBV m => if List.length m =? List.length l then VV (mask_take l m) else VErr
  | VV l, VIV idx => if all_lt (List.length l) idx then VV (idx_take NaN l idx) else VErr
  | VV l, VL [VZ i; VZ j] =>
      match zidx (List.length l) i, zidx (List.length l) j with
      | Some i', Some j' => VV [vnth l i'; vnth l j']
      | _, _ => VErr
      end
  | _, _ => VErr
  end.

Definition v_cons (a l : vval) : vval :=
  match a, l with
  | VErr, _ => VErr
  | _, VL t => VL (a :: t)
  | _, _ => VErr
  end.

(* the elements a `for x in e` iterates over *)
Definition items_of (v : vval) : option (list vval) :=
  match v with
  | VL l => Some l
  | VV l => Some (map VS l)
  | VM _ m => Some (map VV m)
  | _ => None
  end.

Definition has_err (l : list vval) : bool :=
  existsb (fun v => match v with VErr => true | _ => false end) l.
Definition v_list (l : list vval) : vval := if has_err l then VErr else VL l.

Definition v_init (a : vval) : vval :=
  match a with
  | VL l => VL (removelast l)
  | _ => VErr
  end.

Definition v_from (a k : vval) : vval :=
  match a, k with
  | VV l, VZ z => if (0 <=? z)%Z then VV (skipn (Z.to_nat z) l) else VErr
  | _, _ => VErr
  end.

Definition v_ndim (a : vval) : vval :=
  match a with VV _ => VZ 1 | VM _ _ => VZ 2 | _ => VErr end.
Definition v_size (a : vval) : vval :=
  match a with
  | VV l => VZ (Z.of_nat (List.length l))
  | VM c m => VZ (Z.of_nat (List.length m * c))
  | _ => VErr
  end.
Definition v_shape (a : vval) : vval :=
  match a with
  | VV l => VL [VZ (Z.of_nat (List.length l))]
  | VM c m => VL [VZ (Z.of_nat (List.length m)); VZ (Z.of_nat c)]
  | _ => VErr
  end.

Definition row_of (v : vval) : option (list xq) := match v with VV l => Some l | _ => None end.
Definition scal_of (v : vval) : option xq := match v with VS x => Some x | _ => None end.

(* np.array(x): an array stays what it is; a list of scalars is 1-D (the empty list too); a
   non-empty list of 1-D arrays of ONE length is 2-D *)
Definition v_array (a : vval) : vval :=
  match a with
  | VV l => VV l
  | VM c m => VM c m
  | VL l =>
      match opt_all (map scal_of l) with
      | Some xs => VV xs
      | None =>
          match opt_all (map row_of l) with
          | Some rows =>
              if forallb (fun r' => List.length r' =? List.length (hd [] rows)) rows
              then VM (List.length (hd [] rows)) rows else VErr
          | None => VErr
          end
      end
  | _ => VErr
  end.

Definition v_isnan (a : vval) : vval :=
  match a with VV l => VBV (map is_nan l) | VS x => VB (is_nan x) | _ => VErr end.
Definition v_invert (a : vval) : vval :=
  match a with VBV l => VBV (map negb l) | VB b => VB (negb b) | _ => VErr end.
Definition v_all (a : vval) : vval :=
  match a with VBV l => VB (forallb (fun b => b) l) | VB b => VB b | _ => VErr end.

Definition v_item_cols (a k : vval) : vval :=
  match a, k with
  | VM c m, VBV mk =>
      if List.length mk =? c then VM (count_true mk) (map (fun r => mask_take r mk) m) else VErr
  | VM c m, VIV idx =>
      if all_lt c idx then VM (List.length idx) (map (fun r => idx_take NaN r idx) m) else VErr
  | VM c m, VZ k =>       (* a[:, k]: one column as a 1-D array *)
      match zidx c k with Some j => VV (mcol m j) | None => VErr end
  | _, _ => VErr
  end.
Definition v_item_rows (a k : vval) : vval :=
  match a, k with
  | VM c m, VBV mk => if List.length mk =? List.length m then VM c (mask_take m mk) else VErr
  | VM c m, VIV idx => if all_lt (List.length m) idx then VM c (idx_take [] m idx) else VErr
  | VM c m, VZ k =>       (* a[k, :]: one row as a 1-D array *)
      match zidx (List.length m) k with Some i => VV (nth i m []) | None => VErr end
  | _, _ => VErr
  end.
Definition v_take_ax (a idx ax : vval) : vval :=
  match ax with
  | VZ 0 => v_item_rows a idx
  | VZ 1 => v_item_cols a idx
  | _ => VErr
  end.

Definition cols_of (c : nat) (m : list (list xq)) : list (list xq) := tab c (fun j => mcol m j).

Definition v_reduce (f : list xq -> xq) (a : vval) (ax : option nat) : vval :=
  match a, ax with
  | VV l, None => VS (f l)
  | VV l, Some 0 => VS (f l)
  | VM c m, None => VS (f (List.concat m))
  | VM c m, Some 1 => VV (map f m)
  | VM c m, Some 0 => VV (map f (cols_of c m))
  | _, _ => VErr
  end.

Definition v_ones (w : vval) : vval :=
  match w with
  | VZ z => if (0 <=? z)%Z then VV (repeat (Fin 1%Q) (Z.to_nat z)) else VErr
  | _ => VErr
  end.
Definition v_conv (a v : vval) : vval :=
  match a, v with
  | VV x, VV y =>
      if (List.length x =? 0) || (List.length y =? 0) then VErr else VV (conv_valid x y)
  | _, _ => VErr
  end.

Definition v_full (shape x : vval) : vval :=
  match shape, x with
  | VL [VZ n], VS y => if (0 <=? n)%Z then VV (repeat y (Z.to_nat n)) else VErr
  | VL [VZ r; VZ c], VS y =>
      if (0 <=? r)%Z && (0 <=? c)%Z
      then VM (Z.to_nat c) (repeat (repeat y (Z.to_nat c)) (Z.to_nat r)) else VErr
  | _, _ => VErr
  end.

Definition v_concat (l ax : vval) : vval :=
  match l, ax with
  | VL [VV a; VV b], VZ 0 => VV (a ++ b)
  | VL [VM c a; VM c' b], VZ 1 =>
      if List.length a =? List.length b then VM (c + c') (map2 (@app xq) a b) else VErr
  | VL [VM c a; VM c' b], VZ 0 => if c =? c' then VM c (a ++ b) else VErr
  | _, _ => VErr
  end.

Definition v_broadcast (a shape : vval) : vval :=
  match a, shape with
  | VV l, VL [VZ n; VZ k] =>
      if (0 <=? n)%Z && (k =? Z.of_nat (List.length l))%Z
      then VM (List.length l) (repeat l (Z.to_nat n)) else VErr
  | _, _ => VErr
  end.
Definition v_column (a : vval) : vval :=
  match a with VV l => VCol l | _ => VErr end.
Definition v_T (a : vval) : vval :=
  match a with VM c m => VM (List.length m) (cols_of c m) | _ => VErr end.
Definition v_sqrt (a : vval) : vval :=
  match a with VS x => VRS (root_arg x) | VV l => VRV (map root_arg l) | _ => VErr end.

Definition v_nan_to_num (a : vval) : vval :=
  match a with
  | VV l => match opt_all (map nan0 l) with Some r => VV r | None => VErr end
  | _ => VErr
  end.
Definition v_cumsum (a : vval) : vval :=
  match a with VV l => VV (cumsum_x (Fin 0%Q) l) | _ => VErr end.
Definition v_argmax (a : vval) : vval :=
  match a with
  | VBV l => if List.length l =? 0 then VErr else VZ (Z.of_nat (argmax_v l))
  | _ => VErr
  end.
Definition v_mean (a : vval) : vval :=
  match a with
  | VV l => if List.length l =? 0 then VErr else VS (xdiv (xsum l) (zq (Z.of_nat (List.length l))))
  | _ => VErr
  end.
Definition v_argwhere (a : vval) : vval :=
  match a with VBV l => VIV (where_true l) | _ => VErr end.
Definition v_setdiff (a b : vval) : vval :=
  match a, b with VIV x, VIV y => VIV (setdiff_keep x y) | _, _ => VErr end.
Definition v_astype_int (a : vval) : vval :=
  match a with
  | VV l => match opt_all (map trunc_nat l) with Some r => VIV r | None => VErr end
  | _ => VErr
  end.
Definition v_repeat (a n : vval) : vval :=
  match a, n with
  | VV l, VIV c => if List.length l =? List.length c then VV (repeat_each l c) else VErr
  | _, _ => VErr
  end.
Definition v_median (a : vval) : vval :=
  match a with
  | VV l => if (List.length l =? 0) || negb (forallb is_fin l) then VErr else VS (median_sorted (xq_sort l))
  | _ => VErr
  end.

Definition v_if (c a b : vval) : vval :=
  match truthy c with Some true => a | Some false => b | None => VErr end.

Definition v_not (a : vval) : vval :=
  match truthy a with Some b => VB (negb b) | None => VErr end.
(* Python's `a and b` / `a or b` return one of the operands *)
Definition v_and (a b : vval) : vval :=
  match truthy a with Some true => b | Some false => a | None => VErr end.
Definition v_or (a b : vval) : vval :=
  match truthy a with Some true => a | Some false => b | None => VErr end.
Definition v_isnone (a : vval) : vval :=
  match a with VNone => VB true | VErr => VErr | _ => VB false end.
Definition v_listof (a : vval) : vval := match a with VL l => VL l | _ => VErr end.
(* tuple(a) of a 1-D array: the sequence of its scalars (np.array of it is the array again) *)
Definition v_tuple (a : vval) : vval := match a with VV l => VV l | VL l => VL l | _ => VErr end.
Definition v_argsort (srt : list xq -> list nat) (a : vval) : vval :=
  match a with VV l => VIV (srt l) | _ => VErr end.

(* [body for v in src] *)
Definition v_for (f : vval -> vval) (src : vval) : vval :=
  match items_of src with
  | Some its => v_list (map f its)
  | None => VErr
  end.
(* [body for v1, v2 in zip(s1, s2)] (only for sequences of equal length) *)
Definition v_zip (f : vval -> vval -> vval) (s1 s2 : vval) : vval :=
  match items_of s1, items_of s2 with
  | Some i1, Some i2 =>
      if List.length i1 =? List.length i2
      then v_list (map (fun p => f (fst p) (snd p)) (combine i1 i2))
      else VErr
  | _, _ => VErr
  end.

(* np.apply_along_axis(f, ax, arr): f on every 1-D slice along ax; the results must be scalars;
   numpy raises when an iteration dimension is empty *)
Definition apply_slices (ax : vval) (arr : vval) : option (list (list xq)) :=
  match ax, arr with
  | VZ 1, VM c m => if List.length m =? 0 then None else Some m
  | VZ 0, VM c m => if c =? 0 then None else Some (cols_of c m)
  | _, _ => None
  end.

Definition v_apply (f : list xq -> vval) (ax arr : vval) : vval :=
  match apply_slices ax arr with
  | Some sl =>
      match opt_all (map (fun r => scal_of (f r)) sl) with
      | Some xs => VV xs
      | None => VErr
      end
  | None => VErr
  end.

(* ------------------------------------------------------------------------------------ *)
(** * the meaning of a term *)

Fixpoint veval (E : venv) (e : vexp) {struct e} : vval :=
  match e with
  | XVar s => e_var E s
  | XAttr p => e_attr E p
  | XGet p k => e_get E p k
  | XNone => VNone
  | XBool b => VB b
  | XInt z => VZ z
  | XNum q => VS (Fin q)
  | XNan => VS NaN
  | XStr s => VStr s
  | XEnum s => VEnum s
  | XRaise => VErr
  | XCall1 f a => e_call E f (veval E a)
  | XIf c a b => v_if (veval E c) (veval E a) (veval E b)
  | XNot a => v_not (veval E a)
  | XAnd a b => v_and (veval E a) (veval E b)
  | XOr a b => v_or (veval E a) (veval E b)
  | XIsNone a => v_isnone (veval E a)
  | XCmp op a b => v_cmp op (veval E a) (veval E b)
  | XAdd a b => v_bin OAdd (veval E a) (veval E b)
  | XSub a b => v_bin OSub (veval E a) (veval E b)
  | XMul a b => v_bin OMul (veval E a) (veval E b)
  | XDiv a b => v_bin ODiv (veval E a) (veval E b)
  | XSq a => v_sq (veval E a)
  | XItem a k => v_item (veval E a) (veval E k)
  | XNil => VL []
  | XCons a l => v_cons (veval E a) (veval E l)
  | XFor v src body => v_for (fun x => veval (bind E v x) body) (veval E src)
  | XZip v1 v2 s1 s2 body =>
      v_zip (fun x y => veval (bind (bind E v1 x) v2 y) body) (veval E s1) (veval E s2)
  | XListOf a => v_listof (veval E a)
  | XTuple a => v_tuple (veval E a)
  | XInit a => v_init (veval E a)
  | XFrom a k => v_from (veval E a) (veval E k)
  | XNdim a => v_ndim (veval E a)
  | XSize a => v_size (veval E a)
  | XShape a => v_shape (veval E a)
  | XArray a => v_array (veval E a)
  | XIsnan a => v_isnan (veval E a)
  | XInvert a => v_invert (veval E a)
  | XAll a => v_all (veval E a)
  | XItemCols a m => v_item_cols (veval E a) (veval E m)
  | XItemRows a m => v_item_rows (veval E a) (veval E m)
  | XTakeAx a idx ax => v_take_ax (veval E a) (veval E idx) (veval E ax)
  | XSum a ax => v_reduce xsum (veval E a) ax
  | XNansum a ax => v_reduce nansum (veval E a) ax
  | XOnes w => v_ones (veval E w)
  | XConvValid a v => v_conv (veval E a) (veval E v)
  | XFull s x => v_full (veval E s) (veval E x)
  | XConcat l ax => v_concat (veval E l) (veval E ax)
  | XApply v body ax arr =>
      v_apply (fun r => veval (bind E v (VV r)) body) (veval E ax) (veval E arr)
  | XBroadcast a s => v_broadcast (veval E a) (veval E s)
  | XColumn a => v_column (veval E a)
  | XT a => v_T (veval E a)
  | XSqrt a => v_sqrt (veval E a)
  | XNanToNum a => v_nan_to_num (veval E a)
  | XCumsum a => v_cumsum (veval E a)
  | XArgmax a => v_argmax (veval E a)
  | XMean a => v_mean (veval E a)
  | XArgsort a => v_argsort (e_argsort E) (veval E a)
  | XArgwhere a => v_argwhere (veval E a)
  | XSetdiff a b => v_setdiff (veval E a) (veval E b)
  | XAstypeInt a => v_astype_int (veval E a)
  | XRepeat a n => v_repeat (veval E a) (veval E n)
  | XMedian a => v_median (veval E a)
  end.

(* ------------------------------------------------------------------------------------ *)
(** * statement shapes: agreement up to [=x=] on the numbers *)

Definition vxeq_l (a b : list xq) : Prop := Forall2 xeq a b.
Definition mxeq_l (a b : list (list xq)) : Prop := Forall2 (Forall2 xeq) a b.

(* [vagrees v w]: the evaluation yielded the value w (never an error), numbers up to Qeq *)
Fixpoint vagrees (v w : vval) {struct v} : Prop :=
  match v, w with
  | VNone, VNone => True
  | VB a, VB b => a = b
  | VZ a, VZ b => a = b
  | VS a, VS b => a =x= b
  | VStr a, VStr b => a = b
  | VEnum a, VEnum b => a = b
  | VV a, VV b => vxeq_l a b
  | VM c a, VM c' b => c = c' /\ mxeq_l a b
  | VBV a, VBV b => a = b
  | VIV a, VIV b => a = b
  | VCol a, VCol b => vxeq_l a b
  | VRS a, VRS b => a =x= b
  | VRV a, VRV b => vxeq_l a b
  | VL a, VL b =>
      (fix go (x y : list vval) {struct x} : Prop :=
         match x, y with
         | [], [] => True
         | p :: x', q :: y' => vagrees p q /\ go x' y'
         | _, _ => False
         end) a b
  | _, _ => False
  end.
