(* SortX: facts about sorting used by the ordering properties (C07, C08, C09).

   * a list that is sorted for an antisymmetric order is the ONLY sorted permutation of
     its elements ([sorted_perm_unique]) - so theorems about "the result of sorting"
     hold for any correct sorting algorithm (Python's timsort included), not only for
     the insertion sort [isort] the executable model uses;
   * [isort] returns a sorted permutation and is stable;
   * the lexicographic order on (position, rel, idx) triples of integers used by the
     anchored collators, and helper lemmas on [StronglySorted] of appended / flat-mapped
     lists and on permutations of filtered lists. *)
From Coq Require Import List Sorting Permutation ZArith Lia Bool Arith.
Import ListNotations.

(* --- StronglySorted helpers ---------------------------------------------------------- *)
Section SS.
  Context {A : Type} (le : A -> A -> Prop).

  Lemma SS_app l1 l2 :
    StronglySorted le l1 -> StronglySorted le l2 ->
    (forall a b, In a l1 -> In b l2 -> le a b) ->
    StronglySorted le (l1 ++ l2).
  Proof.
    induction l1 as [|x t IH]; intros H1 H2 H; simpl; auto.
    inversion H1; subst. constructor.
    - apply IH; auto. intros a b Ha Hb. apply H; simpl; auto.
    - apply Forall_app. split; auto.
      apply Forall_forall. intros b Hb. apply H; simpl; auto.
  Qed.

  Lemma SS_app_inv l1 l2 :
    StronglySorted le (l1 ++ l2) ->
    StronglySorted le l1 /\ StronglySorted le l2 /\
    (forall a b, In a l1 -> In b l2 -> le a b).
  Proof.
    induction l1 as [|x t IH]; simpl; intros H.
    - repeat split; auto. constructor. intros a b [].
    - inversion H; subst. destruct (IH H2) as (S1 & S2 & S3).
      rewrite Forall_app in H3. destruct H3 as [F1 F2].
      repeat split; auto.
      + constructor; auto.
      + intros a b [->|Ha] Hb; [rewrite Forall_forall in F2; auto | auto].
  Qed.

  Lemma SS_singleton x : StronglySorted le [x].
  Proof. constructor; constructor. Qed.

  (* blocks g x laid out along a list l: sorted if each block is and the blocks are
     ordered like l *)
  Lemma SS_flat_map {B} (g : B -> list A) (l : list B) :
    (forall x, In x l -> StronglySorted le (g x)) ->
    StronglySorted (fun x y => forall a b, In a (g x) -> In b (g y) -> le a b) l ->
    StronglySorted le (flat_map g l).
  Proof.
    induction l as [|x t IH]; intros Hg Hl; simpl; [constructor|].
    inversion Hl; subst. apply SS_app.
    - apply Hg; simpl; auto.
    - apply IH; auto. intros y Hy. apply Hg; simpl; auto.
    - intros a b Ha Hb. apply in_flat_map in Hb. destruct Hb as (y & Hy & Hb).
      rewrite Forall_forall in H2. exact (H2 y Hy a b Ha Hb).
  Qed.

  Lemma SS_filter (p : A -> bool) l : StronglySorted le l -> StronglySorted le (filter p l).
  Proof.
    induction 1 as [|x t Ht IH Hx]; simpl; [constructor|].
    destruct (p x); auto. constructor; auto.
    rewrite Forall_forall in *. intros y Hy. apply filter_In in Hy. apply Hx, Hy.
  Qed.

  Lemma SS_map {B} (f : B -> A) (leB : B -> B -> Prop) l :
    (forall x y, leB x y -> le (f x) (f y)) ->
    StronglySorted leB l -> StronglySorted le (map f l).
  Proof.
    intros Hf. induction 1 as [|x t Ht IH Hx]; simpl; constructor; auto.
    rewrite Forall_forall in *. intros y Hy. apply in_map_iff in Hy.
    destruct Hy as (z & <- & Hz). auto.
  Qed.

  Lemma SS_nth l d i j :
    StronglySorted le l -> i < j -> j < length l -> le (nth i l d) (nth j l d).
  Proof.
    intros H. revert i j. induction H as [|x t Ht IH Hx]; intros i j Hij Hj; simpl in Hj; [lia|].
    destruct j as [|j]; [lia|]. destruct i as [|i]; simpl.
    - rewrite Forall_forall in Hx. apply Hx. apply nth_In. lia.
    - apply IH; lia.
  Qed.

  (* uniqueness of the sorted permutation; antisymmetry is only needed between members
     of the list (so that keys with pairwise distinct tie-breakers qualify) *)
  Lemma sorted_perm_unique_local l1 : forall l2,
    StronglySorted le l1 -> StronglySorted le l2 -> Permutation l1 l2 ->
    (forall a b, In a l1 -> In b l1 -> le a b -> le b a -> a = b) ->
    l1 = l2.
  Proof.
    induction l1 as [|a t1 IH]; intros l2 S1 S2 P Anti.
    - apply Permutation_nil in P. auto.
    - destruct l2 as [|b t2].
      + apply Permutation_sym, Permutation_nil in P. discriminate.
      + inversion S1; subst. inversion S2; subst.
        assert (a = b) as ->.
        { assert (Hb : In b (a :: t1)) by (eapply Permutation_in; [apply Permutation_sym, P|simpl; auto]).
          assert (Ha : In a (b :: t2)) by (eapply Permutation_in; [apply P|simpl; auto]).
          destruct Hb as [->|Hb]; auto. destruct Ha as [->|Ha]; auto.
          rewrite Forall_forall in H2, H4.
          apply Anti; simpl; auto. }
        f_equal. apply IH; auto.
        * eapply Permutation_cons_inv; eauto.
        * intros x y Hx Hy. apply Anti; simpl; auto.
  Qed.

  Lemma sorted_perm_unique l1 l2 :
    (forall a b, le a b -> le b a -> a = b) ->
    StronglySorted le l1 -> StronglySorted le l2 -> Permutation l1 l2 -> l1 = l2.
  Proof. intros Anti S1 S2 P. apply sorted_perm_unique_local; auto. Qed.
End SS.

(* --- insertion sort ------------------------------------------------------------------ *)
Section ISort.
  Context {A : Type} (leb : A -> A -> bool).

  Fixpoint insert (x : A) (l : list A) : list A :=
    match l with
    | [] => [x]
    | y :: t => if leb x y then x :: l else y :: insert x t
    end.
  Fixpoint isort (l : list A) : list A :=
    match l with [] => [] | x :: t => insert x (isort t) end.

  Lemma insert_perm x l : Permutation (insert x l) (x :: l).
  Proof.
    induction l as [|y t IH]; simpl; auto.
    destruct (leb x y); auto.
    rewrite IH. apply perm_swap.
  Qed.

  Lemma isort_perm l : Permutation (isort l) l.
  Proof.
    induction l as [|x t IH]; simpl; auto.
    rewrite insert_perm. auto.
  Qed.

  Definition lebP (a b : A) : Prop := leb a b = true.

  Lemma insert_sorted x l :
    (forall a b, leb a b = true \/ leb b a = true) ->
    (forall a b c, leb a b = true -> leb b c = true -> leb a c = true) ->
    StronglySorted lebP l -> StronglySorted lebP (insert x l).
  Proof.
    intros Tot Tr. induction 1 as [|y t Ht IH Hy]; simpl.
    - apply SS_singleton.
    - destruct (leb x y) eqn:E.
      + constructor; [constructor; auto|]. constructor; [exact E|].
        rewrite Forall_forall in *. intros z Hz. eapply Tr; [exact E|]. apply Hy, Hz.
      + constructor; auto.
        assert (Hyx : leb y x = true) by (destruct (Tot x y); congruence).
        rewrite Forall_forall in *. intros z Hz.
        apply (Permutation_in _ (insert_perm x t)) in Hz. destruct Hz as [<-|Hz]; auto.
  Qed.

  Lemma isort_sorted l :
    (forall a b, leb a b = true \/ leb b a = true) ->
    (forall a b c, leb a b = true -> leb b c = true -> leb a c = true) ->
    StronglySorted lebP (isort l).
  Proof.
    intros Tot Tr. induction l as [|x t IH]; simpl; [constructor|].
    apply insert_sorted; auto.
  Qed.

  (* an already sorted list is left alone (so: the sort is stable on sorted input) *)
  Lemma insert_head x l :
    Forall (fun y => leb x y = true) l -> insert x l = x :: l.
  Proof. destruct l as [|y t]; simpl; auto. intros H. inversion H; subst. rewrite H2. reflexivity. Qed.

  Lemma isort_id l : StronglySorted lebP l -> isort l = l.
  Proof.
    induction 1 as [|x t Ht IH Hx]; simpl; auto.
    rewrite IH. apply insert_head. exact Hx.
  Qed.

  (* stability: elements that compare equal (both ways) keep their relative order.
     Stated through [filter]: the subsequence of the elements equivalent to x is the
     same before and after sorting. *)
  Lemma insert_filter_eqv (p : A -> bool) x l :
    (forall y, p y = true -> In y l -> leb x y = true) -> p x = true ->
    filter p (insert x l) = x :: filter p l.
  Proof.
    intros H Hx. induction l as [|y t IH]; simpl.
    - rewrite Hx. reflexivity.
    - destruct (leb x y) eqn:E; simpl.
      + rewrite Hx. reflexivity.
      + destruct (p y) eqn:Py.
        * rewrite (H y Py) in E by (simpl; auto). discriminate.
        * apply IH. intros z Pz Hz. apply H; simpl; auto.
  Qed.

  Lemma insert_filter_other (p : A -> bool) x l :
    p x = false -> filter p (insert x l) = filter p l.
  Proof.
    intros Hx. induction l as [|y t IH]; simpl.
    - rewrite Hx. reflexivity.
    - destruct (leb x y); simpl; [rewrite Hx; reflexivity|].
      rewrite IH. reflexivity.
  Qed.

  (* for a class [p] of mutually <=-related elements, sorting keeps its subsequence *)
  Lemma isort_stable (p : A -> bool) l :
    (forall x y, p x = true -> p y = true -> leb x y = true) ->
    filter p (isort l) = filter p l.
  Proof.
    intros H. induction l as [|x t IH]; simpl; auto.
    destruct (p x) eqn:Px.
    - rewrite insert_filter_eqv; auto. rewrite IH. reflexivity.
    - rewrite insert_filter_other; auto.
  Qed.
End ISort.

(* --- permutations of filtered lists --------------------------------------------------- *)
Lemma filter_or_perm {A} (p q : A -> bool) l :
  (forall x, In x l -> p x = true -> q x = true -> False) ->
  Permutation (filter (fun x => p x || q x) l) (filter p l ++ filter q l).
Proof.
  induction l as [|x t IH]; intros D; simpl; auto.
  assert (IH' := IH (fun y Hy => D y (or_intror Hy))).
  destruct (p x) eqn:Px, (q x) eqn:Qx; simpl.
  - exfalso. eapply D; simpl; eauto.
  - constructor. exact IH'.
  - rewrite IH'. apply Permutation_middle.
  - exact IH'.
Qed.

Lemma filter_true_id {A} (p : A -> bool) l :
  (forall x, In x l -> p x = true) -> filter p l = l.
Proof.
  induction l as [|x t IH]; intros H; simpl; auto.
  rewrite H by (simpl; auto). f_equal. apply IH. intros y Hy. apply H; simpl; auto.
Qed.

Lemma filter_false_nil {A} (p : A -> bool) l :
  (forall x, In x l -> p x = false) -> filter p l = [].
Proof.
  induction l as [|x t IH]; intros H; simpl; auto.
  rewrite H by (simpl; auto). apply IH. intros y Hy. apply H; simpl; auto.
Qed.

Lemma filter_ext_in' {A} (p q : A -> bool) l :
  (forall x, In x l -> p x = q x) -> filter p l = filter q l.
Proof.
  induction l as [|x t IH]; intros H; simpl; auto.
  rewrite H by (simpl; auto). rewrite IH; auto. intros y Hy. apply H; simpl; auto.
Qed.

(* interleaving: a list of singletons and a list of blocks, both laid out along l *)
Lemma perm_interleave {A B} (f : B -> A) (g1 g2 : B -> list A) (l : list B) :
  Permutation (map f l ++ flat_map (fun x => g1 x ++ g2 x) l)
              (flat_map (fun x => g1 x ++ [f x] ++ g2 x) l).
Proof.
  induction l as [|x t IH]; simpl; auto.
  rewrite <- !app_assoc. simpl.
  apply Permutation_cons_app.
  rewrite <- IH.
  rewrite !app_assoc. apply Permutation_app_tail.
  rewrite <- (app_assoc (map f t)). apply Permutation_app_comm.
Qed.

(* --- the lexicographic order on (position, rel, idx) ---------------------------------- *)
Local Open Scope Z_scope.
Definition key : Type := (Z * Z * Z)%type.
Definition kidx (k : key) : Z := snd k.

Definition key_le (a b : key) : Prop :=
  let '(p1, r1, i1) := a in let '(p2, r2, i2) := b in
  p1 < p2 \/ (p1 = p2 /\ (r1 < r2 \/ (r1 = r2 /\ i1 <= i2))).

Definition key_leb (a b : key) : bool :=
  let '(p1, r1, i1) := a in let '(p2, r2, i2) := b in
  (p1 <? p2) || ((p1 =? p2) && ((r1 <? r2) || ((r1 =? r2) && (i1 <=? i2)))).

Lemma key_leb_le a b : key_leb a b = true <-> key_le a b.
Proof.
  destruct a as [[p1 r1] i1], b as [[p2 r2] i2]. unfold key_leb, key_le.
  rewrite !orb_true_iff, !andb_true_iff, !orb_true_iff, !andb_true_iff,
    !Z.ltb_lt, !Z.eqb_eq, Z.leb_le. tauto.
Qed.

Lemma key_le_antisym a b : key_le a b -> key_le b a -> a = b.
Proof.
  destruct a as [[p1 r1] i1], b as [[p2 r2] i2]. unfold key_le. intros H1 H2.
  assert (p1 = p2 /\ r1 = r2 /\ i1 = i2) as (-> & -> & ->) by lia. reflexivity.
Qed.

Lemma key_le_trans a b c : key_le a b -> key_le b c -> key_le a c.
Proof.
  destruct a as [[p1 r1] i1], b as [[p2 r2] i2], c as [[p3 r3] i3]. unfold key_le. lia.
Qed.

Lemma key_le_total a b : key_le a b \/ key_le b a.
Proof. destruct a as [[p1 r1] i1], b as [[p2 r2] i2]. unfold key_le. lia. Qed.

Lemma key_leb_total a b : key_leb a b = true \/ key_leb b a = true.
Proof. rewrite !key_leb_le. apply key_le_total. Qed.

Lemma key_leb_trans a b c : key_leb a b = true -> key_leb b c = true -> key_leb a c = true.
Proof. rewrite !key_leb_le. apply key_le_trans. Qed.

Definition ksort (l : list key) : list key := isort key_leb l.

Lemma ksort_sorted l : StronglySorted key_le (ksort l).
Proof.
  unfold ksort.
  assert (H := isort_sorted key_leb l key_leb_total key_leb_trans).
  clear -H. induction H as [|x t Ht IH Hx]; constructor; auto.
  rewrite Forall_forall in *. intros y Hy. apply key_leb_le. apply Hx, Hy.
Qed.

Lemma ksort_perm l : Permutation (ksort l) l.
Proof. apply isort_perm. Qed.

(* THE uniqueness statement used by C07: whatever algorithm produced a sorted
   permutation of the keys, it produced this list. *)
Lemma key_sorted_unique (l s : list key) :
  Permutation s l -> StronglySorted key_le s -> s = ksort l.
Proof.
  intros P S. apply (sorted_perm_unique key_le); auto.
  - apply key_le_antisym.
  - apply ksort_sorted.
  - rewrite P. apply Permutation_sym, ksort_perm.
Qed.

Lemma Sorted_key_strong l : Sorted key_le l -> StronglySorted key_le l.
Proof. apply Sorted_StronglySorted. intros a b c. apply key_le_trans. Qed.
