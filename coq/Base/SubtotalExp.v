(* Base/SubtotalExp.v -- the meaning of the SUBTOTAL STRATEGIES of
     src/cr/cube/matrix/subtotals.py   (_BaseSubtotals, SumSubtotals, PositiveTermSubtotals,
                                        NegativeTermSubtotals, NanSubtotals, WaveDiffSubtotal)
     src/cr/cube/stripe/insertion.py   (the strand twins)
   as far as the third source translator (harness/translate/subtotals.py) reads them.

   [sexp] is the deep-embedded sub-language emitted into Gen/SubtotalsSrc.v and
   Gen/StripeInsertionSrc.v (one term per (class, member); for `_blocks` / `blocks` one term per
   block; local names, `self.<lazyproperty>`, `self._method(args)` and the constructor call of a
   classmethod are inlined by the translator).  [seval] is its meaning.

   A term speaks about
     * the ARRAY arguments of the strategy's constructor, by parameter name ([SArr "base_values"],
       [SArr "counts"], [SArr "default_insertions"] ..): matrices in matrix/subtotals.py, vectors
       in stripe/insertion.py -- the shape is the environment's;
     * its BOOLEAN arguments ([KParam "diff_cols_nan"]);
     * the `_Subtotal` objects: a member's own parameters ([RArg 0] = `subtotal` / `row_subtotal`,
       [RArg 1] = `column_subtotal`) or the variable of a loop over `dimensions[0].subtotals`
       ([RLoop Rows]) / `dimensions[1].subtotals` ([RLoop Cols]); of a subtotal only
       `.addend_idxs` / `.subtrahend_idxs` are read ([IAdd r], [ISub r]): lists of base-vector
       offsets -- the representation of Model/Subtotals.v ([mkSub addends subtrahends]), here a
       pair so that this file stays in Base;
     * `default`, the parameter of WaveDiffSubtotal's members / the variable zipped with the
       subtotals ([SDflt]).

   VALUES ARE VIEWS, the way numpy's are: a vector [SVV a f] is the sequence  f j, j over the axis
   a, and an axis is either a full range [ARange n] or a list of offsets [AList l] (the result of
   FANCY INDEXING  e[idxs] / e[idxs, :] / e[:, idxs], which is only defined when every offset is
   in range: numpy raises IndexError otherwise -- negative offsets do not exist in [nat]).
   So  np.sum(base[:, idxs], axis=1)  evaluates to  fun i => xsum (map (fun j => base i j) idxs),
   literally the shape of Model/Subtotals.v's [sum_cols].  Arithmetic is cell-wise on EQUAL shapes
   (or with a scalar); numpy's length-1 broadcasting is not modelled (the value is [SVErr]): a
   restriction, never an extension -- when [seval] yields a value, numpy yields the same one.
   A GenAgree lemma is only provable for a non-error value.

   BLOCK ASSEMBLY follows numpy as well: np.hstack / np.vstack of an EMPTY list raise (hence the
   `if len(subtotals) == 0: return np.empty(..)` guards of the source are needed for the lemmas to
   hold), every `.reshape(n, 1)` column must have n elements, np.vstack needs rows of one
   length, `np.array([.. for r in rows for c in cols]).reshape(R, C)` is row-major and needs
   R * C elements, `zip` is only given a meaning for sequences of equal length.

   TRUSTED: this file IS the reading of numpy / Python (fancy indexing, e[k, :], np.sum over an axis,
   cell-wise - / + * and true division, np.full, np.empty of an empty shape, np.array of a list of
   scalars, hstack / vstack / reshape, `len(x) > k`, `and` / `or` / `not`, `if c: return a`) the
   third GenAgree tie relies on.  Not modelled: dtype (np.full(shape, 0) is an int array), warnings,
   views vs copies, signed zero, float rounding and summation order (exact rationals). *)
From Coq Require Import QArith ZArith List Bool Lia Arith String.
From CC Require Import Base.XQ Base.ListX.
Import ListNotations.
Local Close Scope Q_scope.
Local Close Scope string_scope.
Local Open Scope nat_scope.

(* ------------------------------------------------------------------------------------ *)
(** * syntax *)

(* dimensions[0] / rows_dimension, dimensions[1] *)
Inductive sdir := Rows | Cols.

(* a `_Subtotal` object *)
Inductive sref :=
| RArg (k : nat)          (* the k-th subtotal-valued parameter of the member itself *)
| RLoop (d : sdir).       (* the variable of the (innermost) loop over the subtotals of d *)

Inductive idxs :=
| IAdd (r : sref)         (* r.addend_idxs *)
| ISub (r : sref).        (* r.subtrahend_idxs *)

(* an integer used as a length *)
Inductive sdim :=
| NLit (k : nat)
| NShape (a : string) (ax : nat)     (* self.<a>.shape[ax] *)
| NLenSubs (d : sdir).               (* len(<subtotals of d>) *)

Inductive scond :=
| KParam (p : string)                (* a boolean constructor argument *)
| KLenGt (l : idxs) (k : nat)        (* len(l) > k *)
| KNoSubs (d : sdir)                 (* len(<subtotals of d>) == 0 *)
| KDate (d : sdir)                   (* <dimension d>.dimension_type == DT.CAT_DATE *)
| KAnd (a b : scond) | KOr (a b : scond) | KNot (a : scond).

Inductive sexp :=
| SArr (a : string)                  (* self.<field bound to the array argument a> *)
| SDflt                              (* `default` *)
| SNum (q : Q)                       (* a numeric literal *)
| SNan                               (* np.nan *)
| SFull (n : sdim) (x : sexp)        (* np.full(n, x), x a scalar *)
| SFullLike (a : string) (x : sexp)  (* np.full(self.<a>.shape, x) *)
| SEmptyCols (n : sdim)              (* np.empty((n, 0)) *)
| SEmptyRows (n : sdim)              (* np.empty((0, n)) *)
| SEmptyVec                          (* np.array([]) *)
| STake (e : sexp) (l : idxs)        (* e[l], e 1-D *)
| STakeRows (e : sexp) (l : idxs)    (* e[l, :] *)
| STakeCols (e : sexp) (l : idxs)    (* e[:, l] *)
| SRow (e : sexp) (k : nat)          (* e[k, :] *)
| SSum (e : sexp) (ax : option nat)  (* np.sum(e, axis=k) / np.sum(e) *)
| SAdd (a b : sexp) | SSub (a b : sexp) | SMul (a b : sexp) | SDiv (a b : sexp)
| ST (e : sexp)                      (* e.T *)
| SIf (c : scond) (a b : sexp)       (* `if c: return a` ... `return b`;  a if c else b *)
(* the four comprehensions; z = Some e: `for subtotal, default in zip(<subtotals of d>, e)`,
   z = None: `for subtotal in <subtotals of d>` *)
| SHstack (d : sdir) (n : sdim) (z : option sexp) (body : sexp)
      (* np.hstack([body.reshape(n, 1) for ..]) *)
| SVstack (d : sdir) (z : option sexp) (body : sexp)
      (* np.vstack([body for ..]) *)
| SVecOf (d : sdir) (z : option sexp) (body : sexp)
      (* np.array([body for ..]): body scalars -> 1-D; body vectors of one length -> 2-D, but the
         1-D empty array when there is nothing to iterate over (OverlapSubtotals._subtotal_rows) *)
| SGrid (d1 d2 : sdir) (body : sexp) (r c : sdim).
      (* np.array([body for s1 in <subtotals of d1> for s2 in <subtotals of d2>]).reshape(r, c) *)

(* ------------------------------------------------------------------------------------ *)
(** * values *)

Inductive saxis := ARange (n : nat) | AList (l : list nat).

Definition ax_len (a : saxis) : nat := match a with ARange n => n | AList l => List.length l end.
Definition ax_list (a : saxis) : list nat := match a with ARange n => seq 0 n | AList l => l end.
(* the offset at position k of the axis *)
Definition ax_nth (a : saxis) (k : nat) : nat := match a with ARange _ => k | AList l => nth k l 0 end.
(* the axis of e[L] *)
Definition ax_take (a : saxis) (L : list nat) : saxis :=
  match a with ARange _ => AList L | AList l => AList (map (fun k => nth k l 0) L) end.

Inductive sval :=
| SVErr
| SVS (x : xq)
| SVV (a : saxis) (f : nat -> xq)
| SVM (ra ca : saxis) (f : nat -> nat -> xq).

Definition sub_t := (list nat * list nat)%type.      (* (addend_idxs, subtrahend_idxs) *)
Definition nil_sub : sub_t := ([], []).

Record senv := mkSenv {
  v_arr : string -> sval;            (* array arguments of the constructor, by name *)
  v_flag : string -> bool;           (* boolean arguments of the constructor, by name *)
  v_subs : sdir -> list sub_t;       (* the subtotals of a dimension *)
  v_date : sdir -> bool;             (* the dimension is a categorical date *)
  v_arg : nat -> sub_t;              (* the member's own subtotal parameters *)
  v_loop : sdir -> sub_t;            (* loop variables *)
  v_dflt : sval }.                   (* `default` *)

Definition sdir_eqb (a b : sdir) : bool :=
  match a, b with Rows, Rows | Cols, Cols => true | _, _ => false end.

Definition with_iter (E : senv) (d : sdir) (it : sub_t * sval) : senv :=
  mkSenv (v_arr E) (v_flag E) (v_subs E) (v_date E) (v_arg E)
         (fun d' => if sdir_eqb d' d then fst it else v_loop E d') (snd it).

Definition ref_of (E : senv) (r : sref) : sub_t :=
  match r with RArg k => v_arg E k | RLoop d => v_loop E d end.
Definition idx_of (E : senv) (l : idxs) : list nat :=
  match l with IAdd r => fst (ref_of E r) | ISub r => snd (ref_of E r) end.

Definition inrange (n : nat) (l : list nat) : bool := forallb (fun i => i <? n) l.

Definition dim_of (E : senv) (n : sdim) : option nat :=
  match n with
  | NLit k => Some k
  | NShape a ax =>
      match v_arr E a, ax with
      | SVM ra _ _, 0 => Some (ax_len ra)
      | SVM _ ca _, 1 => Some (ax_len ca)
      | SVV a' _, 0 => Some (ax_len a')
      | _, _ => None
      end
  | NLenSubs d => Some (List.length (v_subs E d))
  end.

Fixpoint keval (E : senv) (c : scond) : bool :=
  match c with
  | KParam p => v_flag E p
  | KLenGt l k => k <? List.length (idx_of E l)
  | KNoSubs d => match v_subs E d with [] => true | _ => false end
  | KDate d => v_date E d
  | KAnd a b => keval E a && keval E b
  | KOr a b => keval E a || keval E b
  | KNot a => negb (keval E a)
  end.

(* cell-wise arithmetic on equal shapes / with a scalar *)
Definition sbin (op : xq -> xq -> xq) (u v : sval) : sval :=
  match u, v with
  | SVS x, SVS y => SVS (op x y)
  | SVS x, SVV a g => SVV a (fun i => op x (g i))
  | SVV a f, SVS y => SVV a (fun i => op (f i) y)
  | SVS x, SVM ra ca g => SVM ra ca (fun i j => op x (g i j))
  | SVM ra ca f, SVS y => SVM ra ca (fun i j => op (f i j) y)
  | SVV a f, SVV b g =>
      if ax_len a =? ax_len b
      then SVV (ARange (ax_len a)) (fun i => op (f (ax_nth a i)) (g (ax_nth b i)))
      else SVErr
  | SVM ra ca f, SVM rb cb g =>
      if ax_len ra =? ax_len rb then
        if ax_len ca =? ax_len cb
        then SVM (ARange (ax_len ra)) (ARange (ax_len ca))
                 (fun i j => op (f (ax_nth ra i) (ax_nth ca j)) (g (ax_nth rb i) (ax_nth cb j)))
        else SVErr
      else SVErr
  | _, _ => SVErr
  end.

(* the elements a `for x in e` / `zip(.., e)` iterates over *)
Definition rows_of (v : sval) : option (list sval) :=
  match v with
  | SVM ra ca f => Some (map (fun i => SVV ca (f i)) (ax_list ra))
  | SVV a f => Some (map (fun i => SVS (f i)) (ax_list a))
  | _ => None
  end.

Definition iter_items (E : senv) (d : sdir) (z : option sval) : option (list (sub_t * sval)) :=
  match z with
  | None => Some (map (fun s => (s, v_dflt E)) (v_subs E d))
  | Some v =>
      match rows_of v with
      | Some rs => if List.length rs =? List.length (v_subs E d) then Some (combine (v_subs E d) rs) else None
      | None => None
      end
  end.

Definition is_vec_len (n : nat) (v : sval) : bool :=
  match v with SVV a _ => ax_len a =? n | _ => false end.
Definition vec_at (v : sval) (i : nat) : xq :=
  match v with SVV a f => f (ax_nth a i) | _ => NaN end.
Definition is_scal (v : sval) : bool := match v with SVS _ => true | _ => false end.
Definition scal_of (v : sval) : xq := match v with SVS x => x | _ => NaN end.

(* np.hstack([v.reshape(n, 1) for v in vals]) *)
Definition hstack_vals (n : nat) (vals : list sval) : sval :=
  match vals with
  | [] => SVErr
  | _ :: _ =>
      if forallb (is_vec_len n) vals
      then SVM (ARange n) (ARange (List.length vals)) (fun i k => vec_at (nth k vals SVErr) i)
      else SVErr
  end.

(* np.vstack(vals), vals 1-D *)
Definition vstack_vals (vals : list sval) : sval :=
  match vals with
  | SVV a _ :: _ =>
      if forallb (is_vec_len (ax_len a)) vals
      then SVM (ARange (List.length vals)) (ARange (ax_len a)) (fun k j => vec_at (nth k vals SVErr) j)
      else SVErr
  | _ => SVErr
  end.

(* np.array(vals): vals scalars, or vectors of one length *)
Definition vecof_vals (vals : list sval) : sval :=
  match vals with
  | SVV _ _ :: _ => vstack_vals vals
  | _ =>
      if forallb is_scal vals
      then SVV (ARange (List.length vals)) (fun k => scal_of (nth k vals SVErr))
      else SVErr
  end.

(* np.array(flat).reshape(R, C), flat scalars *)
Definition grid_vals (R C : nat) (flat : list sval) : sval :=
  if forallb is_scal flat then
    if R * C =? List.length flat
    then SVM (ARange R) (ARange C) (fun k l => scal_of (nth (k * C + l) flat SVErr))
    else SVErr
  else SVErr.

(* ------------------------------------------------------------------------------------ *)
(** * the meaning of a term *)

Fixpoint seval (E : senv) (e : sexp) {struct e} : sval :=
  match e with
  | SArr a => v_arr E a
  | SDflt => v_dflt E
  | SNum q => SVS (Fin q)
  | SNan => SVS NaN
  | SFull n x =>
      match dim_of E n, seval E x with
      | Some k, SVS v => SVV (ARange k) (fun _ => v)
      | _, _ => SVErr
      end
  | SFullLike a x =>
      match v_arr E a, seval E x with
      | SVM ra ca _, SVS v => SVM (ARange (ax_len ra)) (ARange (ax_len ca)) (fun _ _ => v)
      | SVV a' _, SVS v => SVV (ARange (ax_len a')) (fun _ => v)
      | _, _ => SVErr
      end
  | SEmptyCols n =>
      match dim_of E n with
      | Some k => SVM (ARange k) (ARange 0) (fun _ _ => NaN)
      | None => SVErr
      end
  | SEmptyRows n =>
      match dim_of E n with
      | Some k => SVM (ARange 0) (ARange k) (fun _ _ => NaN)
      | None => SVErr
      end
  | SEmptyVec => SVV (ARange 0) (fun _ => NaN)
  | STake a l =>
      match seval E a with
      | SVV ax f =>
          if inrange (ax_len ax) (idx_of E l) then SVV (ax_take ax (idx_of E l)) f else SVErr
      | _ => SVErr
      end
  | STakeRows a l =>
      match seval E a with
      | SVM ra ca f =>
          if inrange (ax_len ra) (idx_of E l) then SVM (ax_take ra (idx_of E l)) ca f else SVErr
      | _ => SVErr
      end
  | STakeCols a l =>
      match seval E a with
      | SVM ra ca f =>
          if inrange (ax_len ca) (idx_of E l) then SVM ra (ax_take ca (idx_of E l)) f else SVErr
      | _ => SVErr
      end
  | SRow a k =>
      match seval E a with
      | SVM ra ca f => if k <? ax_len ra then SVV ca (f (ax_nth ra k)) else SVErr
      | _ => SVErr
      end
  | SSum a ax =>
      match seval E a, ax with
      | SVM ra ca f, Some 0 => SVV ca (fun j => xsum (map (fun i => f i j) (ax_list ra)))
      | SVM ra ca f, Some 1 => SVV ra (fun i => xsum (map (fun j => f i j) (ax_list ca)))
      | SVV a' f, None => SVS (xsum (map f (ax_list a')))
      | SVV a' f, Some 0 => SVS (xsum (map f (ax_list a')))
      | _, _ => SVErr
      end
  | SAdd a b => sbin xadd (seval E a) (seval E b)
  | SSub a b => sbin xsub (seval E a) (seval E b)
  | SMul a b => sbin xmul (seval E a) (seval E b)
  | SDiv a b => sbin xdiv (seval E a) (seval E b)
  | ST a =>
      match seval E a with
      | SVM ra ca f => SVM ca ra (fun i j => f j i)
      | v => v
      end
  | SIf c a b => if keval E c then seval E a else seval E b
  | SHstack d n z body =>
      match dim_of E n,
            iter_items E d (match z with Some ze => Some (seval E ze) | None => None end) with
      | Some nn, Some items => hstack_vals nn (map (fun it => seval (with_iter E d it) body) items)
      | _, _ => SVErr
      end
  | SVstack d z body =>
      match iter_items E d (match z with Some ze => Some (seval E ze) | None => None end) with
      | Some items => vstack_vals (map (fun it => seval (with_iter E d it) body) items)
      | None => SVErr
      end
  | SVecOf d z body =>
      match iter_items E d (match z with Some ze => Some (seval E ze) | None => None end) with
      | Some items => vecof_vals (map (fun it => seval (with_iter E d it) body) items)
      | None => SVErr
      end
  | SGrid d1 d2 body r c =>
      match dim_of E r, dim_of E c with
      | Some R, Some C =>
          grid_vals R C
            (List.concat
               (map (fun s1 =>
                       map (fun s2 =>
                              seval (with_iter (with_iter E d1 (s1, v_dflt E)) d2 (s2, v_dflt E)) body)
                           (v_subs E d2))
                    (v_subs E d1)))
      | _, _ => SVErr
      end
  end.

(* ------------------------------------------------------------------------------------ *)
(** * statement shapes of the GenAgree lemmas *)

Definition sagrees_scal (v : sval) (x : xq) : Prop :=
  match v with SVS y => y = x | _ => False end.
(* a vector of n elements whose k-th element is g k *)
Definition sagrees_vec (v : sval) (n : nat) (g : nat -> xq) : Prop :=
  match v with
  | SVV a f => ax_len a = n /\ forall i, i < n -> f (ax_nth a i) = g i
  | _ => False
  end.
(* an r x c matrix whose (i, j) element is g i j *)
Definition sagrees_mat (v : sval) (r c : nat) (g : nat -> nat -> xq) : Prop :=
  match v with
  | SVM ra ca f => ax_len ra = r /\ ax_len ca = c /\
                   forall i j, i < r -> j < c -> f (ax_nth ra i) (ax_nth ca j) = g i j
  | _ => False
  end.
