(* Base/PairCtlExp.v -- the meaning of the CONTROL-FLOW members of the pairwise column tests that
   harness/translate/x_pairwise.py reads from src/cr/cube/cubepart.py besides the numeric formulas of
   Base/PairExp.v:

   [jexp]  CubePartition._alpha_values: a decision tree over the dynamically typed JSON value
           transforms["pairwise_indices"]["alpha"] (truthiness, isinstance, chained comparison,
           `for x in value[:2]`, len, sorted) ending in `return (a, b)` or `raise <Error>`;
   [olexp] CubePartition._only_larger: `False if <get with default> is False else True`;
   [dexp]  _Slice._pairwise_significance_{p_vals,t_stats,means_p_vals,means_t_stats}(column_idx): WHICH
           measure of SecondOrderMeasures is asked for WHICH selected column (the signed payload index
           self._column_order_signed_indexes[column_idx]) and assembled; [rcond] the routing test
           _cube_has_overlaps;
   [wexp]  _Slice.pairwise_indices(_alt) / pairwise_means_indices(_alt): WHICH p / t members, WHICH
           alpha, WHICH flag and WHICH own position are handed to the static method
           _pairwise_indices for every display column (the static method itself is read as [bmexp],
           Base/PairExp.v; here its meaning is a field of the environment).

   JSON values are abstracted as far as the code distinguishes them:
     JFalsy            None, absent, [], (), {}, "", 0, 0.0, False
     JFloatV q         a float (q <> 0: else it is falsy)
     JOtherV           any other truthy value that is neither float nor list / tuple
     JList l           a non-empty list / tuple; items: a float or anything else
   An operation Python would reject (comparing a list with a float, slicing a float, returning a
   non-float as alpha) is [JR_stuck] / [None]: it never equals a model result.

   TRUSTED: this file IS the reading of Python's truthiness / isinstance / short-circuit `or` /
   chained comparison / slicing / sorted on that abstraction. *)
From Coq Require Import QArith ZArith List Bool Lia Arith String.
From CC Require Import Base.XQ Base.ListX.
Import ListNotations.
Local Close Scope Q_scope.
Local Close Scope string_scope.
Local Open Scope nat_scope.

(* ------------------------------------------------------------------------------------ *)
(** * alpha parsing *)

Inductive jitem := JFloat (q : Q) | JOther.
Inductive jval := JFalsy | JFloatV (q : Q) | JOtherV | JList (l : list jitem).

Inductive jterm :=
| JV                        (* value *)
| JX                        (* the loop variable of `for x in value[:2]` *)
| JItem (k : nat)           (* value[k] *)
| JConst (q : Q)            (* a float literal *)
| JNone.                    (* None *)

Inductive jcond :=
| JNot (c : jcond)
| JOr (a b : jcond)                     (* short-circuit *)
| JTruthy (t : jterm)                   (* bool(t) *)
| JIsFloat (t : jterm)                  (* isinstance(t, float) *)
| JIsFloatOrSeq (t : jterm)             (* isinstance(t, (float, list, tuple)) *)
| JIn01 (t : jterm)                     (* 0.0 < t < 1.0 *)
| JLenEq (k : nat).                     (* len(value) == k *)

Inductive jexp :=
| JRet (a b : jterm)                    (* return (a, b) *)
| JRetSorted2                           (* return tuple(sorted(value[:2])) *)
| JRaise (e : string)                   (* raise <e>(...) *)
| JIf (c : jcond) (a b : jexp)
| JForFirst2 (c : jcond) (e : string) (k : jexp).
                                        (* for x in value[:2]: if c: raise e(...)   then k *)

Inductive jres := JR_ok (a : Q) (alt : option Q) | JR_raise (e : string) | JR_stuck.

(* a term denotes: a float, None, or something else *)
Inductive jden := D_float (q : Q) | D_none | D_val (v : jval) | D_item_other | D_stuck.

Definition jitem_den (x : jitem) : jden :=
  match x with JFloat q => D_float q | JOther => D_item_other end.

Definition jterm_den (v : jval) (x : option jitem) (t : jterm) : jden :=
  match t with
  | JV => match v with JFloatV q => D_float q | _ => D_val v end
  | JX => match x with Some i => jitem_den i | None => D_stuck end
  | JItem k => match v with
               | JList l => match nth_error l k with Some i => jitem_den i | None => D_stuck end
               | _ => D_stuck
               end
  | JConst q => D_float q
  | JNone => D_none
  end.

Definition q_in01 (q : Q) : bool :=
  (if Qlt_le_dec 0 q then true else false) && (if Qlt_le_dec q 1 then true else false).

Definition jtruthy (d : jden) : option bool :=
  match d with
  | D_float q => Some (negb (Qeq_bool q 0))
  | D_none => Some false
  | D_val JFalsy => Some false
  | D_val (JList []) => Some false
  | D_val _ => Some true
  | D_item_other => None          (* truthiness of an unknown item is not modelled *)
  | D_stuck => None
  end.

Fixpoint jcev (v : jval) (x : option jitem) (c : jcond) : option bool :=
  match c with
  | JNot a => option_map negb (jcev v x a)
  | JOr a b => match jcev v x a with
               | Some true => Some true
               | Some false => jcev v x b
               | None => None
               end
  | JTruthy t => jtruthy (jterm_den v x t)
  | JIsFloat t => match jterm_den v x t with
                  | D_float _ => Some true
                  | D_stuck => None
                  | _ => Some false
                  end
  | JIsFloatOrSeq t => match jterm_den v x t with
                       | D_float _ => Some true
                       | D_val (JList _) => Some true
                       | D_val JFalsy => None      (* [], () and None are all JFalsy: not decided *)
                       | D_stuck => None
                       | _ => Some false
                       end
  | JIn01 t => match jterm_den v x t with
               | D_float q => Some (q_in01 q)
               | _ => None                          (* Python: TypeError, or not modelled *)
               end
  | JLenEq k => match v with
                | JList l => Some (Nat.eqb (List.length l) k)
                | _ => None
                end
  end.

(* for x in l: if c: raise   -> Some true: raised, Some false: fell through *)
Fixpoint jloop (v : jval) (c : jcond) (l : list jitem) : option bool :=
  match l with
  | [] => Some false
  | i :: t => match jcev v (Some i) c with
              | Some true => Some true
              | Some false => jloop v c t
              | None => None
              end
  end.

Fixpoint jev (v : jval) (e : jexp) : jres :=
  match e with
  | JRet a b =>
      match jterm_den v None a, jterm_den v None b with
      | D_float q, D_none => JR_ok q None
      | D_float q, D_float r => JR_ok q (Some r)
      | _, _ => JR_stuck
      end
  | JRetSorted2 =>
      match v with
      | JList (JFloat a :: JFloat b :: _) =>
          if Qlt_le_dec b a then JR_ok b (Some a) else JR_ok a (Some b)
      | _ => JR_stuck
      end
  | JRaise s => JR_raise s
  | JIf c a b => match jcev v None c with
                 | Some true => jev v a
                 | Some false => jev v b
                 | None => JR_stuck
                 end
  | JForFirst2 c s k =>
      match v with
      | JList l => match jloop v c (firstn 2 l) with
                   | Some true => JR_raise s
                   | Some false => jev v k
                   | None => JR_stuck
                   end
      | _ => JR_stuck                               (* value[:2] of a non-sequence *)
      end
  end.

(* ------------------------------------------------------------------------------------ *)
(** * the only_larger flag *)

Inductive jol := JolAbsent | JolFalse | JolTrue | JolOther.   (* transforms.pairwise_indices.only_larger *)

(* (a if <X.get("only_larger", dflt)> is False else b) *)
Inductive olexp := OlIfIsFalse (dflt a b : bool).

Definition olev (e : olexp) (v : jol) : bool :=
  match e with
  | OlIfIsFalse dflt a b =>
      let got := match v with JolAbsent => if dflt then JolTrue else JolFalse | _ => v end in
      match got with JolFalse => a | _ => b end
  end.

(* ------------------------------------------------------------------------------------ *)
(** * which arguments the index sets are computed from *)

Inductive wsrc := WSelf (s : string).     (* self.<s> *)

Inductive wexp :=
| WIndices (pv tv : string) (alpha ol : wsrc)
      (* self._indices_matrix([self._pairwise_indices(self.<pv>(col), self.<tv>(col), alpha, ol, col)
                               for col in range(len(self._column_order_signed_indexes))]) *)
| WNoneIfNone (a : wsrc) (w : wexp).      (* if <a> is None: return None   ...   w *)

Record wenv := mkWenv {
  w_cols : nat;                                        (* len(self._column_order_signed_indexes) *)
  w_mat : string -> nat -> list (list xq);             (* self.<m>(col) *)
  w_scal : string -> option Q;                         (* self.<s>: a float or None *)
  w_flag : string -> bool;
  (* the meaning of the static method (p_vals, t_stats, alpha, only_larger, col_idx) *)
  w_indices : Q -> bool -> nat -> list (list xq) -> list (list xq) -> list (list nat) }.

(* the list of per-column vectors handed to _indices_matrix (its transposition is not modelled) *)
Inductive wres := WR_none | WR_cols (l : list (list (list nat))) | WR_stuck.

Definition wsrc_scal (E : wenv) (s : wsrc) : option Q := match s with WSelf n => w_scal E n end.
Definition wsrc_flag (E : wenv) (s : wsrc) : bool := match s with WSelf n => w_flag E n end.

Fixpoint wev (E : wenv) (w : wexp) : wres :=
  match w with
  | WIndices pv tv a ol =>
      match wsrc_scal E a with
      | Some q => WR_cols (tab (w_cols E)
                               (fun c => w_indices E q (wsrc_flag E ol) c (w_mat E pv c) (w_mat E tv c)))
      | None => WR_stuck                              (* p_vals < None *)
      end
  | WNoneIfNone a k =>
      match wsrc_scal E a with
      | None => WR_none
      | Some _ => wev E k
      end
  end.

(* ------------------------------------------------------------------------------------ *)
(** * which measure, for which selected column, a display column's matrices come from *)

Inductive rcond :=
| RDimIs (d : Z) (t : string)       (* self._dimensions[d].dimension_type == DT.<t> *)
| RCubeGiven (a : string)           (* self._cube.<a> is not None *)
| RAnd (a b : rcond)
| RMember (m : string).             (* self.<m>: a boolean member (read separately) *)

Inductive dsel :=
| DOrderAt                          (* self._column_order_signed_indexes[column_idx] *)
| DParam.                           (* column_idx *)

Inductive dexp :=
| DAssemble (m : string) (k : dsel) (* self._assemble_matrix(self._measures.<m>(k).blocks) *)
| DIf (c : rcond) (a b : dexp).

Record denv := mkDenv {
  d_order : list Z;                                  (* self._column_order_signed_indexes *)
  d_dimtype : Z -> string -> bool;
  d_cube_given : string -> bool;
  d_member : string -> bool;
  d_blocks : string -> Z -> list (list (list xq));   (* self._measures.<m>(k).blocks *)
  d_assemble : list (list (list xq)) -> list (list xq) }.

Fixpoint rcev (E : denv) (c : rcond) : bool :=
  match c with
  | RDimIs d t => d_dimtype E d t
  | RCubeGiven a => d_cube_given E a
  | RAnd a b => rcev E a && rcev E b
  | RMember m => d_member E m
  end.

(* column_idx is a display position 0 <= c; out of range: IndexError = None *)
Definition dsel_val (E : denv) (k : dsel) (c : nat) : option Z :=
  match k with
  | DOrderAt => nth_error (d_order E) c
  | DParam => Some (Z.of_nat c)
  end.

Fixpoint dev (E : denv) (e : dexp) (c : nat) : option (list (list xq)) :=
  match e with
  | DAssemble m k => option_map (fun z => d_assemble E (d_blocks E m z)) (dsel_val E k c)
  | DIf t a b => if rcev E t then dev E a c else dev E b c
  end.

(* ------------------------------------------------------------------------------------ *)
(** * measures/pairwise_significance.py PairwiseSignificance: one column object per displayed column *)

(* what a constructor argument is, by the name of the field / loop variable / parameter it comes from *)
Inductive lwarg := LSlice | LCol | LAlpha | LOnlyLarger.

Inductive lwexp :=
| LWValues (args : list lwarg)
      (* [_ColumnPairwiseSignificance(args..) for col_idx in range(self._slice.shape[1])] *)
| LWMembers (m : string) (v : lwexp)
      (* tuple(sig.<m> for sig in v)  /  an object array filled with [sig.<m> for sig in v] *)
| LWCls (args : list lwarg) (w : lwexp).
      (* cls(args..).<lazyproperty w>   (classmethod; w read with self = that object) *)

Record lwenv (A : Type) := mkLwenv {
  lw_ncols : nat;                                     (* self._slice.shape[1] *)
  (* member m of _ColumnPairwiseSignificance constructed with these arguments for column c *)
  lw_member : string -> list lwarg -> nat -> A }.
Arguments lw_ncols {A}. Arguments lw_member {A}.

(* the constructor of PairwiseSignificance is (slice_, alpha, only_larger) *)
Definition lw_ctor_ok (args : list lwarg) : bool :=
  match args with [LSlice; LAlpha; LOnlyLarger] => true | _ => false end.

Fixpoint lwev {A} (E : lwenv A) (w : lwexp) : option (list A) :=
  match w with
  | LWMembers m (LWValues args) => Some (tab (lw_ncols E) (fun c => lw_member E m args c))
  | LWCls args k => if lw_ctor_ok args then lwev E k else None
  | _ => None
  end.
