(* A normalised abstract syntax for the PUBLIC LAYER of cr.cube (src/cr/cube/cubepart.py: the
   members of CubePartition, _Slice, _Strand, _Nub): what each public property IS in terms of the
   partition's measures (`self._measures.<m>.blocks`), its assembly functions
   (`self._assemble_matrix / _assemble_marginal / _assemble_vector`), the cube and other members.

   harness/translate/x_wiring.py reads every member with Python's `ast` (whitelist, fail-closed)
   and writes its body as a term of [wexp] into Gen/WiringSrc.v on every check:
     * local names are inlined (`x = e; return f(x)` is `f(e)`), docstrings dropped,
       `with np.errstate(..)` is transparent;
     * `if c: return a` followed by the rest r is [WIf c a r];
     * `try: <body> except ValueError: raise ValueError("msg")` is [WTryValueError body msg];
     * `if g: x[idx] = np.nan` on a local x re-binds x to [WSetNan x idx g];
     * everything else outside the listed shapes makes THAT member `None`.
   The obligations (Proofs/GenAgreeWiring*.v, re-exported as Cxx_wiring_* in the Props files) state
   the term each member must be - a readable specification of the public layer, member by member -
   so an edit that changes what a public member computes (another measure, another block, a
   dropped guard, a swapped index list) breaks a proof obligation of the property that owns that
   member, whatever the inputs.  The tie is SYNTACTIC up to inlining of locals: an equivalent
   rewrite is a broken obligation too (reported with no-failing-input-found unless the
   correspondence finds an input).

   [wmeasures_read] / [wselfs_read] give the members a term reads (used to state which measure a
   public member is wired to, independently of the term's exact shape). *)
From Coq Require Import List ZArith String Bool.
Import ListNotations.
Local Open Scope string_scope.
Local Open Scope list_scope.

Inductive wexp : Type :=
| WNone | WTrue | WFalse | WNaN
| WInt (z : Z)
| WFloat (s : string)                 (* a float literal as written: "0.05" *)
| WStr (s : string)
| WVar (x : string)                   (* parameter, comprehension variable, or bare `self` *)
| WSelf (p : string)                  (* self.<p> *)
| WGlobal (g : string)                (* module-level name: Z_975, np, ORDER_FORMAT, MO, ... *)
| WAttr (e : wexp) (a : string)       (* e.<a> *)
| WCall (f : wexp) (args : list wexp) (kw : list (string * wexp))
| WIndex (e : wexp) (i : list wexp)   (* e[i0, i1, ...] *)
| WSlice (lo hi : wexp)               (* lo:hi inside an index; WNone = omitted *)
| WBin (op : string) (a b : wexp)
| WUn (op : string) (a : wexp)
| WCmp (op : string) (a b : wexp)
| WBoolOp (op : string) (l : list wexp)
| WIf (c a b : wexp)
| WTuple (l : list wexp)
| WList (l : list wexp)
| WDict (l : list (wexp * wexp))
| WComp (kind : string) (elt : wexp) (gens : list (list string * wexp * list wexp))
| WLambda (params : list string) (body : wexp)
| WTryValueError (body : wexp) (msg : string)
| WSetNan (target : wexp) (idx : list wexp) (guard : wexp)
| WRaise (exc : string).

(* the measures `self._measures.<m>` a term reads *)
Fixpoint wmeasures_read (e : wexp) : list string :=
  let many := fix many (l : list wexp) : list string :=
    match l with [] => [] | x :: t => wmeasures_read x ++ many t end in
  let kws := fix kws (l : list (string * wexp)) : list string :=
    match l with [] => [] | (_, x) :: t => wmeasures_read x ++ kws t end in
  let prs := fix prs (l : list (wexp * wexp)) : list string :=
    match l with [] => [] | (k, x) :: t => wmeasures_read k ++ wmeasures_read x ++ prs t end in
  let gens := fix gens (l : list (list string * wexp * list wexp)) : list string :=
    match l with [] => [] | (_, it, cs) :: t => wmeasures_read it ++ many cs ++ gens t end in
  match e with
  | WAttr (WSelf "_measures") m => [m]
  | WAttr x _ => wmeasures_read x
  | WCall f a k => wmeasures_read f ++ many a ++ kws k
  | WIndex x i => wmeasures_read x ++ many i
  | WSlice a b => wmeasures_read a ++ wmeasures_read b
  | WBin _ a b | WCmp _ a b => wmeasures_read a ++ wmeasures_read b
  | WUn _ a => wmeasures_read a
  | WBoolOp _ l | WTuple l | WList l => many l
  | WIf c a b => wmeasures_read c ++ wmeasures_read a ++ wmeasures_read b
  | WDict l => prs l
  | WComp _ x g => wmeasures_read x ++ gens g
  | WLambda _ b => wmeasures_read b
  | WTryValueError b _ => wmeasures_read b
  | WSetNan t i g => wmeasures_read t ++ many i ++ wmeasures_read g
  | _ => []
  end.

(* the members `self.<p>` a term reads *)
Fixpoint wselfs_read (e : wexp) : list string :=
  let many := fix many (l : list wexp) : list string :=
    match l with [] => [] | x :: t => wselfs_read x ++ many t end in
  let kws := fix kws (l : list (string * wexp)) : list string :=
    match l with [] => [] | (_, x) :: t => wselfs_read x ++ kws t end in
  let prs := fix prs (l : list (wexp * wexp)) : list string :=
    match l with [] => [] | (k, x) :: t => wselfs_read k ++ wselfs_read x ++ prs t end in
  let gens := fix gens (l : list (list string * wexp * list wexp)) : list string :=
    match l with [] => [] | (_, it, cs) :: t => wselfs_read it ++ many cs ++ gens t end in
  match e with
  | WSelf p => [p]
  | WAttr x _ => wselfs_read x
  | WCall f a k => wselfs_read f ++ many a ++ kws k
  | WIndex x i => wselfs_read x ++ many i
  | WSlice a b => wselfs_read a ++ wselfs_read b
  | WBin _ a b | WCmp _ a b => wselfs_read a ++ wselfs_read b
  | WUn _ a => wselfs_read a
  | WBoolOp _ l | WTuple l | WList l => many l
  | WIf c a b => wselfs_read c ++ wselfs_read a ++ wselfs_read b
  | WDict l => prs l
  | WComp _ x g => wselfs_read x ++ gens g
  | WLambda _ b => wselfs_read b
  | WTryValueError b _ => wselfs_read b
  | WSetNan t i g => wselfs_read t ++ many i ++ wselfs_read g
  | _ => []
  end.

(* the three assembly shapes a public member is usually wired through *)
Definition w_matrix_of (m : string) : wexp :=
  WCall (WSelf "_assemble_matrix") [WAttr (WAttr (WSelf "_measures") m) "blocks"] [].
Definition w_marginal_of (m : string) : wexp :=
  WCall (WSelf "_assemble_marginal") [WAttr (WSelf "_measures") m] [].
Definition w_vector_of (m : string) : wexp :=
  WCall (WSelf "_assemble_vector") [WAttr (WAttr (WSelf "_measures") m) "blocks"] [].
