(* Base/OrderExp.v -- the meaning of the ORDER HELPERS of
     src/cr/cube/matrix/assembler.py   _BaseOrderHelper (the two factories, _display_order, _measure,
                                       _empty_row_idxs / _empty_column_idxs), _RowOrderHelper,
                                       _ColumnOrderHelper, _BaseSort{Rows,Columns}ByValueHelper and
                                       the eight sort-by-value helpers
     src/cr/cube/stripe/assembler.py   _BaseOrderHelper.display_order, _OrderHelper,
                                       _BaseSortByValueHelper, _SortByLabelHelper, _SortByMeasureHelper
   as far as the source translator harness/translate/x_assemble.py reads them.

   [hexp] is the deep-embedded sub-language emitted into Gen/OrderHelperSrc.v: one term per concrete
   helper class (`_display_order` with inheritance flattened, `self.<lazyproperty>` inlined with virtual
   dispatch, locals inlined) and one per factory (the conditional expression that picks the class, with
   `HelperCls(dimensions, measures, format)._display_order` pushed into its branches).  [heval] is its
   meaning: Python written literally, WITH EXCEPTIONS - a value or `raise <code>` ([HOk] / [HRaise]);
   sub-expressions are evaluated left to right and the first exception propagates; `try: .. except
   ValueError: ..` ([HTry]) catches exactly the named code.

     * <dimension>.order_spec.<field> ([HSpec]): the value or the exception the property gives
       (KeyError for an absent field, ValueError for a keyword outside the enumeration) - the
       environment's business (dimension.py is not read by this translator);
       `.collation_method == CM.<MEMBER>` ([HMethodIs]) compares with the member's NAME.
     * `{..}.get(k)` ([HTableGet]): the dict display is named (the translator emits it as a table of
       Gen/SortTablesSrc.v with enum-member keys resolved to their values); a missing key is None.
     * `getattr(measures, name)` then `.blocks` ([HGetattr], [HBlocks]): the blocks or the ValueError
       reading them raises; `x[k]` on the nested block list; `m[:, j]` / `m[i, :]` ([HColumn], [HRow]) on
       a 2-D array of known shape - an out-of-range index is an IndexError.
     * `seq.index(x)` ([HIndexOf]): the first position, ValueError when absent.
     * `tuple(np.where(mask)[0])`, `tuple(i for i, N in enumerate(v) if N == 0)`.
     * `[idx for idx in order if not isinstance(idx, str) and idx >= 0]` ([HFilter]): on a signed order
       (ints) `isinstance(idx, str)` is False.
     * the collators ([HCollate3], [HCollate5]) are calls into collator.py: their meaning is a field of
       the environment (instantiated with Model/Collator.v in Proofs/GenAgreeOrderTac.v).

   Identifiers (element ids as written in a transform) are an abstract type [I] with its equality and
   its reading as an int (insertion ids are ints).

   TRUSTED: this file IS the reading of Python the GenAgree lemmas of Proofs/GenAgreeOrderHelpers.v rely
   on.  Not modelled: dtype of np.array, the BOGUS_IDS format (the lemmas are about SIGNED_INDEXES). *)
From Coq Require Import List ZArith Bool Lia Arith String QArith.
From CC Require Import Base.XQ Base.AsmExp.
Import ListNotations.
Local Close Scope Q_scope.
Local Open Scope nat_scope.

(* ------------------------------------------------------------------------------------ *)
(** * syntax *)

Inductive hdim := DRows | DCols.     (* dimensions[0] / rows_dimension, dimensions[1] *)
Inductive hcoll := CPayload | CExplicit | CSortByValue.

(* conditions on the loop variable of a comprehension *)
Inductive xcond :=
| XIsStr                             (* isinstance(x, str) *)
| XCmp (op : zcmp) (k : Z)           (* x <op> k *)
| XAnd (a b : xcond) | XNot (a : xcond).

Inductive hexp :=
| HNone
| HBool (b : bool)
| HFormat                                    (* self._format *)
| HDim (d : hdim)                            (* the Dimension object (an argument of a collator) *)
| HMethodIs (d : hdim) (mem : string)        (* <d>.order_spec.collation_method == CM.<mem> *)
| HInArrayTypes (d : hdim)                   (* <d>.dimension_type in DT.ARRAY_TYPES *)
| HSpec (d : hdim) (field : string)          (* <d>.order_spec.<field> *)
| HPruneFlag (d : hdim)                      (* <d>.prune *)
| HElementIds (d : hdim)                     (* <d>.element_ids *)
| HInsertionIds (d : hdim)                   (* <d>.insertion_ids *)
| HElementLabels (d : hdim)                  (* <d>.element_labels *)
| HSubtotalLabels (d : hdim)                 (* <d>.subtotal_labels *)
| HTranslate (d : hdim) (x : hexp)           (* <d>.translate_element_id(x) *)
| HMeasuresAttr (name : string)              (* <measures>.<name> (a mask, the pruning base) *)
| HGetattr (e : hexp)                        (* getattr(<measures>, e) *)
| HBlocks (e : hexp)                         (* e.blocks *)
| HItem (e : hexp) (k : nat)                 (* e[k] *)
| HColumn (e j : hexp)                       (* e[:, j] *)
| HRow (e i : hexp)                          (* e[i, :] *)
| HIndexOf (l x : hexp)                      (* l.index(x) *)
| HTableGet (t : string) (k : hexp)          (* <dict display t>.get(k) *)
| HIsNone (e : hexp)                         (* e is None *)
| HRaiseE (code : Z)                         (* raise <exception> *)
| HLenEq (a b : hexp)                        (* len(a) == len(b) *)
| HAnd (a b : hexp) | HNot (a : hexp)
| HIf (c a b : hexp)                         (* a if c else b;  if c: return a ... return b *)
| HWhere0 (e : hexp)                         (* np.where(e)[0] *)
| HPositionsEq0 (e : hexp)                   (* (i for i, N in enumerate(e) if N == 0) *)
| HTuple (e : hexp)                          (* tuple(e) *)
| HArray (e : hexp)                          (* np.array(e) / np.array(e, dtype=..) *)
| HFilter (e : hexp) (c : xcond)             (* [x for x in e if c] *)
| HTry (e : hexp) (code : Z) (h : hexp)      (* try: return e  except <code>: return h *)
| HCollate3 (c : hcoll) (a1 a2 a3 : hexp)    (* <Collator>.display_order(dim, empty_idxs, format) *)
| HCollate5 (c : hcoll) (a1 a2 a3 a4 a5 : hexp).
                                             (* .. (dim, element_values, subtotal_values, empty_idxs, format) *)

(* exception codes (the numbering of Model/Collator.v, Model/SortKeys.v) *)
Definition EValueError : Z := 1%Z.
Definition EKeyError : Z := 2%Z.
Definition ETypeError : Z := 3%Z.
Definition ENotImplementedError : Z := 4%Z.
Definition EIndexError : Z := 5%Z.

(* a value a dimension is sorted on *)
Inductive kval := KNum (x : xq) | KStr (s : string).

(* {..}: the LAST binding of a key is the one a dict display keeps *)
Fixpoint assoc_last (k : string) (l : list (string * string)) : option string :=
  match l with
  | [] => None
  | (k', v) :: t =>
      match assoc_last k t with
      | Some v' => Some v'
      | None => if String.eqb k' k then Some v else None
      end
  end.

Section Eval.
Variable I : Type.                        (* identifiers *)
Variable ieqb : I -> I -> bool.           (* Python == ; [ieqb y x]: y the list element, x the needle *)
Variable as_int : I -> option Z.          (* the identifier when it is an int *)

Inductive hval :=
| HVNone
| HVBool (b : bool)
| HVFormat (f : ofmt)
| HVDim (d : hdim)
| HVNat (n : nat)
| HVId (i : I)
| HVStr (s : string)                      (* a keyword / property name / enum member by value *)
| HVMeasure (name : string)               (* getattr(measures, name) *)
| HVIds (l : list I)
| HVZs (l : list Z)
| HVNats (l : list nat)
| HVBools (l : list bool)
| HVNums (l : list xq)                    (* a 1-D array of numbers *)
| HVVals (l : list kval)                  (* a 1-D array of sort values *)
| HVMat (nr nc : nat) (m : list (list xq))
| HVSeq (l : list hval)
| HVOrder (l : list Z).                   (* a signed display order *)

Inductive hres := HOk (v : hval) | HRaise (code : Z).

Record henv := mkHenv {
  h_method : hdim -> string;              (* NAME of <d>.order_spec.collation_method *)
  h_array : hdim -> bool;                 (* <d>.dimension_type in DT.ARRAY_TYPES *)
  h_spec : hdim -> string -> hres;        (* <d>.order_spec.<field> *)
  h_prune : hdim -> bool;
  h_ids : hdim -> list I;
  h_ins_ids : hdim -> list Z;
  h_labels : hdim -> list string;
  h_sublabels : hdim -> list string;
  h_translate : hdim -> I -> I;
  h_attr : string -> hres;                (* attributes of the measures object read directly *)
  h_blocks : string -> hres;              (* getattr(measures, name).blocks *)
  h_table : string -> list (string * string);
  h_format : ofmt;
  h_collate : hcoll -> hdim -> list nat -> ofmt -> hres;
  h_sbv : hdim -> list kval -> list kval -> list nat -> ofmt -> hres }.

Definition hbind (r : hres) (f : hval -> hres) : hres :=
  match r with HOk v => f v | HRaise c => HRaise c end.

Fixpoint index_of (x : I) (l : list I) : option nat :=
  match l with
  | [] => None
  | y :: t => if ieqb y x then Some 0 else option_map S (index_of x t)
  end.
Fixpoint index_ofZ (x : Z) (l : list Z) : option nat :=
  match l with
  | [] => None
  | y :: t => if Z.eqb y x then Some 0 else option_map S (index_ofZ x t)
  end.

Fixpoint xceval (c : xcond) (z : Z) : bool :=
  match c with
  | XIsStr => false
  | XCmp op k => cmp_of op z k
  | XAnd a b => xceval a z && xceval b z
  | XNot a => negb (xceval a z)
  end.

Fixpoint heval (E : henv) (e : hexp) {struct e} : hres :=
  match e with
  | HNone => HOk HVNone
  | HBool b => HOk (HVBool b)
  | HFormat => HOk (HVFormat (h_format E))
  | HDim d => HOk (HVDim d)
  | HMethodIs d mem => HOk (HVBool (String.eqb (h_method E d) mem))
  | HInArrayTypes d => HOk (HVBool (h_array E d))
  | HSpec d f => h_spec E d f
  | HPruneFlag d => HOk (HVBool (h_prune E d))
  | HElementIds d => HOk (HVIds (h_ids E d))
  | HInsertionIds d => HOk (HVZs (h_ins_ids E d))
  | HElementLabels d => HOk (HVSeq (map HVStr (h_labels E d)))
  | HSubtotalLabels d => HOk (HVSeq (map HVStr (h_sublabels E d)))
  | HTranslate d x =>
      hbind (heval E x) (fun v => match v with
                                  | HVId i => HOk (HVId (h_translate E d i))
                                  | _ => HRaise ETypeError end)
  | HMeasuresAttr name => h_attr E name
  | HGetattr a =>
      hbind (heval E a) (fun v => match v with HVStr s => HOk (HVMeasure s) | _ => HRaise ETypeError end)
  | HBlocks a =>
      hbind (heval E a) (fun v => match v with HVMeasure s => h_blocks E s | _ => HRaise ETypeError end)
  | HItem a k =>
      hbind (heval E a) (fun v => match v with
                                  | HVSeq l => match nth_error l k with
                                               | Some x => HOk x | None => HRaise EIndexError end
                                  | _ => HRaise ETypeError end)
  | HColumn a j =>
      hbind (heval E a) (fun v => hbind (heval E j) (fun w =>
        match v, w with
        | HVMat nr nc m, HVNat k =>
            if k <? nc then HOk (HVVals (map (fun r => KNum (nth k r NaN)) m)) else HRaise EIndexError
        | _, _ => HRaise ETypeError
        end))
  | HRow a i =>
      hbind (heval E a) (fun v => hbind (heval E i) (fun w =>
        match v, w with
        | HVMat nr nc m, HVNat k =>
            if k <? nr then HOk (HVVals (map KNum (nth k m []))) else HRaise EIndexError
        | _, _ => HRaise ETypeError
        end))
  | HIndexOf l x =>
      hbind (heval E l) (fun v => hbind (heval E x) (fun w =>
        match v, w with
        | HVIds ids, HVId i =>
            match index_of i ids with Some k => HOk (HVNat k) | None => HRaise EValueError end
        | HVZs ids, HVId i =>
            match as_int i with
            | Some z => match index_ofZ z ids with Some k => HOk (HVNat k) | None => HRaise EValueError end
            | None => HRaise EValueError
            end
        | _, _ => HRaise ETypeError
        end))
  | HTableGet t k =>
      hbind (heval E k) (fun v =>
        match v with
        | HVStr s => match assoc_last s (h_table E t) with
                     | Some p => HOk (HVStr p) | None => HOk HVNone end
        | _ => HRaise ETypeError
        end)
  | HIsNone a =>
      hbind (heval E a) (fun v => HOk (HVBool (match v with HVNone => true | _ => false end)))
  | HRaiseE c => HRaise c
  | HLenEq a b =>
      hbind (heval E a) (fun v => hbind (heval E b) (fun w =>
        match v, w with
        | HVNats l, HVIds ids => HOk (HVBool (List.length l =? List.length ids))
        | _, _ => HRaise ETypeError
        end))
  | HAnd a b =>
      hbind (heval E a) (fun v =>
        match v with
        | HVBool false => HOk (HVBool false)
        | HVBool true => hbind (heval E b) (fun w => match w with
                                                     | HVBool _ => HOk w | _ => HRaise ETypeError end)
        | _ => HRaise ETypeError
        end)
  | HNot a =>
      hbind (heval E a) (fun v => match v with HVBool b => HOk (HVBool (negb b)) | _ => HRaise ETypeError end)
  | HIf c a b =>
      hbind (heval E c) (fun v =>
        match v with
        | HVBool true => heval E a
        | HVBool false => heval E b
        | _ => HRaise ETypeError
        end)
  | HWhere0 a =>
      hbind (heval E a) (fun v =>
        match v with
        | HVBools l => HOk (HVNats (AsmExp.positions_from (fun b : bool => b) 0 l))
        | _ => HRaise ETypeError
        end)
  | HPositionsEq0 a =>
      hbind (heval E a) (fun v =>
        match v with
        | HVNums l => HOk (HVNats (AsmExp.positions_from (fun x => xeqb x (Fin 0%Q)) 0 l))
        | _ => HRaise ETypeError
        end)
  | HTuple a =>
      hbind (heval E a) (fun v => match v with
                                  | HVNats _ | HVOrder _ => HOk v | _ => HRaise ETypeError end)
  | HArray a =>
      hbind (heval E a) (fun v =>
        match v with
        | HVOrder _ => HOk v
        | HVSeq l =>                      (* a tuple of labels -> a 1-D array of str *)
            match omap (fun x => match x with HVStr s => Some (KStr s) | _ => None end) l with
            | Some ks => HOk (HVVals ks)
            | None => HRaise ETypeError
            end
        | _ => HRaise ETypeError
        end)
  | HFilter a c =>
      hbind (heval E a) (fun v =>
        match v with
        | HVOrder l => HOk (HVOrder (filter (xceval c) l))
        | _ => HRaise ETypeError
        end)
  | HTry a code h =>
      match heval E a with
      | HOk v => HOk v
      | HRaise c => if Z.eqb c code then heval E h else HRaise c
      end
  | HCollate3 c a1 a2 a3 =>
      hbind (heval E a1) (fun v1 => hbind (heval E a2) (fun v2 => hbind (heval E a3) (fun v3 =>
        match v1, v2, v3 with
        | HVDim d, HVNats emp, HVFormat f => h_collate E c d emp f
        | _, _, _ => HRaise ETypeError
        end)))
  | HCollate5 c a1 a2 a3 a4 a5 =>
      hbind (heval E a1) (fun v1 => hbind (heval E a2) (fun v2 => hbind (heval E a3) (fun v3 =>
      hbind (heval E a4) (fun v4 => hbind (heval E a5) (fun v5 =>
        match c, v1, v2, v3, v4, v5 with
        | CSortByValue, HVDim d, HVVals ev, HVVals sv, HVNats emp, HVFormat f => h_sbv E d ev sv emp f
        | _, _, _, _, _, _ => HRaise ETypeError
        end)))))
  end.

End Eval.

Arguments HVNone {I}.
Arguments HVBool {I} b.
Arguments HVFormat {I} f.
Arguments HVDim {I} d.
Arguments HVNat {I} n.
Arguments HVId {I} i.
Arguments HVStr {I} s.
Arguments HVMeasure {I} name.
Arguments HVIds {I} l.
Arguments HVZs {I} l.
Arguments HVNats {I} l.
Arguments HVBools {I} l.
Arguments HVNums {I} l.
Arguments HVVals {I} l.
Arguments HVMat {I} nr nc m.
Arguments HVSeq {I} l.
Arguments HVOrder {I} l.
Arguments HOk {I} v.
Arguments HRaise {I} code.
Arguments mkHenv {I} _ _ _ _ _ _ _ _ _ _ _ _ _ _ _.
