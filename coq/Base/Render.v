(* Render: flat token streams (list Z) for the correspondence check.  The harness
   parses the one-line output of [Eval vm_compute in (...)]; the decoding functions in
   harness/core.py mirror these encoders one by one. *)
From Coq Require Import QArith ZArith List Bool.
From CC Require Import Base.XQ.
Import ListNotations.
Open Scope Z_scope.

Definition r_Z (z : Z) : list Z := [z].
Definition r_nat (n : nat) : list Z := [Z.of_nat n].
Definition r_bool (b : bool) : list Z := [if b then 1 else 0].
Definition r_xq (a : xq) : list Z :=
  match xred a with
  | Fin q => [0; Qnum q; Zpos (Qden q)]
  | Inf false => [1]
  | Inf true => [2]
  | NaN => [3]
  end.
Definition r_list {A} (f : A -> list Z) (l : list A) : list Z :=
  Z.of_nat (length l) :: flat_map f l.
Definition r_opt {A} (f : A -> list Z) (o : option A) : list Z :=
  match o with None => [0] | Some a => 1 :: f a end.
Definition r_pair {A B} (f : A -> list Z) (g : B -> list Z) (p : A * B) : list Z :=
  f (fst p) ++ g (snd p).
Definition r_vec : list xq -> list Z := r_list r_xq.
Definition r_mat : list (list xq) -> list Z := r_list r_vec.
Definition r_nats : list nat -> list Z := r_list r_nat.
Definition r_Zs : list Z -> list Z := r_list r_Z.
