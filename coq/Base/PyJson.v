(* PyJson: JSON values as Python sees them after json.loads (None / bool / int / float / str / list /
   dict) with the dynamically typed operations src/cr/cube/cube.py applies to a cube response, and the
   exception monad they run in.  This is the fixed library the SHALLOW translator
   harness/translate/x_cube.py builds its output from (coq/Gen/CubeSrc.v), together with
   Base/PyList.v (lists, dicts as insertion-ordered association lists) and Model/PyCube.v (the
   objects of cube.py).  Definitions only, every one executable; lemmas: Proofs/GenAgreeCubeLib.v.

     d[k]                 py_getitem_str / py_getitem_int / py_getitem    KeyError, IndexError (negative
                          positions count from the end), TypeError on None / a number
     d.get(k[, dflt])     py_get                                          AttributeError when d is no dict
     d.keys()             py_keys
     x or y, if x:        json_truthy (None, False, 0, 0.0, "", [], {} are false; NaN is true)
     a == b, x in seq     json_eqb (numbers by value across bool / int / float, NaN != NaN; lists
                          elementwise; dicts as mappings; anything else only equal to its own kind)
     isinstance(x, dict)  json_is_dict;   isinstance(x, (int, str)): json_is_int_or_str (a bool is an int)
     a + b                py_add: numbers, str + str, list + list; TypeError otherwise
     a / b                py_truediv: ZeroDivisionError on a zero divisor, TypeError on a non-number
     dict(d, k=v, ..)     py_dict_copy_with: a NEW dict (an existing key keeps its place)
     [x] * n              py_list_repeat
     l[pos] = v           py_list_setitem (on a list the member owns)
     s.title(), sep.join  py_str_title (ASCII), py_str_join

   Numbers: a JSON number without fraction is [JInt], any other one (and NaN / Infinity, which
   json.loads accepts) is [JFloat] over the extended rationals of Base/XQ.v.  Arithmetic on floats is
   exact (no rounding): the checks compare with 1e-9 relative tolerance. *)
From Coq Require Import List ZArith QArith String Ascii Bool Arith.
From CC Require Import Base.XQ Base.PyList.
Import ListNotations.
Local Close Scope Q_scope.
Local Open Scope Z_scope.

Inductive json : Type :=
| JNull
| JBool (b : bool)
| JInt (z : Z)
| JFloat (x : xq)
| JStr (s : string)
| JList (l : list json)
| JDict (d : list (string * json)).

(* --- exceptions ------------------------------------------------------------------------------ *)
Inductive pyexn : Type :=
| EKey | EType | EAttr | EIndex | EValue | EZeroDiv | ENotImpl | EUnbound.
Definition pyexn_eqb (a b : pyexn) : bool :=
  match a, b with
  | EKey, EKey | EType, EType | EAttr, EAttr | EIndex, EIndex | EValue, EValue
  | EZeroDiv, EZeroDiv | ENotImpl, ENotImpl | EUnbound, EUnbound => true
  | _, _ => false
  end.

Inductive pres (A : Type) : Type := POk (a : A) | PErr (e : pyexn).
Arguments POk {A} a.
Arguments PErr {A} e.

Definition pbind {A B} (r : pres A) (f : A -> pres B) : pres B :=
  match r with POk a => f a | PErr e => PErr e end.

Fixpoint pmapM {A B} (f : A -> pres B) (l : list A) : pres (list B) :=
  match l with
  | [] => POk []
  | x :: t => pbind (f x) (fun y => pbind (pmapM f t) (fun r => POk (y :: r)))
  end.
(* [x for x in l if c(x)] with a condition that may raise *)
Fixpoint pfilterM {A} (f : A -> pres bool) (l : list A) : pres (list A) :=
  match l with
  | [] => POk []
  | x :: t => pbind (f x) (fun b => pbind (pfilterM f t) (fun r => POk (if b then x :: r else r)))
  end.
Fixpoint pfoldM {S A} (f : S -> A -> pres S) (l : list A) (s : S) : pres S :=
  match l with
  | [] => POk s
  | x :: t => pbind (f s x) (fun s' => pfoldM f t s')
  end.
(* all(c(x) for x in l): stops at the first false one *)
Fixpoint pallM {A} (f : A -> pres bool) (l : list A) : pres bool :=
  match l with
  | [] => POk true
  | x :: t => pbind (f x) (fun b => if b then pallM f t else POk false)
  end.
(* try: body / except <classes>: handler(e) *)
Definition py_try {A} (body : pres A) (handler : pyexn -> pres A) : pres A :=
  match body with
  | PErr e => handler e
  | ok => ok
  end.
Definition pres_of_option {A} (e : pyexn) (o : option A) : pres A :=
  match o with Some a => POk a | None => PErr e end.

(* --- numbers ---------------------------------------------------------------------------------- *)
(* the value of a Python number (a bool is the int 0 / 1) *)
Definition json_num (j : json) : option xq :=
  match j with
  | JBool b => Some (if b then Fin 1 else Fin 0)
  | JInt z => Some (xofZ z)
  | JFloat x => Some x
  | _ => None
  end.
Definition json_int (j : json) : option Z :=
  match j with
  | JBool b => Some (if b then 1 else 0)
  | JInt z => Some z
  | _ => None
  end.

Definition json_is_none (j : json) : bool := match j with JNull => true | _ => false end.
Definition json_is_dict (j : json) : bool := match j with JDict _ => true | _ => false end.
Definition json_is_str (j : json) : bool := match j with JStr _ => true | _ => false end.
Definition json_is_int_or_str (j : json) : bool :=
  match j with JBool _ | JInt _ | JStr _ => true | _ => false end.

Definition json_truthy (j : json) : bool :=
  match j with
  | JNull => false
  | JBool b => b
  | JInt z => negb (z =? 0)
  | JFloat x => negb (xeqb x (Fin 0))
  | JStr s => negb (String.eqb s "")
  | JList l => py_truthy l
  | JDict d => py_truthy d
  end.

(* Python == *)
Fixpoint json_eqb (a b : json) {struct a} : bool :=
  match a, b with
  | JNull, JNull => true
  | JStr s, JStr t => String.eqb s t
  | JList l, JList m =>
      (fix go (l m : list json) {struct l} : bool :=
         match l, m with
         | [], [] => true
         | x :: l', y :: m' => json_eqb x y && go l' m'
         | _, _ => false
         end) l m
  | JDict d, JDict e =>
      Nat.eqb (List.length d) (List.length e)
      && (fix go (d : list (string * json)) {struct d} : bool :=
            match d with
            | [] => true
            | kv :: d' =>
                match py_dict_get String.eqb e (fst kv) with
                | Some w => json_eqb (snd kv) w
                | None => false
                end && go d'
            end) d
  | JBool _, _ | JInt _, _ | JFloat _, _ =>
      match json_num a, json_num b with
      | Some x, Some y => xeqb x y
      | _, _ => false
      end
  | _, _ => false
  end.
(* x in <list> *)
Definition json_in (x : json) (l : list json) : bool := existsb (json_eqb x) l.

(* --- subscription, .get, .keys ------------------------------------------------------------------ *)
(* l[z] on a sequence of length n: the position, None = IndexError *)
Definition py_index (n : nat) (z : Z) : option nat :=
  if 0 <=? z then (if z <? Z.of_nat n then Some (Z.to_nat z) else None)
  else if - Z.of_nat n <=? z then Some (Z.to_nat (Z.of_nat n + z)) else None.

Definition py_list_getitem {A} (l : list A) (z : Z) : pres A :=
  match py_index (List.length l) z with
  | Some i => pres_of_option EIndex (nth_error l i)
  | None => PErr EIndex
  end.

Definition py_getitem_str (j : json) (k : string) : pres json :=
  match j with
  | JDict d => pres_of_option EKey (py_dict_get String.eqb d k)
  | JList _ | JStr _ => PErr EType        (* indices must be integers *)
  | _ => PErr EType                        (* not subscriptable *)
  end.
Definition py_getitem_int (j : json) (z : Z) : pres json :=
  match j with
  | JList l => py_list_getitem l z
  | JDict _ => PErr EKey                   (* an int is no key of a JSON object *)
  | _ => PErr EType
  end.
Definition py_getitem (j k : json) : pres json :=
  match k with
  | JStr s => py_getitem_str j s
  | JInt z => py_getitem_int j z
  | JBool b => py_getitem_int j (if b then 1 else 0)
  | _ => match j with JDict _ => PErr EKey | _ => PErr EType end
  end.
(* d.get(k, dflt) *)
Definition py_get (j : json) (k : string) (dflt : json) : pres json :=
  match j with
  | JDict d => POk (match py_dict_get String.eqb d k with Some v => v | None => dflt end)
  | _ => PErr EAttr
  end.
(* d.get(k, dflt) with a key that is itself a value *)
Definition py_get_dyn (j k dflt : json) : pres json :=
  match j with
  | JDict d => POk (match k with
                    | JStr s => match py_dict_get String.eqb d s with Some v => v | None => dflt end
                    | _ => dflt
                    end)
  | _ => PErr EAttr
  end.
Definition py_keys (j : json) : pres (list string) :=
  match j with JDict d => POk (py_dict_keys d) | _ => PErr EAttr end.
Definition py_len_json (j : json) : pres Z :=
  match j with
  | JList l => POk (py_len l)
  | JDict d => POk (py_len d)
  | JStr s => POk (Z.of_nat (String.length s))
  | _ => PErr EType
  end.
(* iteration over a value: a list gives its items, a dict its keys *)
Definition py_iter (j : json) : pres (list json) :=
  match j with
  | JList l => POk l
  | JDict d => POk (map JStr (py_dict_keys d))
  | _ => PErr EType
  end.
Definition py_or (a b : json) : json := if json_truthy a then a else b.

(* --- arithmetic ---------------------------------------------------------------------------------- *)
Definition py_add (a b : json) : pres json :=
  match a, b with
  | JStr s, JStr t => POk (JStr (s ++ t))
  | JList l, JList m => POk (JList (l ++ m))
  | _, _ =>
      match json_int a, json_int b with
      | Some x, Some y => POk (JInt (x + y))
      | _, _ => match json_num a, json_num b with
                | Some x, Some y => POk (JFloat (xadd x y))
                | _, _ => PErr EType
                end
      end
  end.
Definition py_truediv (a b : json) : pres json :=
  match json_num a, json_num b with
  | Some x, Some y => if xeqb y (Fin 0) then PErr EZeroDiv else POk (JFloat (xdiv x y))
  | _, _ => PErr EType
  end.
(* [x] + l where l is a value *)
Definition py_list_add (l : list json) (j : json) : pres json :=
  match j with JList m => POk (JList (l ++ m)) | _ => PErr EType end.
(* l[n:] *)
Definition py_slice_from (j : json) (n : Z) : pres json :=
  match j with
  | JList l => POk (JList (skipn (match py_index (List.length l) n with
                                  | Some i => i
                                  | None => if n <? 0 then 0%nat else List.length l
                                  end) l))
  | JStr _ => PErr ENotImpl
  | _ => PErr EType
  end.

(* l[n:] on a sequence given as a list *)
Definition py_list_slice_from {A} (l : list A) (n : Z) : list A :=
  skipn (match py_index (List.length l) n with
         | Some i => i
         | None => if n <? 0 then 0%nat else List.length l
         end) l.
(* zip( *lists): the k-th items of all lists, while every list has a k-th item *)
Definition py_zip_star {A} (ls : list (list A)) : list (list A) :=
  match ls with
  | [] => []
  | l :: t =>
      map (fun k => flat_map (fun l => match nth_error l k with Some x => [x] | None => [] end) ls)
          (seq 0 (fold_left Nat.min (map (@List.length A) t) (List.length l)))
  end.
(* the navigation `root[k1]..[kn]` followed by an in-place edit [f] of what is found there, on a value
   the member owns: the new root *)
Fixpoint py_update_path (j : json) (path : list string) (f : json -> pres json) : pres json :=
  match path with
  | [] => f j
  | k :: rest =>
      match j with
      | JDict d =>
          match py_dict_get String.eqb d k with
          | Some v => pbind (py_update_path v rest f) (fun v' => POk (JDict (py_dict_set String.eqb d k v')))
          | None => PErr EKey
          end
      | _ => PErr EType
      end
  end.
(* d.get(k, []).append(x): extends the list under k when there is one, else a throw-away list *)
Definition py_get_append (k : string) (x : json) (j : json) : pres json :=
  match j with
  | JDict d =>
      match py_dict_get String.eqb d k with
      | Some (JList l) => POk (JDict (py_dict_set String.eqb d k (JList (l ++ [x]))))
      | Some _ => PErr EAttr
      | None => POk j
      end
  | _ => PErr EAttr
  end.

(* --- building new values -------------------------------------------------------------------------- *)
(* dict(d, k1=v1, ..): a new dict; d must be a dict (a sequence of pairs is not read) *)
Definition py_dict_copy_with (j : json) (kvs : list (string * json)) : pres json :=
  match j with
  | JDict d => POk (JDict (fold_left (fun d kv => py_dict_set String.eqb d (fst kv) (snd kv)) kvs d))
  | _ => PErr EType
  end.
(* d[k] = v on a dict the member owns *)
Definition py_dict_setitem (j : json) (k : string) (v : json) : pres json :=
  match j with
  | JDict d => POk (JDict (py_dict_set String.eqb d k v))
  | _ => PErr EType
  end.
Definition py_list_repeat {A} (l : list A) (n : Z) : list A :=
  List.concat (repeat l (Z.to_nat n)).
Fixpoint set_nth {A} (i : nat) (x : A) (l : list A) : list A :=
  match l, i with
  | [], _ => []
  | _ :: t, O => x :: t
  | a :: t, S i' => a :: set_nth i' x t
  end.
(* l[pos] = v *)
Definition py_list_setitem {A} (l : list A) (pos : json) (v : A) : pres (list A) :=
  match json_int pos with
  | Some z => match py_index (List.length l) z with
              | Some i => POk (set_nth i v l)
              | None => PErr EIndex
              end
  | None => PErr EType
  end.

(* --- strings ------------------------------------------------------------------------------------------ *)
Definition ascii_is_lower (c : ascii) : bool :=
  let n := nat_of_ascii c in (97 <=? n)%nat && (n <=? 122)%nat.
Definition ascii_is_upper (c : ascii) : bool :=
  let n := nat_of_ascii c in (65 <=? n)%nat && (n <=? 90)%nat.
Definition ascii_upper (c : ascii) : ascii :=
  if ascii_is_lower c then ascii_of_nat (nat_of_ascii c - 32) else c.
Definition ascii_lower (c : ascii) : ascii :=
  if ascii_is_upper c then ascii_of_nat (nat_of_ascii c + 32) else c.
(* str.title() on ASCII text: a letter that follows a letter is lower-cased, any other letter is
   upper-cased; other characters are kept *)
Fixpoint title_from (prev_cased : bool) (s : string) : string :=
  match s with
  | EmptyString => EmptyString
  | String c t =>
      let cased := ascii_is_lower c || ascii_is_upper c in
      String (if cased then (if prev_cased then ascii_lower c else ascii_upper c) else c)
             (title_from cased t)
  end.
Definition py_str_title (j : json) : pres json :=
  match j with JStr s => POk (JStr (title_from false s)) | _ => PErr EAttr end.
Fixpoint str_join (sep : string) (l : list string) : string :=
  match l with
  | [] => EmptyString
  | [s] => s
  | s :: t => (s ++ sep ++ str_join sep t)%string
  end.
