(* Base/TensorTile.v -- np.tile(v, (n, 1, 1)) of a 2-D v.
   Base/Tensor.v reads [TileRows v like] (the first translator's term for
   `np.tile(v, (like.shape[0], 1, 1))`) for a 1-D v only (the pruning bases).  The overlap cube
   measures of matrix/cubemeasure.py (_CatXMrOverlaps.selected_bases / .valid_bases) tile a 2-D
   subvariable x subvariable matrix: the result has shape (n, m1, m2) and out[i, a, b] = v[a, b].
   [teval_tile] adds that reading at the TOP of a term and is [teval] everywhere else.
   TRUSTED like Base/Tensor.v: this IS the reading of numpy the GenAgree tie relies on. *)
From Coq Require Import List.
From CC Require Import Base.XQ Base.Tensor.
Import ListNotations.

Definition teval_tile (E : tenv) (e : texp) : tres :=
  match e with
  | TileRows v like =>
      match teval E v, teval E like with
      | TVal [m1; m2] f, TVal (n :: _) _ => TVal [n; m1; m2] (fun out => f (drop 1 out))
      | _, _ => teval E e
      end
  | _ => teval E e
  end.
