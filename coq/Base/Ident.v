(* Ident: Python identifiers as data.

   Element references in transforms are Python values of type int, str or None
   (JSON numbers without fraction, strings, null).  This file fixes that domain and
   the handful of Python operations the id-translation code of
   src/cr/cube/dimension.py (_ElementIdShim) applies to them:

     x == y, x in seq, seq.index(x)   an int never equals a str, None equals only None
     str(int)                          canonical decimal, "-" sign, no leading zeros
     int(str)                          RESTRICTED to: optional sign (+/-) followed by one
                                       or more ASCII digits (leading zeros allowed).
                                       Python additionally accepts surrounding whitespace,
                                       "_" separators and non-ASCII digits; such strings
                                       are outside this model (the generators never emit them)
     int(None)                         raises TypeError
     str.isnumeric()                   RESTRICTED to non-empty ASCII digit strings

   bool / float identifiers (True == 1, 1.0 == 1 in Python) are outside the model. *)
From Coq Require Import ZArith List Bool Lia Arith String Ascii.
From Coq Require Import DecimalString DecimalZ DecimalPos DecimalFacts Decimal.
Import ListNotations.
Local Open Scope nat_scope.

Inductive ident : Type :=
| IInt (z : Z)
| IStr (s : string)
| INone.

(* Python == on this domain is structural equality *)
Definition ident_eqb (a b : ident) : bool :=
  match a, b with
  | IInt x, IInt y => Z.eqb x y
  | IStr s, IStr t => String.eqb s t
  | INone, INone => true
  | _, _ => false
  end.

Lemma ident_eqb_spec a b : reflect (a = b) (ident_eqb a b).
Proof.
  destruct a as [x|s|], b as [y|t|]; simpl; try (constructor; congruence).
  - destruct (Z.eqb_spec x y); constructor; congruence.
  - destruct (String.eqb_spec s t); constructor; congruence.
Qed.

Lemma ident_eqb_refl a : ident_eqb a a = true.
Proof. destruct (ident_eqb_spec a a); congruence. Qed.

Lemma ident_eqb_eq a b : ident_eqb a b = true <-> a = b.
Proof. destruct (ident_eqb_spec a b); split; congruence. Qed.

Lemma ident_eqb_neq a b : ident_eqb a b = false <-> a <> b.
Proof. destruct (ident_eqb_spec a b); split; congruence. Qed.

Definition ident_eq_dec (a b : ident) : {a = b} + {a <> b}.
Proof. destruct (ident_eqb_spec a b); [left|right]; assumption. Defined.

(* x in seq *)
Definition py_in (x : ident) (l : list ident) : bool := existsb (ident_eqb x) l.

(* seq.index(x): first position, None stands for ValueError *)
Fixpoint py_index (x : ident) (l : list ident) : option nat :=
  match l with
  | [] => None
  | y :: t => if ident_eqb x y then Some 0
              else match py_index x t with Some i => Some (S i) | None => None end
  end.

Lemma py_in_In x l : py_in x l = true <-> In x l.
Proof.
  unfold py_in. rewrite existsb_exists. split.
  - intros [y [Hy He]]. apply ident_eqb_eq in He. subst. exact Hy.
  - intros H. exists x. split; [exact H | apply ident_eqb_refl].
Qed.

Lemma py_in_false x l : py_in x l = false <-> ~ In x l.
Proof.
  rewrite <- py_in_In. destruct (py_in x l); split; congruence.
Qed.

Lemma py_index_none x l : py_index x l = None <-> ~ In x l.
Proof.
  induction l as [|y t IH]; simpl.
  - tauto.
  - destruct (ident_eqb_spec x y) as [E|N].
    + split; [discriminate | intros H; exfalso; apply H; left; congruence].
    + destruct (py_index x t) eqn:Ei.
      * split; [discriminate|]. intros H. exfalso. apply H. right.
        destruct (in_dec ident_eq_dec x t) as [Hin|Hnin]; [exact Hin|].
        apply IH in Hnin. discriminate.
      * split; [|reflexivity]. intros _ [H|H]; [congruence|]. apply IH in H; [exact H|reflexivity].
Qed.

Lemma py_index_some x l i :
  py_index x l = Some i -> i < List.length l /\ nth i l INone = x /\
  forall j, j < i -> nth j l INone <> x.
Proof.
  revert i. induction l as [|y t IH]; simpl; intros i H; [discriminate|].
  destruct (ident_eqb_spec x y) as [E|N].
  - inversion H; subst. split; [lia|]. split; [reflexivity|]. intros j Hj; lia.
  - destruct (py_index x t) as [k|] eqn:Ek; [|discriminate]. inversion H; subst.
    destruct (IH k eq_refl) as [H1 [H2 H3]]. split; [lia|]. split; [exact H2|].
    intros j Hj. destruct j as [|j]; [congruence|]. apply H3. lia.
Qed.

(* first index of the k-th entry of a duplicate-free list is k *)
Lemma py_index_nodup l k :
  NoDup l -> k < List.length l -> py_index (nth k l INone) l = Some k.
Proof.
  revert k. induction l as [|y t IH]; simpl; intros k Hnd Hk; [lia|].
  inversion Hnd as [|? ? Hnin Hnd']; subst.
  destruct k as [|k].
  - rewrite ident_eqb_refl. reflexivity.
  - destruct (ident_eqb_spec (nth k t INone) y) as [E|N].
    + exfalso. apply Hnin. rewrite <- E. apply nth_In. lia.
    + rewrite IH by (auto; lia). reflexivity.
Qed.

(* ---- str(int) and int(str) ------------------------------------------------------- *)

Definition dec (z : Z) : string := NilZero.string_of_int (Z.to_int z).

Definition str_of_ident (x : ident) : string :=
  match x with
  | IInt z => dec z
  | IStr s => s
  | INone => "None"%string
  end.

(* unsigned: one or more ASCII digits *)
Definition parse_uint (s : string) : option Z :=
  option_map Z.of_uint (NilZero.uint_of_string s).

Definition parse_int (s : string) : option Z :=
  match s with
  | String "+"%char r => parse_uint r
  | _ => option_map Z.of_int (NilZero.int_of_string s)
  end.

(* str.isnumeric() on the restricted alphabet *)
Definition isnumeric (s : string) : bool :=
  match parse_uint s with Some _ => true | None => false end.

Inductive int_result : Type :=
| IntOk (z : Z)
| IntValueError     (* str that is no number *)
| IntTypeError.     (* None *)

Definition py_int (x : ident) : int_result :=
  match x with
  | IInt z => IntOk z
  | IStr s => match parse_int s with Some z => IntOk z | None => IntValueError end
  | INone => IntTypeError
  end.

Lemma string_of_uint_head d :
  d <> Nil -> exists c r, NilEmpty.string_of_uint d = String c r /\ c <> "+"%char /\ c <> "-"%char.
Proof.
  destruct d; intros H; try congruence; simpl; eexists; eexists; (split; [reflexivity|]);
    split; discriminate.
Qed.

Lemma to_int_nonnil z : Z.to_int z <> Pos Nil /\ Z.to_int z <> Neg Nil.
Proof.
  destruct z as [|p|p]; simpl; split; try discriminate; intros H; inversion H as [H1];
    apply (Unsigned.to_uint_nonnil p H1).
Qed.

Lemma parse_int_dec z : parse_int (dec z) = Some z.
Proof.
  unfold dec, parse_int.
  destruct (to_int_nonnil z) as [Hp Hn].
  assert (R : option_map Z.of_int (NilZero.int_of_string (NilZero.string_of_int (Z.to_int z))) = Some z).
  { rewrite NilZero.isi by assumption. simpl. rewrite DecimalZ.of_to. reflexivity. }
  destruct (Z.to_int z) as [d|d] eqn:E.
  - simpl NilZero.string_of_int in *. unfold NilZero.string_of_uint in *.
    destruct d; try exact R; congruence.
  - simpl NilZero.string_of_int in *. exact R.
Qed.

Lemma py_int_dec z : py_int (IStr (dec z)) = IntOk z.
Proof. simpl. rewrite parse_int_dec. reflexivity. Qed.

(* ---- rendering for the correspondence check (token streams, see Base/Render.v) ---- *)
Local Open Scope Z_scope.
Fixpoint r_string (s : string) : list Z :=
  match s with
  | EmptyString => []
  | String c r => Z.of_nat (nat_of_ascii c) :: r_string r
  end.
Definition r_str (s : string) : list Z := Z.of_nat (String.length s) :: r_string s.
Definition r_ident (x : ident) : list Z :=
  match x with
  | IInt z => [0; z]
  | IStr s => 1 :: r_str s
  | INone => [2]
  end.

(* non-negative numbers print as digit strings (datetime position ids written as strings) *)
Lemma parse_uint_dec z : (0 <= z)%Z -> parse_uint (dec z) = Some z.
Proof.
  intros Hz. destruct z as [|p|p]; [reflexivity| |lia].
  unfold dec, parse_uint. simpl Z.to_int. simpl NilZero.string_of_int.
  rewrite NilZero.usu by (apply Unsigned.to_uint_nonnil).
  simpl. unfold Z.of_uint. rewrite DecimalPos.Unsigned.of_to. reflexivity.
Qed.
