(* ListX: vectors and matrices as lists, built pointwise with [tab]/[tab2] so that
   every theorem about a measure can be stated (and proved) cell by cell. *)
From Coq Require Import QArith ZArith List Bool Lia Arith.
From CC Require Import Base.XQ.
Import ListNotations.
Local Close Scope Q_scope.
Local Open Scope nat_scope.

Notation vec := (list xq) (only parsing).
Notation mat := (list (list xq)) (only parsing).

Definition vnth (v : vec) (i : nat) : xq := nth i v NaN.
Definition mnth (m : mat) (i j : nat) : xq := vnth (nth i m []) j.
Definition nrows (m : mat) : nat := length m.
Definition ncols (m : mat) : nat := match m with [] => 0 | r :: _ => length r end.

Definition tab {A} (n : nat) (f : nat -> A) : list A := map f (seq 0 n).
Definition tab2 (nr nc : nat) (f : nat -> nat -> xq) : mat :=
  tab nr (fun i => tab nc (fun j => f i j)).

Lemma tab_length {A} n (f : nat -> A) : length (tab n f) = n.
Proof. unfold tab. rewrite map_length, seq_length. reflexivity. Qed.

Lemma tab_nth {A} n (f : nat -> A) d i : i < n -> nth i (tab n f) d = f i.
Proof.
  intros H. unfold tab.
  rewrite (nth_indep _ d (f 0)) by (rewrite map_length, seq_length; exact H).
  rewrite map_nth. rewrite seq_nth by exact H. reflexivity.
Qed.

Lemma tab2_nrows nr nc f : nrows (tab2 nr nc f) = nr.
Proof. apply tab_length. Qed.

Lemma tab2_mnth nr nc f i j : i < nr -> j < nc -> mnth (tab2 nr nc f) i j = f i j.
Proof.
  intros Hi Hj. unfold mnth, vnth, tab2.
  rewrite (tab_nth nr _ [] i Hi). apply tab_nth. exact Hj.
Qed.

Lemma tab_vnth n f i : i < n -> vnth (tab n f) i = f i.
Proof. intros H. unfold vnth. apply tab_nth. exact H. Qed.

(* rows / columns of a matrix *)
Definition mrow (m : mat) (i : nat) : vec := nth i m [].
Definition mcol (m : mat) (j : nat) : vec := map (fun r => vnth r j) m.
Definition transpose (nc : nat) (m : mat) : mat :=
  tab nc (fun j => mcol m j).

Lemma mcol_vnth m j i : i < length m -> vnth (mcol m j) i = mnth m i j.
Proof.
  intros H. unfold mcol, mnth, vnth at 1.
  rewrite (nth_indep _ NaN (vnth [] j)) by (rewrite map_length; exact H).
  rewrite (map_nth (fun r => vnth r j) m [] i). reflexivity.
Qed.

Lemma transpose_mnth nc m i j : i < length m -> j < nc ->
  mnth (transpose nc m) j i = mnth m i j.
Proof.
  intros Hi Hj. unfold mnth at 1. unfold transpose.
  rewrite (tab_nth nc _ [] j Hj). apply mcol_vnth. exact Hi.
Qed.

Definition vmap2 (f : xq -> xq -> xq) (a b : vec) : vec :=
  tab (length a) (fun i => f (vnth a i) (vnth b i)).
Definition mmap2 (f : xq -> xq -> xq) (a b : mat) : mat :=
  tab2 (nrows a) (ncols a) (fun i j => f (mnth a i j) (mnth b i j)).
Definition mmap (f : xq -> xq) (a : mat) : mat := map (map f) a.

(* sub-range helpers *)
Definition slice {A} (start len : nat) (l : list A) : list A := firstn len (skipn start l).

Definition all_rows_length (m : mat) (nc : nat) : Prop := Forall (fun r => length r = nc) m.

Lemma nth_firstn_lt {A} (l : list A) n k d : k < n -> nth k (firstn n l) d = nth k l d.
Proof.
  revert n k. induction l as [|a t IH]; intros n k H.
  - rewrite firstn_nil. reflexivity.
  - destruct n as [|n]; [lia|]. destruct k as [|k]; simpl; auto. apply IH. lia.
Qed.

Lemma nth_skipn_add {A} (l : list A) s k d : nth k (skipn s l) d = nth (s + k) l d.
Proof.
  revert l. induction s as [|s IH]; intros l; simpl; auto.
  destruct l as [|a t]; simpl; [destruct k; reflexivity|]. apply IH.
Qed.
