(* Base/BasesExp.v -- the meaning of the BASE measures and MARGINALS of
     src/cr/cube/matrix/measure.py   (_Column/_Row/_Table(Un)WeightedBases, _ColumnSquaredBases,
                                      _MarginWeightedBase, _MarginUnweightedBase, _MarginSquaredBase,
                                      _MarginTableBase, _MarginTableProportion, _TableBase,
                                      _TableBasesRange)
     src/cr/cube/stripe/measure.py   (_UnweightedBases, _WeightedBases, _UnweightedCounts,
                                      _WeightedCounts, _Means, _Medians, _Sums, _StdDev)
     src/cr/cube/min_base_size_mask.py
   as far as the fourth source translator (harness/translate/x_bases.py) reads them.

   [bexp] is the deep-embedded sub-language emitted into Gen/BasesSrc.v, Gen/StripeBasesSrc.v
   (one term per (class, member); for a `blocks` member one term per block; local names,
   `self.<lazyproperty>`, `self._method(args)` are inlined by the translator; a test of
   `self.orientation == MO.ROWS` is decided by the translator from the constructor argument the
   collection class passes -- one term per WIRING).  [beval] is its meaning.

   Why not [mexp] (Base/MeasureExp.v): these members are about SHAPES -- `x[0]`, `x[:, 0][:, None]`,
   `np.broadcast_to(x, y.shape)`, `if y.shape[0] == 0: return y`, `tuple(len(d.subtotals) ..)` --
   and mexp's values carry symbolic axis tags only.  Here VALUES CARRY NUMERIC SHAPES:
       VScal x | VVec n f | VMat r c f | VNone (Python's None) | VErr (numpy / Python raises)
   and every operation follows numpy literally:
     * basic indexing with an integer needs the index IN RANGE (IndexError otherwise: `x[0]` of an
       array without rows is [VErr] -- the GenAgree lemmas carry the hypotheses  0 < nr  /  0 < nc
       exactly where the source needs them);
     * np.broadcast_to(v, shape) is right-aligned; an axis of v must have the target's length or
       length 1, anything else raises ([VErr]);
     * np.repeat([x], n) of a scalar x; np.apply_along_axis(np.sum, axis, a) raises when an
       iteration axis has length 0 (hence the guard of `_apply_along_orientation`); np.min / np.max
       of an empty array raise; arithmetic is cell-wise on EQUAL shapes or with a scalar (numpy's
       length-1 broadcasting of `/` is not modelled: a restriction, never an extension).
   A GenAgree lemma is only provable for a non-error value.

   LEAVES are looked up in an environment [benv]:
     [BCube c a]      self._cube_measures.<c>.<a>       (matrix, vector, scalar or None)
     [BBlock m i j]   self._second_order_measures.<m>.blocks[i][j], m a 2-D measure
     [BMBlock m k]    self._second_order_measures.<m>.blocks[k],     m a marginal
     [BSliceAttr a]   self._slice.<a>   (min_base_size_mask.py)      [BSize]  self._size
   The SUBTOTAL STRATEGIES are not re-read here: [BSum] / [BNanSub] / [BVSum] / [BVNanSub] record
   WHICH classmethod of matrix/subtotals.py / stripe/insertion.py is called on WHICH cube-measure
   array with WHICH flags; the meaning is a field of the environment, instantiated in
   Proofs/GenAgreeBasesTac.v with [strat_std] / [vstrat_std] -- the definitions the THIRD translator's
   lemmas (C04_gen_SumSubtotals, ..) prove those classmethods denote.

   TRUSTED: this file IS the reading of numpy the fourth GenAgree tie relies on.  Not modelled:
   dtype, views vs copies (np.broadcast_to returns a read-only view), warnings (np.errstate is
   transparent), signed zero, float rounding. *)
From Coq Require Import QArith ZArith List Bool Lia Arith String.
From CC Require Import Base.XQ Base.ListX.
Import ListNotations.
Local Close Scope Q_scope.
Local Close Scope string_scope.
Local Open Scope nat_scope.

(* ------------------------------------------------------------------------------------ *)
(** * syntax *)

(* a boolean argument of a strategy call: a literal or <cube-measure object>.<attribute> *)
Inductive bflag := FLit (b : bool) | FCube (c a : string).

(* basic indexing, the five shapes the sources use *)
Inductive bidx :=
| IAt (k : nat)            (* e[k] *)
| IRow (k : nat)           (* e[k, :] *)
| ICol (k : nat)           (* e[:, k] *)
| ICell (i j : nat)        (* e[i, j] *)
| INewCol.                 (* e[:, None] *)

Inductive cmpop := OLt | OLe | OGt | OGe.

Inductive bexp :=
| BCube (c a : string)
| BBlock (m : string) (bi bj : nat)
| BMBlock (m : string) (k : nat)
| BSliceAttr (a : string)
| BSize
| BSum (dcn drn : bflag) (c a : string) (bi bj : nat)
      (* SumSubtotals.blocks(cube c.a, dims, diff_cols_nan=dcn, diff_rows_nan=drn)[bi][bj];
         .subtotal_columns = [0][1], .subtotal_rows = [1][0], .intersections = [1][1] *)
| BNanSub (c a : string) (bi bj : nat)     (* NanSubtotals.blocks(cube c.a, dims)[bi][bj] *)
| BVSum (e : bexp)                          (* SumSubtotals.subtotal_values(e, rows_dimension) *)
| BVNanSub (e : bexp)                       (* NanSubtotals.subtotal_values(e, rows_dimension) *)
| BIndex (e : bexp) (ix : bidx)
| BBroadcast (e : bexp) (h : bshape)        (* np.broadcast_to(e, h) *)
| BRepeat1 (e : bexp) (n : bnat)            (* np.repeat([e], n), e a scalar *)
| BApplySum (ax : nat) (e : bexp)           (* np.apply_along_axis(np.sum, ax, e) *)
| BEmptyVec                                 (* np.array([], dtype=np.float64) *)
| BDiv (a b : bexp)
| BMinMax (e : bexp)                        (* np.array([np.min(e), np.max(e)]) *)
| BCmp (op : cmpop) (a b : bexp)            (* a < b ...: a boolean array, true = Fin 1, false = Fin 0 *)
| BIf (c : bcond) (a b : bexp)              (* `if c: return a` ... `return b`;  a if c else b *)
| BRaiseIf (c : bcond) (e : bexp)           (* `if c: raise ..` ... `return e` *)
with bshape :=
| HShape (e : bexp)                         (* e.shape *)
| HTuple2 (a b : bnat)                      (* (a, b) *)
| HSubsLens                                 (* tuple(len(d.subtotals) for d in self._dimensions) *)
with bnat :=
| NLit (k : nat)
| NAt (h : bshape) (k : nat)                (* h[k] *)
| NLenSubs (d : nat)                        (* len(self._dimensions[d].subtotals) *)
with bcond :=
| CLit (b : bool)
| CNatEq (a : bnat) (k : nat)               (* a == k *)
| CShapeIs (h : bshape) (l : list nat)      (* h == (k, ..) *)
| CIsNone (e : bexp)                        (* e is None *)
| CFlag (m a : string)                      (* self._second_order_measures.<m>.<a>, a boolean *)
| CNot (c : bcond).

(* ------------------------------------------------------------------------------------ *)
(** * values *)

Inductive bval :=
| VErr
| VNone
| VScal (x : xq)
| VVec (n : nat) (f : nat -> xq)
| VMat (r c : nat) (f : nat -> nat -> xq).

Record benv := mkBenv {
  e_nr : nat; e_nc : nat;                    (* base rows / columns *)
  e_nrs : nat; e_ncs : nat;                  (* row / column subtotals *)
  e_cube : string -> string -> bval;
  e_cubeflag : string -> string -> bool;
  e_block : string -> nat -> nat -> bval;
  e_mblock : string -> nat -> bval;
  e_mflag : string -> string -> bool;
  e_slice : string -> bval;
  e_size : bval;
  (* SumSubtotals: diff_cols_nan, diff_rows_nan, cube operand, block: the block's cells *)
  e_sum2 : bool -> bool -> string -> string -> nat -> nat -> nat -> nat -> xq;
  (* stripe SumSubtotals.subtotal_values on a vector *)
  e_vsum : (nat -> xq) -> nat -> xq }.

Definition flag_val (E : benv) (b : bflag) : bool :=
  match b with FLit x => x | FCube c a => e_cubeflag E c a end.

(* number of rows / columns of block [bi][bj] *)
Definition blk_rows (nr nrs bi : nat) : option nat :=
  match bi with 0 => Some nr | 1 => Some nrs | _ => None end.

Definition index_val (v : bval) (ix : bidx) : bval :=
  match ix, v with
  | IAt k, VVec n f => if k <? n then VScal (f k) else VErr
  | IAt k, VMat r c f => if k <? r then VVec c (f k) else VErr
  | IRow k, VMat r c f => if k <? r then VVec c (f k) else VErr
  | ICol k, VMat r c f => if k <? c then VVec r (fun i => f i k) else VErr
  | ICell i j, VMat r c f => if (i <? r) && (j <? c) then VScal (f i j) else VErr
  | INewCol, VVec n f => VMat n 1 (fun i _ => f i)
  | _, _ => VErr
  end.

(* one axis of np.broadcast_to: a source axis of length [src] read at target position [i] of an
   axis of length [tgt] *)
Definition bc_ok (src tgt : nat) : bool := (src =? tgt) || (src =? 1).
Definition bc_ix (src tgt i : nat) : nat := if src =? tgt then i else 0.

Definition broadcast_val (v : bval) (shape : list nat) : bval :=
  match shape, v with
  | [n], VScal x => VVec n (fun _ => x)
  | [n], VVec m f => if bc_ok m n then VVec n (fun i => f (bc_ix m n i)) else VErr
  | [r; c], VScal x => VMat r c (fun _ _ => x)
  | [r; c], VVec m f => if bc_ok m c then VMat r c (fun _ j => f (bc_ix m c j)) else VErr
  | [r; c], VMat a b f =>
      if bc_ok a r && bc_ok b c then VMat r c (fun i j => f (bc_ix a r i) (bc_ix b c j)) else VErr
  | _, _ => VErr
  end.

Definition bbin (op : xq -> xq -> xq) (a b : bval) : bval :=
  match a, b with
  | VScal x, VScal y => VScal (op x y)
  | VScal x, VVec n g => VVec n (fun i => op x (g i))
  | VVec n f, VScal y => VVec n (fun i => op (f i) y)
  | VScal x, VMat r c g => VMat r c (fun i j => op x (g i j))
  | VMat r c f, VScal y => VMat r c (fun i j => op (f i j) y)
  | VVec n f, VVec m g => if n =? m then VVec n (fun i => op (f i) (g i)) else VErr
  | VMat r c f, VMat r' c' g =>
      if (r =? r') && (c =? c') then VMat r c (fun i j => op (f i j) (g i j)) else VErr
  | _, _ => VErr
  end.

Definition cmp_val (op : cmpop) (x y : xq) : xq :=
  let b := match op with
           | OLt => xltb x y | OLe => xleb x y | OGt => xltb y x | OGe => xleb y x
           end in
  if b then Fin 1%Q else Fin 0%Q.

Definition cells (r c : nat) (f : nat -> nat -> xq) : list xq :=
  List.concat (tab r (fun i => tab c (fun j => f i j))).
Definition min_of (l : list xq) : xq := match l with [] => NaN | a :: t => fold_left xmin t a end.
Definition max_of (l : list xq) : xq := match l with [] => NaN | a :: t => fold_left xmax t a end.

Definition list_eqb (a b : list nat) : bool :=
  (List.length a =? List.length b) && forallb (fun p => fst p =? snd p) (combine a b).

(* ------------------------------------------------------------------------------------ *)
(** * the meaning of a term *)

Fixpoint beval (E : benv) (e : bexp) {struct e} : bval :=
  match e with
  | BCube c a => e_cube E c a
  | BBlock m bi bj => e_block E m bi bj
  | BMBlock m k => e_mblock E m k
  | BSliceAttr a => e_slice E a
  | BSize => e_size E
  | BSum dcn drn c a bi bj =>
      match e_cube E c a, blk_rows (e_nr E) (e_nrs E) bi, blk_rows (e_nc E) (e_ncs E) bj with
      | VMat r c' _, Some R, Some C =>
          if (r =? e_nr E) && (c' =? e_nc E)
          then VMat R C (e_sum2 E (flag_val E dcn) (flag_val E drn) c a bi bj)
          else VErr
      | _, _, _ => VErr
      end
  | BNanSub c a bi bj =>
      match e_cube E c a, bi, bj with
      | VMat r c' f, 0, 0 => VMat r c' f
      | VMat r c' _, 0, 1 => VMat r (e_ncs E) (fun _ _ => NaN)
      | VMat r c' _, 1, 0 => VMat (e_nrs E) c' (fun _ _ => NaN)
      | VMat r c' _, 1, 1 => VMat (e_nrs E) (e_ncs E) (fun _ _ => NaN)
      | _, _, _ => VErr
      end
  | BVSum a =>
      match beval E a with
      | VVec n f => if n =? e_nr E then VVec (e_nrs E) (e_vsum E f) else VErr
      | _ => VErr
      end
  | BVNanSub a =>
      match beval E a with
      | VVec n _ => VVec (e_nrs E) (fun _ => NaN)
      | _ => VErr
      end
  | BIndex a ix => index_val (beval E a) ix
  | BBroadcast a h =>
      match heval E h with
      | Some shape => broadcast_val (beval E a) shape
      | None => VErr
      end
  | BRepeat1 a n =>
      match beval E a, neval E n with
      | VScal x, Some k => VVec k (fun _ => x)
      | _, _ => VErr
      end
  | BApplySum ax a =>
      match beval E a, ax with
      | VMat r c f, 0 => if c =? 0 then VErr else VVec c (fun j => xsum (tab r (fun i => f i j)))
      | VMat r c f, 1 => if r =? 0 then VErr else VVec r (fun i => xsum (tab c (fun j => f i j)))
      | _, _ => VErr
      end
  | BEmptyVec => VVec 0 (fun _ => NaN)
  | BDiv a b => bbin xdiv (beval E a) (beval E b)
  | BMinMax a =>
      match beval E a with
      | VMat r c f =>
          match cells r c f with
          | [] => VErr
          | l => VVec 2 (fun k => match k with 0 => min_of l | _ => max_of l end)
          end
      | VVec n f =>
          match tab n f with
          | [] => VErr
          | l => VVec 2 (fun k => match k with 0 => min_of l | _ => max_of l end)
          end
      | _ => VErr
      end
  | BCmp op a b => bbin (cmp_val op) (beval E a) (beval E b)
  | BIf c a b =>
      match bceval E c with
      | Some true => beval E a
      | Some false => beval E b
      | None => VErr
      end
  | BRaiseIf c a =>
      match bceval E c with
      | Some false => beval E a
      | _ => VErr
      end
  end
with heval (E : benv) (h : bshape) {struct h} : option (list nat) :=
  match h with
  | HShape a =>
      match beval E a with
      | VVec n _ => Some [n]
      | VMat r c _ => Some [r; c]
      | VScal _ => Some []
      | _ => None
      end
  | HTuple2 a b =>
      match neval E a, neval E b with
      | Some x, Some y => Some [x; y]
      | _, _ => None
      end
  | HSubsLens => Some [e_nrs E; e_ncs E]
  end
with neval (E : benv) (n : bnat) {struct n} : option nat :=
  match n with
  | NLit k => Some k
  | NAt h k =>
      match heval E h with
      | Some l => nth_error l k
      | None => None
      end
  | NLenSubs d => match d with 0 => Some (e_nrs E) | 1 => Some (e_ncs E) | _ => None end
  end
with bceval (E : benv) (c : bcond) {struct c} : option bool :=
  match c with
  | CLit b => Some b
  | CNatEq a k => match neval E a with Some x => Some (x =? k) | None => None end
  | CShapeIs h l => match heval E h with Some s => Some (list_eqb s l) | None => None end
  | CIsNone a => match beval E a with VNone => Some true | VErr => None | _ => Some false end
  | CFlag m a => Some (e_mflag E m a)
  | CNot a => match bceval E a with Some b => Some (negb b) | None => None end
  end.

(* ------------------------------------------------------------------------------------ *)
(** * statement shapes of the GenAgree lemmas *)

Definition bagrees_scal (v : bval) (x : xq) : Prop :=
  match v with VScal y => y = x | _ => False end.
Definition bagrees_vec (v : bval) (n : nat) (g : nat -> xq) : Prop :=
  match v with
  | VVec n' f => n' = n /\ forall i, i < n -> f i = g i
  | _ => False
  end.
Definition bagrees_mat (v : bval) (r c : nat) (g : nat -> nat -> xq) : Prop :=
  match v with
  | VMat r' c' f => r' = r /\ c' = c /\ forall i j, i < r -> j < c -> f i j = g i j
  | _ => False
  end.
