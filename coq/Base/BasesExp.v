(* Base/BasesExp.v -- the meaning of the BASE measures and MARGINALS of
     src/cr/cube/matrix/measure.py   (_Column/_Row/_Table(Un)WeightedBases, _ColumnSquaredBases,
                                      _MarginWeightedBase, _MarginUnweightedBase, _MarginSquaredBase,
                                      _MarginTableBase, _MarginTableProportion, _TableBase,
                                      _TableBasesRange)
     src/cr/cube/stripe/measure.py   (_UnweightedBases, _WeightedBases, _UnweightedCounts,
                                      _WeightedCounts, _Means, _Medians, _Sums, _StdDev)
     src/cr/cube/min_base_size_mask.py
   as far as the fourth source translator (harness/translate/x_bases.py) reads them.

   [bexp] is the deep-embedded sub-language emitted into Gen/BasesSrc.v, Gen/StripeBasesSrc.v
   (one term per (class, member); for a `blocks` member one term per block; local names,
   `self.<lazyproperty>`, `self._method(args)` are inlined by the translator; a test of
   `self.orientation == MO.ROWS` is decided by the translator from the constructor argument the
   collection class passes -- one term per WIRING).  [beval] is its meaning.

   Why not [mexp] (Base/MeasureExp.v): these members are about SHAPES -- `x[0]`, `x[:, 0][:, None]`,
   `np.broadcast_to(x, y.shape)`, `if y.shape[0] == 0: return y`, `tuple(len(d.subtotals) ..)` --
   and mexp's values carry symbolic axis tags only.  Here VALUES CARRY NUMERIC SHAPES:
       WScal x | WVec n f | WMat r c f | WNone (Python's None) | WErr (numpy / Python raises)
   and every operation follows numpy literally:
     * basic indexing with an integer needs the index IN RANGE (IndexError otherwise: `x[0]` of an
       array without rows is [WErr] -- the GenAgree lemmas carry the hypotheses  0 < nr  /  0 < nc
       exactly where the source needs them);
     * np.broadcast_to(v, shape) is right-aligned; an axis of v must have the target's length or
       length 1, anything else raises ([WErr]);
     * np.repeat([x], n) of a scalar x; np.apply_along_axis(np.sum, axis, a) raises when an
       iteration axis has length 0 (hence the guard of `_apply_along_orientation`); np.min / np.max
       of an empty array raise; arithmetic is cell-wise on EQUAL shapes or with a scalar (numpy's
       length-1 broadcasting of `/` is not modelled: a restriction, never an extension).
   A GenAgree lemma is only provable for a non-error value.

   LEAVES are looked up in an environment [benv]:
     [BAttr c a]      self._cube_measures.<c>.<a>       (matrix, vector, scalar or None)
     [BBlock m i j]   self._second_order_measures.<m>.blocks[i][j], m a 2-D measure
     [BMBlock m k]    self._second_order_measures.<m>.blocks[k],     m a marginal
     [BSliceAttr a]   self._slice.<a>   (min_base_size_mask.py)      [BSize]  self._size
     [BArg p]         self._<p>, a constructor argument (scalar.py)  [BConstZ z]  an integer literal
   and a condition may ask whether the TYPE of a dimension is in one of the frozensets of
   enums.DIMENSION_TYPE ([QDimTypeIn d "ARRAY_TYPES"]: the environment carries the type's name and
   the sets, Gen/Tables.v [tbl_DT_sets]).  [carg] / [cmexp] at the end: which factory
   stripe/cubemeasure.py's CubeMeasures calls on which arguments (`a if a is not None else b`).
   The SUBTOTAL STRATEGIES are not re-read here: [BSum] / [BNanSub] / [BVSum] / [BVNanSub] record
   WHICH classmethod of matrix/subtotals.py / stripe/insertion.py is called on WHICH cube-measure
   array with WHICH flags; the meaning is a field of the environment, instantiated in
   Proofs/GenAgreeBasesTac.v with [strat_std] / [vstrat_std] -- the definitions the THIRD translator's
   lemmas (C04_gen_SumSubtotals, ..) prove those classmethods denote.

   TRUSTED: this file IS the reading of numpy the fourth GenAgree tie relies on.  Not modelled:
   dtype, views vs copies (np.broadcast_to returns a read-only view), warnings (np.errstate is
   transparent), signed zero, float rounding. *)
From Coq Require Import QArith ZArith List Bool Lia Arith String.
From CC Require Import Base.XQ Base.ListX.
Import ListNotations.
Local Close Scope Q_scope.
Local Close Scope string_scope.
Local Open Scope nat_scope.

(* ------------------------------------------------------------------------------------ *)
(** * syntax *)

(* a boolean argument of a strategy call: a literal or <cube-measure object>.<attribute> *)
Inductive bfl := FLit (b : bool) | FCube (c a : string).

(* basic indexing, the five shapes the sources use *)
Inductive bidx :=
| IAt (k : nat)            (* e[k] *)
| IRow (k : nat)           (* e[k, :] *)
| ICol (k : nat)           (* e[:, k] *)
| ICell (i j : nat)        (* e[i, j] *)
| INewCol.                 (* e[:, None] *)

Inductive cmpop := OLt | OLe | OGt | OGe.

Inductive bexp :=
| BAttr (c a : string)
| BBlock (m : string) (bi bj : nat)
| BMBlock (m : string) (k : nat)
| BSliceAttr (a : string)
| BSize
| BArg (p : string)                         (* self._<p>, p a constructor parameter (scalar.py) *)
| BConstZ (z : Z)                           (* an integer literal *)
| BSum (dcn drn : bfl) (c a : string) (bi bj : nat)
      (* SumSubtotals.blocks(cube c.a, dims, diff_cols_nan=dcn, diff_rows_nan=drn)[bi][bj];
         .subtotal_columns = [0][1], .subtotal_rows = [1][0], .intersections = [1][1] *)
| BNanSub (c a : string) (bi bj : nat)     (* NanSubtotals.blocks(cube c.a, dims)[bi][bj] *)
| BVSum (e : bexp)                          (* SumSubtotals.subtotal_values(e, rows_dimension) *)
| BVNanSub (e : bexp)                       (* NanSubtotals.subtotal_values(e, rows_dimension) *)
| BIndex (e : bexp) (ix : bidx)
| BBroadcast (e : bexp) (h : bshape)        (* np.broadcast_to(e, h) *)
| BRepeat1 (e : bexp) (n : bnat)            (* np.repeat([e], n), e a scalar *)
| BApplySum (ax : nat) (e : bexp)           (* np.apply_along_axis(np.sum, ax, e) *)
| BEmptyVec                                 (* np.array([], dtype=np.float64) *)
| BDiv (a b : bexp)
| BMinMax (e : bexp)                        (* np.array([np.min(e), np.max(e)]) *)
| BCmp (op : cmpop) (a b : bexp)            (* a < b ...: a boolean array, true = Fin 1, false = Fin 0 *)
| BIf (c : bcond) (a b : bexp)              (* `if c: return a` ... `return b`;  a if c else b *)
| BRaiseIf (c : bcond) (e : bexp)           (* `if c: raise ..` ... `return e` *)
with bshape :=
| HShape (e : bexp)                         (* e.shape *)
| HTuple2 (a b : bnat)                      (* (a, b) *)
| HSubsLens                                 (* tuple(len(d.subtotals) for d in self._dimensions) *)
with bnat :=
| LLit (k : nat)
| LAt (h : bshape) (k : nat)                (* h[k] *)
| LSubs (d : nat)                        (* len(self._dimensions[d].subtotals) *)
with bcond :=
| QLit (b : bool)
| QNatEq (a : bnat) (k : nat)               (* a == k *)
| QShapeIs (h : bshape) (l : list nat)      (* h == (k, ..) *)
| QIsNone (e : bexp)                        (* e is None *)
| QFlag (m a : string)                      (* self._second_order_measures.<m>.<a>, a boolean *)
| QDimTypeIn (d : nat) (set : string)       (* self._dimensions[d].dimension_type in DT.<set> *)
| QNot (c : bcond).

(* ------------------------------------------------------------------------------------ *)
(** * values *)

Inductive bval :=
| WErr
| WNone
| WScal (x : xq)
| WVec (n : nat) (f : nat -> xq)
| WMat (r c : nat) (f : nat -> nat -> xq).

Record benv := mkBenv {
  g_nr : nat; g_nc : nat;                    (* base rows / columns *)
  g_nrs : nat; g_ncs : nat;                  (* row / column subtotals *)
  g_cube : string -> string -> bval;
  g_cubeflag : string -> string -> bool;
  g_block : string -> nat -> nat -> bval;
  g_mblock : string -> nat -> bval;
  g_mflag : string -> string -> bool;
  g_slice : string -> bval;
  g_size : bval;
  g_arg : string -> bval;                    (* constructor arguments by parameter name *)
  g_dimtype : nat -> string;                 (* name of the dimension type of dimension d *)
  g_dtsets : list (string * list string);    (* the frozensets of DIMENSION_TYPE, by name *)
  (* SumSubtotals: diff_cols_nan, diff_rows_nan, cube operand, block: the block's cells *)
  g_sum2 : bool -> bool -> string -> string -> nat -> nat -> nat -> nat -> xq;
  (* stripe SumSubtotals.subtotal_values on a vector *)
  g_vsum : (nat -> xq) -> nat -> xq }.

Definition flag_val (E : benv) (b : bfl) : bool :=
  match b with FLit x => x | FCube c a => g_cubeflag E c a end.

(* number of rows / columns of block [bi][bj] *)
Definition blk_rows (nr nrs bi : nat) : option nat :=
  match bi with 0 => Some nr | 1 => Some nrs | _ => None end.

Definition index_val (v : bval) (ix : bidx) : bval :=
  match ix, v with
  | IAt k, WVec n f => if k <? n then WScal (f k) else WErr
  | IAt k, WMat r c f => if k <? r then WVec c (f k) else WErr
  | IRow k, WMat r c f => if k <? r then WVec c (f k) else WErr
  | ICol k, WMat r c f => if k <? c then WVec r (fun i => f i k) else WErr
  | ICell i j, WMat r c f => if (i <? r) && (j <? c) then WScal (f i j) else WErr
  | INewCol, WVec n f => WMat n 1 (fun i _ => f i)
  | _, _ => WErr
  end.

(* one axis of np.broadcast_to: a source axis of length [src] read at target position [i] of an
   axis of length [tgt] *)
Definition bc_ok (src tgt : nat) : bool := (src =? tgt) || (src =? 1).
Definition bc_ix (src tgt i : nat) : nat := if src =? tgt then i else 0.

Definition broadcast_val (v : bval) (shape : list nat) : bval :=
  match shape, v with
  | [n], WScal x => WVec n (fun _ => x)
  | [n], WVec m f => if bc_ok m n then WVec n (fun i => f (bc_ix m n i)) else WErr
  | [r; c], WScal x => WMat r c (fun _ _ => x)
  | [r; c], WVec m f => if bc_ok m c then WMat r c (fun _ j => f (bc_ix m c j)) else WErr
  | [r; c], WMat a b f =>
      if bc_ok a r && bc_ok b c then WMat r c (fun i j => f (bc_ix a r i) (bc_ix b c j)) else WErr
  | _, _ => WErr
  end.

Definition bbin (op : xq -> xq -> xq) (a b : bval) : bval :=
  match a, b with
  | WScal x, WScal y => WScal (op x y)
  | WScal x, WVec n g => WVec n (fun i => op x (g i))
  | WVec n f, WScal y => WVec n (fun i => op (f i) y)
  | WScal x, WMat r c g => WMat r c (fun i j => op x (g i j))
  | WMat r c f, WScal y => WMat r c (fun i j => op (f i j) y)
  | WVec n f, WVec m g => if n =? m then WVec n (fun i => op (f i) (g i)) else WErr
  | WMat r c f, WMat r' c' g =>
      if (r =? r') && (c =? c') then WMat r c (fun i j => op (f i j) (g i j)) else WErr
  | _, _ => WErr
  end.

Definition cmp_val (op : cmpop) (x y : xq) : xq :=
  let b := match op with
           | OLt => xltb x y | OLe => xleb x y | OGt => xltb y x | OGe => xleb y x
           end in
  if b then Fin 1%Q else Fin 0%Q.

Definition cells (r c : nat) (f : nat -> nat -> xq) : list xq :=
  List.concat (tab r (fun i => tab c (fun j => f i j))).
Definition min_of (l : list xq) : xq := match l with [] => NaN | a :: t => fold_left xmin t a end.
Definition max_of (l : list xq) : xq := match l with [] => NaN | a :: t => fold_left xmax t a end.

Fixpoint list_eqb (a b : list nat) : bool :=
  match a, b with
  | [], [] => true
  | x :: a', y :: b' => (x =? y) && list_eqb a' b'
  | _, _ => false
  end.

Definition in_set (t : string) (l : list string) : bool := existsb (String.eqb t) l.

Fixpoint str_assoc {A} (k : string) (l : list (string * A)) : option A :=
  match l with
  | [] => None
  | (k', v) :: t => if String.eqb k k' then Some v else str_assoc k t
  end.

(* ------------------------------------------------------------------------------------ *)
(** * the meaning of a term *)

Fixpoint beval (E : benv) (e : bexp) {struct e} : bval :=
  match e with
  | BAttr c a => g_cube E c a
  | BBlock m bi bj => g_block E m bi bj
  | BMBlock m k => g_mblock E m k
  | BSliceAttr a => g_slice E a
  | BSize => g_size E
  | BArg p => g_arg E p
  | BConstZ z => WScal (Fin (inject_Z z))
  | BSum dcn drn c a bi bj =>
      match g_cube E c a, blk_rows (g_nr E) (g_nrs E) bi, blk_rows (g_nc E) (g_ncs E) bj with
      | WMat r c' _, Some R, Some C =>
          if (r =? g_nr E) && (c' =? g_nc E)
          then WMat R C (g_sum2 E (flag_val E dcn) (flag_val E drn) c a bi bj)
          else WErr
      | _, _, _ => WErr
      end
  | BNanSub c a bi bj =>
      match g_cube E c a, bi, bj with
      | WMat r c' f, 0, 0 => WMat r c' f
      | WMat r c' _, 0, 1 => WMat r (g_ncs E) (fun _ _ => NaN)
      | WMat r c' _, 1, 0 => WMat (g_nrs E) c' (fun _ _ => NaN)
      | WMat r c' _, 1, 1 => WMat (g_nrs E) (g_ncs E) (fun _ _ => NaN)
      | _, _, _ => WErr
      end
  | BVSum a =>
      match beval E a with
      | WVec n f => if n =? g_nr E then WVec (g_nrs E) (g_vsum E f) else WErr
      | _ => WErr
      end
  | BVNanSub a =>
      match beval E a with
      | WVec n _ => WVec (g_nrs E) (fun _ => NaN)
      | _ => WErr
      end
  | BIndex a ix => index_val (beval E a) ix
  | BBroadcast a h =>
      match heval E h with
      | Some shape => broadcast_val (beval E a) shape
      | None => WErr
      end
  | BRepeat1 a n =>
      match beval E a, neval E n with
      | WScal x, Some k => WVec k (fun _ => x)
      | _, _ => WErr
      end
  | BApplySum ax a =>
      match beval E a, ax with
      | WMat r c f, 0 => if c =? 0 then WErr else WVec c (fun j => xsum (tab r (fun i => f i j)))
      | WMat r c f, 1 => if r =? 0 then WErr else WVec r (fun i => xsum (tab c (fun j => f i j)))
      | _, _ => WErr
      end
  | BEmptyVec => WVec 0 (fun _ => NaN)
  | BDiv a b => bbin xdiv (beval E a) (beval E b)
  | BMinMax a =>
      match beval E a with
      | WMat r c f =>
          match cells r c f with
          | [] => WErr
          | l => WVec 2 (fun k => match k with 0 => min_of l | _ => max_of l end)
          end
      | WVec n f =>
          match tab n f with
          | [] => WErr
          | l => WVec 2 (fun k => match k with 0 => min_of l | _ => max_of l end)
          end
      | _ => WErr
      end
  | BCmp op a b => bbin (cmp_val op) (beval E a) (beval E b)
  | BIf c a b =>
      match bceval E c with
      | Some true => beval E a
      | Some false => beval E b
      | None => WErr
      end
  | BRaiseIf c a =>
      match bceval E c with
      | Some false => beval E a
      | _ => WErr
      end
  end
with heval (E : benv) (h : bshape) {struct h} : option (list nat) :=
  match h with
  | HShape a =>
      match beval E a with
      | WVec n _ => Some [n]
      | WMat r c _ => Some [r; c]
      | WScal _ => Some []
      | _ => None
      end
  | HTuple2 a b =>
      match neval E a, neval E b with
      | Some x, Some y => Some [x; y]
      | _, _ => None
      end
  | HSubsLens => Some [g_nrs E; g_ncs E]
  end
with neval (E : benv) (n : bnat) {struct n} : option nat :=
  match n with
  | LLit k => Some k
  | LAt h k =>
      match heval E h with
      | Some l => nth_error l k
      | None => None
      end
  | LSubs d => match d with 0 => Some (g_nrs E) | 1 => Some (g_ncs E) | _ => None end
  end
with bceval (E : benv) (c : bcond) {struct c} : option bool :=
  match c with
  | QLit b => Some b
  | QNatEq a k => match neval E a with Some x => Some (x =? k) | None => None end
  | QShapeIs h l => match heval E h with Some s => Some (list_eqb s l) | None => None end
  | QIsNone a => match beval E a with WNone => Some true | WErr => None | _ => Some false end
  | QFlag m a => Some (g_mflag E m a)
  | QDimTypeIn d set =>
      match str_assoc set (g_dtsets E) with
      | Some l => Some (in_set (g_dimtype E d) l)
      | None => None
      end
  | QNot a => match bceval E a with Some b => Some (negb b) | None => None end
  end.

(* ------------------------------------------------------------------------------------ *)
(** * stripe/cubemeasure.py: what CubeMeasures hands to the factories *)

(* an argument of a factory call in CubeMeasures *)
Inductive carg :=
| KField (p : string)                    (* self._<p>, p a constructor parameter of CubeMeasures *)
| KCube (a : string)                     (* self._cube.<a> *)
| KOrElse (a b : carg).                  (* a if a is not None else b *)
(* <Base>.factory(args) *)
Inductive cmexp := CMFactory (base : string) (args : list carg).

(* the value of an argument: [None] is Python's None *)
Fixpoint carg_eval {A} (field cube : string -> option A) (a : carg) : option A :=
  match a with
  | KField p => field p
  | KCube x => cube x
  | KOrElse x y => match carg_eval field cube x with Some v => Some v | None => carg_eval field cube y end
  end.

(* ------------------------------------------------------------------------------------ *)
(** * statement shapes of the GenAgree lemmas *)

Definition bagrees_scal (v : bval) (x : xq) : Prop :=
  match v with WScal y => y = x | _ => False end.
Definition bagrees_vec (v : bval) (n : nat) (g : nat -> xq) : Prop :=
  match v with
  | WVec n' f => n' = n /\ forall i, i < n -> f i = g i
  | _ => False
  end.
Definition bagrees_mat (v : bval) (r c : nat) (g : nat -> nat -> xq) : Prop :=
  match v with
  | WMat r' c' f => r' = r /\ c' = c /\ forall i j, i < r -> j < c -> f i j = g i j
  | _ => False
  end.
