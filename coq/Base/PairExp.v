(* Base/PairExp.v -- the meaning of the PAIRWISE-SIGNIFICANCE formulas of
     src/cr/cube/matrix/measure.py            (_PairwiseSigTstats, _PairwiseSigPvals,
                                               _PairwiseMeansSigTStats, _PairwiseMeansSigPVals,
                                               _PairwiseSignificaneBetweenSubvariablesHelper,
                                               _PairwiseSigTStatsForSubvar / _PValsForSubvar)
     src/cr/cube/measures/pairwise_significance.py   (_ColumnPairwiseSignificance.t_stats)
     src/cr/cube/cubepart.py                  (_Slice._pairwise_indices)
   as far as the source translator harness/translate/x_pairwise.py reads them.

   Why a new language and not [mexp] of Base/MeasureExp.v: these formulas are parameterised by the
   SELECTED COLUMN, a signed integer that (a) is tested (`col_idx < 0`: an inserted column), (b) picks
   one column `a[:, [col_idx]]` with numpy's negative-index rule, (c) is handed on to another
   measure (`pairwise_t_stats(col_idx).blocks`); they index 2-D / 3-D arrays by integer parameters
   (`selected_bases[row, a, b]`), branch on array sizes (`props.size == 0`) and end in a call of
   scipy's CDF.  [mexp] has none of these and its conditional pushes the test into the cells of two
   equally-shaped branches, which `... if t_stats.size > 0 else 0` is not.  Values ([mval]), tagged
   broadcasting ([bin]), [xpow], the signed square ([ssq]) and [sqrt_guard] ARE those of
   Base/MeasureExp.v.

   [pexp] is emitted into Gen/PairwiseSrc.v; [pev] is its meaning, in two modes:
       pev false   the value               (an expression with np.sqrt in it has none: VErr)
       pev true    the SIGNED SQUARE v*|v| (square roots below products / quotients / abs / column
                                            selection / broadcasting only; ssq (sqrt e) = e unless
                                            e < 0 -> NaN)
   The CDF is a field of the environment: [PCdf x df] is [pe_cdf (x*|x|) df] -- the CDF as a function
   of the signed square of its first argument (x |-> x*|x| is a bijection, so nothing is lost); every
   statement about a p-value is for ALL functions [pe_cdf].

   A conditional is Python's: the test is evaluated, ONE branch is the value (the branches may have
   different shapes).

   The index sets of cubepart._Slice._pairwise_indices are a second, tiny language ([bmexp]:
   boolean matrices; [ipev]: `[tuple(np.where(row)[0]) for row in <boolean matrix>]`).

   TRUSTED: this file IS the reading of numpy the tie relies on: cell-wise arithmetic with right-
   aligned broadcasting forced by the axis TAGS, ** k / np.power(., k), np.abs / abs, a[:, [k]] with
   the negative-index rule (out of range: error), np.broadcast_to(a, b.shape), np.full(a.shape, nan),
   .size, a[i, j] / a[i, j, k] by integers (same index rule), `<`, np.logical_and, x[:, k] = False, np.where(row)[0].
   Not modelled: dtype, warnings (np.errstate is transparent), views vs copies, signed zero. *)
From Coq Require Import QArith ZArith List Bool Lia Arith String.
From CC Require Import Base.XQ Base.ListX Base.MeasureExp.
Import ListNotations.
Local Close Scope Q_scope.
Local Close Scope string_scope.
Local Open Scope nat_scope.

(* ------------------------------------------------------------------------------------ *)
(** * syntax *)

(* an integer-valued parameter: a constructor argument / method parameter (by canonical name) or
   the index of an enclosing comprehension (0 = outer = row, 1 = inner = column) *)
Inductive ixe := IxParam (s : string) | IxLoop (k : nat).

Inductive pexp :=
| PConst (q : Q)                          (* a numeric literal *)
| PBlock (m : string) (bi bj : nat)       (* self._second_order_measures.<m>.blocks[bi][bj] *)
| PPairBlock (m : string) (k : ixe) (bi bj : nat)
                                          (* self._second_order_measures.<m>(k).blocks[bi][bj] *)
| PCube (c a : string)                    (* self._cube_measures.<c>.<a> (2-D) *)
| PSlice (a : string)                     (* self._slice.<a> (legacy class) *)
| PIdx2 (a : pexp) (i j : ixe)            (* a[i, j], a 2-D *)
| PIdx3 (c a : string) (i j k : ixe)      (* <3-D cube-measure array c.a>[i, j, k] *)
| PAdd (a b : pexp) | PSub (a b : pexp) | PMul (a b : pexp) | PDiv (a b : pexp)
| PPow (a : pexp) (k : nat)               (* a ** k, np.power(a, k) *)
| PSqrt (a : pexp)                        (* np.sqrt(a) *)
| PAbs (a : pexp)                         (* np.abs(a), abs(a) *)
| PColSel (a : pexp) (k : ixe)            (* a[:, [k]] *)
| PBroadcastLike (a b : pexp)             (* np.broadcast_to(a, b.shape) *)
| PNanLike (a : pexp)                     (* np.full(a.shape, np.nan) *)
| PNanSub (a : pexp) (bi bj : nat)        (* NanSubtotals.blocks(a, dimensions)[bi][bj] *)
| PCdf (x df : pexp)                      (* t.cdf(x, df=df) *)
| PNCdf (x : pexp)                        (* norm.cdf(x) *)
| PIdx1 (a : pexp) (k : ixe)              (* a[k], a 1-D *)
| PScal (s : string)                      (* an opaque scalar field of self (self._alpha) *)
| PMaskRowsSum (m nv : pexp)              (* np.sum(m[~np.isnan(nv), :], axis=0), m 2-D, nv 1-D *)
| PTab2 (c a : string) (body : pexp)
      (* np.array([[body for j in range(X.shape[1])] for i in range(X.shape[0])]), X the 3-D cube
         array c.a (rows x columns x columns); body a scalar in IxLoop 0 (= i) and IxLoop 1 (= j) *)
| PTabR (r : pexp) (c a : string) (body : pexp)
      (* M = []; for i in range(r.shape[0]): R = []; for j in range(X.shape[1]): R.append(body);
         M.append(R); np.array(M)  --  r a 2-D array, X the 3-D cube array c.a *)
| PIdx3S (c a : string) (i j k : ixe)
      (* OverlapSubtotals.blocks(<3-D cube array c.a>, dimensions, diff_cols_nan=True)[1][0][i, j, k]:
         the inserted-rows block of the tensor *)
| PZeroRows (a : pexp)                    (* np.zeros((0, a.shape[1])) *)
| PIf (c : pcond) (a b : pexp)            (* `if c: return a` ... `return b`;  a if c else b *)
with pcond :=
| CIxNeg (k : ixe)                        (* k < 0 *)
| CIxEq (a b : ixe)                       (* a == b *)
| CSizeZero (a : pexp)                    (* a.size == 0 *)
| CSizePos (a : pexp)                     (* a.size > 0 *)
| CPFlag (s : string)                     (* an opaque boolean: <measure>.is_defined, <x> is not None *)
| CNdimLt2 (a : pexp)                     (* a.ndim < 2 *)
| CPNot (c : pcond).

(* ------------------------------------------------------------------------------------ *)
(** * environment *)

Record penv := mkPenv {
  pe_size : dim -> nat;
  pe_ix : string -> Z;
  pe_loop : nat -> Z;
  pe_block : string -> nat -> nat -> list (list xq);
  pe_pblock : string -> Z -> nat -> nat -> list (list xq);
  pe_cube : string -> string -> mval;
  pe_slice : string -> mval;
  pe_cube3 : string -> string -> list (list (list xq));
  pe_flag : string -> bool;
  pe_cdf : xq -> xq -> xq;
  pe_ncdf : xq -> xq;                 (* norm.cdf as a function of the signed square of its argument *)
  pe_scal : string -> xq;
  (* OverlapSubtotals.blocks(<cube array c.a>, ..)[1][0]: one subvariable x subvariable matrix per
     inserted row (its meaning: Model/Subtotals.v via C04_gen_OverlapSubtotals) *)
  pe_ovrows : string -> string -> list (list (list xq)) }.

Definition with_loop (E : penv) (i j : nat) : penv :=
  mkPenv (pe_size E) (pe_ix E)
         (fun k => match k with 0 => Z.of_nat i | _ => Z.of_nat j end)
         (pe_block E) (pe_pblock E) (pe_cube E) (pe_slice E) (pe_cube3 E)
         (pe_flag E) (pe_cdf E) (pe_ncdf E) (pe_scal E) (pe_ovrows E).

Definition ixv (E : penv) (k : ixe) : Z :=
  match k with IxParam s => pe_ix E s | IxLoop n => pe_loop E n end.

(* numpy's rule for one integer index on an axis of length n *)
Definition nidx (n : nat) (z : Z) : option nat :=
  if (z <? 0)%Z
  then (if (- Z.of_nat n <=? z)%Z then Some (Z.to_nat (Z.of_nat n + z)) else None)
  else (if (z <? Z.of_nat n)%Z then Some (Z.to_nat z) else None).

(* a[:, [k]] : the axis of length 1 that remains is tagged D1 *)
Definition colsel (E : penv) (v : mval) (z : Z) : mval :=
  match v with
  | VMat r c f =>
      match nidx (pe_size E c) z with
      | Some k => VMat r D1 (fun i _ => f i k)
      | None => VErr
      end
  | _ => VErr
  end.

(* np.broadcast_to(a, b.shape): every axis of a is the target's or has length 1 *)
Definition bcast_like (a b : mval) : mval :=
  match a, b with
  | VMat r c f, VMat r' c' _ =>
      if (dim_eqb r r' || dim_eqb r D1) && (dim_eqb c c' || dim_eqb c D1)
      then VMat r' c' (fun i j => f (bix r i) (bix c j))
      else VErr
  | VScal x, VMat r' c' _ => VMat r' c' (fun _ _ => x)
  | _, _ => VErr
  end.

Definition vsize (E : penv) (v : mval) : option nat :=
  match v with
  | VErr => None
  | VScal _ => Some 1
  | VVec d _ => Some (pe_size E d)
  | VMat r c _ => Some (pe_size E r * pe_size E c)
  end.

(* a[i, j]: the bounds are the lengths of the TAGGED axes *)
Definition idx2 (E : penv) (v : mval) (zi zj : Z) : mval :=
  match v with
  | VMat r c f =>
      match nidx (pe_size E r) zi, nidx (pe_size E c) zj with
      | Some i, Some j => VScal (f i j)
      | _, _ => VErr
      end
  | _ => VErr
  end.

Definition idx3_of (A : list (list (list xq))) (zi zj zk : Z) : mval :=
  match nidx (List.length A) zi with
  | Some i =>
      let M := nth i A [] in
      match nidx (nrows M) zj with
      | Some j =>
          match nidx (List.length (nth j M [])) zk with
          | Some k => VScal (mnth M j k)
          | None => VErr
          end
      | None => VErr
      end
  | None => VErr
  end.
Definition idx3 (E : penv) (c a : string) (zi zj zk : Z) : mval := idx3_of (pe_cube3 E c a) zi zj zk.

(* a[k] of a 1-D array *)
Definition idx1 (E : penv) (v : mval) (z : Z) : mval :=
  match v with
  | VVec d f => match nidx (pe_size E d) z with Some i => VScal (f i) | None => VErr end
  | _ => VErr                          (* a row of a 2-D array: not modelled *)
  end.

(* np.sum(m[~np.isnan(nv), :], axis=0): per column, the sum over the rows whose nv is not NaN *)
Definition mask_rows_sum (E : penv) (m nv : mval) : mval :=
  match m, nv with
  | VMat r c f, VVec r' g =>
      if dim_eqb r r'
      then VVec c (fun j => xsum (map (fun i => f i j)
                                      (filter (fun i => negb (is_nan (g i))) (seq 0 (pe_size E r)))))
      else VErr
  | _, _ => VErr
  end.

Definition nansub (v : mval) (bi bj : nat) : mval :=
  match bi, bj with
  | 0, 0 => match v with VMat DR DC f => VMat DR DC f | _ => VErr end
  | _, _ => match v, rdim bi, cdim bj with
            | VMat DR DC _, Some r, Some c => VMat r c (fun _ _ => NaN)
            | _, _, _ => VErr
            end
  end.

Definition scal_or_nan (v : mval) : xq := match v with VScal x => x | _ => NaN end.
Definition is_scal (v : mval) : bool := match v with VScal _ => true | _ => false end.

(* ------------------------------------------------------------------------------------ *)
(** * the meaning of a term *)

Fixpoint pev (sq : bool) (E : penv) (e : pexp) {struct e} : mval :=
  match e with
  | PConst q => (if sq then vmap ssq else fun v => v) (VScal (Fin q))
  | PBlock m bi bj =>
      (if sq then vmap ssq else fun v => v)
        (match rdim bi, cdim bj with
         | Some r, Some c => VMat r c (mnth (pe_block E m bi bj))
         | _, _ => VErr
         end)
  | PPairBlock m k bi bj =>
      (if sq then vmap ssq else fun v => v)
        (match rdim bi, cdim bj with
         | Some r, Some c => VMat r c (mnth (pe_pblock E m (ixv E k) bi bj))
         | _, _ => VErr
         end)
  | PCube c a => (if sq then vmap ssq else fun v => v) (pe_cube E c a)
  | PSlice a => (if sq then vmap ssq else fun v => v) (pe_slice E a)
  | PIdx2 a i j => idx2 E (pev sq E a) (ixv E i) (ixv E j)
  | PIdx3 c a i j k =>
      (if sq then vmap ssq else fun v => v) (idx3 E c a (ixv E i) (ixv E j) (ixv E k))
  | PAdd a b => (if sq then vmap ssq else fun v => v) (bin xadd (pev false E a) (pev false E b))
  | PSub a b => (if sq then vmap ssq else fun v => v) (bin xsub (pev false E a) (pev false E b))
  | PMul a b => bin xmul (pev sq E a) (pev sq E b)
  | PDiv a b => bin xdiv (pev sq E a) (pev sq E b)
  | PPow a k => (if sq then vmap ssq else fun v => v) (vmap (fun x => xpow x k) (pev false E a))
  | PSqrt a => if sq then vmap sqrt_guard (pev false E a) else VErr
  | PAbs a => vmap xabs (pev sq E a)
  | PColSel a k => colsel E (pev sq E a) (ixv E k)
  | PBroadcastLike a b => bcast_like (pev sq E a) (pev true E b)
  | PNanLike a => vmap (fun _ => NaN) (pev true E a)
  | PNanSub a bi bj => nansub (pev sq E a) bi bj
  | PCdf x df =>
      (if sq then vmap ssq else fun v => v) (bin (pe_cdf E) (pev true E x) (pev false E df))
  | PNCdf x => (if sq then vmap ssq else fun v => v) (vmap (pe_ncdf E) (pev true E x))
  | PIdx1 a k => idx1 E (pev sq E a) (ixv E k)
  | PScal s => (if sq then vmap ssq else fun v => v) (VScal (pe_scal E s))
  | PMaskRowsSum m nv =>
      (if sq then vmap ssq else fun v => v) (mask_rows_sum E (pev false E m) (pev false E nv))
  | PTab2 c a body =>
      let nr := pe_size E DR in
      let nc := pe_size E DC in
      let X := pe_cube3 E c a in
      (* X.shape[0], X.shape[1] must be the lengths of the axes tagged DR, DC *)
      match Nat.eqb (List.length X) nr && (Nat.eqb nr 0 || Nat.eqb (nrows (nth 0 X [])) nc) with
      | true =>
          if forallb (fun i => forallb (fun j => is_scal (pev sq (with_loop E i j) body))
                                       (seq 0 nc)) (seq 0 nr)
          then VMat DR DC (fun i j => scal_or_nan (pev sq (with_loop E i j) body))
          else VErr
      | false => VErr
      end
  | PTabR r c a body =>
      match pev true E r with
      | VMat rt _ _ =>
          let nr := pe_size E rt in
          let nc := pe_size E DC in
          (* X.shape[1] must be the length of the axis tagged DC *)
          if Nat.eqb (nrows (nth 0 (pe_cube3 E c a) [])) nc
          then if forallb (fun i => forallb (fun j => is_scal (pev sq (with_loop E i j) body))
                                            (seq 0 nc)) (seq 0 nr)
               then VMat rt DC (fun i j => scal_or_nan (pev sq (with_loop E i j) body))
               else VErr
          else VErr
      | _ => VErr
      end
  | PIdx3S c a i j k =>
      (if sq then vmap ssq else fun v => v) (idx3_of (pe_ovrows E c a) (ixv E i) (ixv E j) (ixv E k))
  | PZeroRows a =>
      match pev true E a with
      | VMat _ c _ => if Nat.eqb (pe_size E DRS) 0 then VMat DRS c (fun _ _ => Fin 0%Q) else VErr
      | _ => VErr
      end
  | PIf c a b =>
      match pcev E c with
      | Some true => pev sq E a
      | Some false => pev sq E b
      | None => VErr
      end
  end
with pcev (E : penv) (c : pcond) {struct c} : option bool :=
  match c with
  | CIxNeg k => Some (ixv E k <? 0)%Z
  | CIxEq a b => Some (ixv E a =? ixv E b)%Z
  | CSizeZero a => option_map (fun n => Nat.eqb n 0) (vsize E (pev true E a))
  | CSizePos a => option_map (fun n => negb (Nat.eqb n 0)) (vsize E (pev true E a))
  | CPFlag s => Some (pe_flag E s)
  | CNdimLt2 a => match pev true E a with
                  | VErr => None
                  | VMat _ _ _ => Some false
                  | _ => Some true
                  end
  | CPNot a => option_map negb (pcev E a)
  end.

(* ------------------------------------------------------------------------------------ *)
(** * statement shapes *)

Definition pagrees_mat (E : penv) (v : mval) (dr dc : dim) (g : nat -> nat -> xq) : Prop :=
  match v with
  | VMat r c f => r = dr /\ c = dc /\
                  forall i j, i < pe_size E dr -> j < pe_size E dc -> f i j = g i j
  | _ => False
  end.
Definition pagrees_scal (v : mval) (x : xq) : Prop :=
  match v with VScal y => y = x | _ => False end.

(* ------------------------------------------------------------------------------------ *)
(** * index sets: cubepart._Slice._pairwise_indices *)

(* boolean matrices over the method's parameters, by canonical role:
     "p_vals" "t_stats" (2-D arrays of one shape), "alpha" (scalar), "only_larger" (bool),
     "col_idx" (optional integer) *)
Inductive bmexp :=
| BLtScal (a s : string)                  (* <array a> < <scalar s> *)
| BLtZero (a : string)                    (* <array a> < 0 *)
| BAnd (x y : bmexp)                      (* np.logical_and(x, y) *)
| BColFalse (x : bmexp) (k : string)      (* x[:, k] = False  (k an integer parameter) *)
| BIfFlag (f : string) (x y : bmexp)      (* if <bool parameter f>: x  else: y *)
| BIfGiven (k : string) (x y : bmexp).    (* if <k> is not None: x  else: y *)

Record benv := mkBenv {
  be_rows : nat; be_cols : nat;
  be_arr : string -> list (list xq);
  be_scal : string -> xq;
  be_flag : string -> bool;
  be_opt : string -> option Z }.

(* None: an error (index out of range / None used as an index) *)
Fixpoint bmev (E : benv) (b : bmexp) {struct b} : option (nat -> nat -> bool) :=
  match b with
  | BLtScal a s => Some (fun i j => xltb (mnth (be_arr E a) i j) (be_scal E s))
  | BLtZero a => Some (fun i j => xltb (mnth (be_arr E a) i j) (Fin 0%Q))
  | BAnd x y =>
      match bmev E x, bmev E y with
      | Some f, Some g => Some (fun i j => f i j && g i j)
      | _, _ => None
      end
  | BColFalse x k =>
      match bmev E x, be_opt E k with
      | Some f, Some z =>
          match nidx (be_cols E) z with
          | Some c => Some (fun i j => if Nat.eqb j c then false else f i j)
          | None => None
          end
      | _, _ => None
      end
  | BIfFlag fl x y => if be_flag E fl then bmev E x else bmev E y
  | BIfGiven k x y => match be_opt E k with Some _ => bmev E x | None => bmev E y end
  end.

(* col_significance[:] = [tuple(np.where(sig_row)[0]) for sig_row in significance] *)
Definition rows_where (E : benv) (f : nat -> nat -> bool) : list (list nat) :=
  tab (be_rows E) (fun i => filter (fun j => f i j) (seq 0 (be_cols E))).

Definition ipev (E : benv) (b : bmexp) : option (list (list nat)) :=
  option_map (rows_where E) (bmev E b).

(* ------------------------------------------------------------------------------------ *)
(** * index tuples of 1-D tests: tuple(np.where(<boolean vector>)[0]) *)

Inductive bvexp :=
| BVLt (a b : pexp)                       (* a < b  (values; b a scalar or of a's shape) *)
| BVNeg (a : pexp)                        (* a < 0  (a may contain np.sqrt: its sign is that of a*|a|) *)
| BVAnd (x y : bvexp)                     (* np.logical_and(x, y) *)
| BVIf (c : pcond) (x y : bvexp).         (* if c: ...  else: ... *)

(* a boolean array with tagged shape (only vectors and scalars) *)
Inductive bval := BErr | BScal (b : bool) | BVec (d : dim) (f : nat -> bool).

Definition blt (a b : mval) : bval :=
  match a, b with
  | VVec d f, VScal y => BVec d (fun i => xltb (f i) y)
  | VVec d f, VVec d' g => if dim_eqb d d' then BVec d (fun i => xltb (f i) (g i)) else BErr
  | VScal x, VScal y => BScal (xltb x y)
  | _, _ => BErr
  end.
Definition band (a b : bval) : bval :=
  match a, b with
  | BVec d f, BVec d' g => if dim_eqb d d' then BVec d (fun i => f i && g i) else BErr
  | BScal x, BScal y => BScal (x && y)
  | _, _ => BErr
  end.

Fixpoint bvev (E : penv) (b : bvexp) {struct b} : bval :=
  match b with
  | BVLt x y => blt (pev false E x) (pev false E y)
  | BVNeg x => blt (pev true E x) (VScal (Fin 0%Q))
  | BVAnd x y => band (bvev E x) (bvev E y)
  | BVIf c x y => match pcev E c with
                  | Some true => bvev E x
                  | Some false => bvev E y
                  | None => BErr
                  end
  end.

(* tuple(np.where(v)[0]) of a 1-D boolean array *)
Definition where1 (E : penv) (v : bval) : option (list nat) :=
  match v with
  | BVec d f => Some (filter f (seq 0 (pe_size E d)))
  | _ => None
  end.
