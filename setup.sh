#!/bin/bash
# MANIFEST.setup_cmd: build the whole Coq development from files on disk (offline).
set -e
cd "$(dirname "$0")"
export PYTHONHASHSEED=0 PYTHONPATH="$PWD:${VERIF_REPO:-/repo}/src" PYTHONDONTWRITEBYTECODE=1
/venv/bin/python - <<'PY'
from harness import core
ok, log, rep = core.ensure_built()
print(log[-3000:])
print("translator: %d members read, %d unavailable, errors=%s" % (rep.get("n_translated", 0), rep.get("n_unavailable", 0), rep.get("errors")))
import sys
sys.exit(0 if ok else 1)
PY
