# -*- coding: utf-8 -*-
"""Running the real implementation (current /repo working tree) on generated cases."""
import copy
import signal
import warnings

from harness import core  # noqa: F401  (puts /repo/src on sys.path)

import numpy as np  # noqa: E402
from cr.cube.cube import Cube, CubeSet  # noqa: E402,F401


class Timeout(Exception):
    pass


def _alarm(signum, frame):
    raise Timeout()


# what `guarded` does with Python warnings raised inside the library: "ignore" (default) or "error"
# (set temporarily by the warnings-as-errors legs: a value the property promises must not turn into an
# exception when the caller runs with `-W error`)
WARN_FILTER = "ignore"


RETRIED_TIMEOUTS = {"n": 0}


def guarded(fn, seconds=20, retry=True):
    """Run fn() -> ('ok', value) | ('exc', ExceptionTypeName, message).

    A call that does not finish within `seconds` on a loaded machine (the dominant-vector cases of C14 expand
    1e7..1e8 respondents for the margin medians) is retried ONCE with a 300 s limit before the timeout is
    reported: a timeout is a verdict about the machine unless it persists (alarm on the unchanged tree in the
    thorough sweep of 2026-10-02, C14 case 1076, while 14 other jobs were running; DESIGN 8.3).  Every thunk
    handed to `guarded` builds fresh objects or reads properties, so running it twice is harmless."""
    r = _guarded_once(fn, seconds)
    if retry and r[0] == "exc" and r[1] == "Timeout":
        RETRIED_TIMEOUTS["n"] += 1
        r = _guarded_once(fn, 300)
    return r


def _guarded_once(fn, seconds):
    old = signal.signal(signal.SIGALRM, _alarm)
    signal.alarm(seconds)
    try:
        with warnings.catch_warnings():
            warnings.simplefilter(WARN_FILTER)
            return ("ok", fn())
    except Timeout:
        return ("exc", "Timeout", "")
    except Exception as e:  # noqa
        return ("exc", type(e).__name__, str(e)[:300])
    finally:
        signal.alarm(0)
        signal.signal(signal.SIGALRM, old)


def get(obj, name, *args):
    """Read property / call method `name` of obj, guarded."""

    def f():
        v = getattr(obj, name)
        if callable(v) and not isinstance(v, np.ndarray):
            v = v(*args)
        return v

    return guarded(f)


def cube(response, transforms=None, population=None, mask_size=0, cube_idx=None):
    """Fresh Cube on deep copies of its arguments (the library edits dicts in place)."""
    return Cube(
        copy.deepcopy(response),
        cube_idx=cube_idx,
        transforms=copy.deepcopy(transforms) if transforms is not None else None,
        population=population,
        mask_size=mask_size,
    )


def partition(response, transforms=None, k=0, **kw):
    return cube(response, transforms, **kw).partitions[k]


DISPLAY_KEYS = ("order", "prune")


def strip_display(transforms, keep_smoother=True):
    """Transforms with ordering, hiding and pruning removed (insertions, names kept)."""
    if not transforms:
        return transforms
    out = copy.deepcopy(transforms)
    for dk in ("rows_dimension", "columns_dimension"):
        d = out.get(dk)
        if not isinstance(d, dict):
            continue
        for key in DISPLAY_KEYS:
            d.pop(key, None)
        if not keep_smoother:
            d.pop("smoother", None)
        els = d.get("elements")
        if isinstance(els, dict):
            for k in list(els.keys()):
                if isinstance(els[k], dict):
                    els[k].pop("hide", None)
    return out


def tolist(x):
    if x is None:
        return None
    if isinstance(x, np.ndarray):
        return x.tolist()
    if isinstance(x, (tuple, list)):
        return [tolist(v) for v in x]
    if isinstance(x, (np.floating,)):
        return float(x)
    if isinstance(x, (np.integer,)):
        return int(x)
    return x


def blocks2d(matrix, row_order, col_order, n_rows, n_cols, n_rsub, n_csub):
    """Recover the four payload-order blocks of an assembled matrix read through the public
    API of an *untransformed* (no order / hide / prune) partition.

    row_order / col_order: signed display orders reported by the partition.
    Returns [[base, subtotal_cols], [subtotal_rows, intersections]] as nested lists.
    """
    m = np.asarray(matrix, dtype=float)
    full = np.full((n_rows + n_rsub, n_cols + n_csub), np.nan)
    seen = np.zeros(full.shape, dtype=bool)
    for di, r in enumerate(row_order):
        ri = r if r >= 0 else n_rows + n_rsub + r
        for dj, c in enumerate(col_order):
            cj = c if c >= 0 else n_cols + n_csub + c
            full[ri, cj] = m[di, dj]
            seen[ri, cj] = True
    if not seen.all():
        raise ValueError("display order does not cover all blocks")
    return [
        [full[:n_rows, :n_cols].tolist(), full[:n_rows, n_cols:].tolist()],
        [full[n_rows:, :n_cols].tolist(), full[n_rows:, n_cols:].tolist()],
    ]


def blocks1d(vector, order, n, n_sub):
    v = np.asarray(vector, dtype=float)
    full = np.full(n + n_sub, np.nan)
    seen = np.zeros(n + n_sub, dtype=bool)
    for di, r in enumerate(order):
        ri = r if r >= 0 else n + n_sub + r
        full[ri] = v[di]
        seen[ri] = True
    if not seen.all():
        raise ValueError("display order does not cover all blocks")
    return [full[:n].tolist(), full[n:].tolist()]


def dims_info(part):
    """(n_base_rows, n_row_subtotals, n_base_cols, n_col_subtotals) of a slice, or
    (n_rows, n_subtotals) of a strand, through (semi-)public attributes."""
    dims = part._dimensions
    out = []
    for d in dims:
        out.append(len(d.valid_elements))
        out.append(len(d.subtotals))
    return tuple(out)


def subtotal_idxs(part):
    """Per dimension of the partition: list of (addend_idxs, subtrahend_idxs) of its valid
    subtotals, in definition order (read from the library's own Dimension objects)."""
    out = []
    for d in part._dimensions:
        out.append([
            ([int(i) for i in s.addend_idxs], [int(i) for i in s.subtrahend_idxs])
            for s in d.subtotals
        ])
    return out
