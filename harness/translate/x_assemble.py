# -*- coding: utf-8 -*-
"""Source translator of the ASSEMBLERS (round 3, workstream `assemble`): reads

    <repo>/src/cr/cube/cubepart.py          _Slice._assemble_matrix / _assemble_marginal, the label /
                                            code / alias lists, rows_dimension_fills, inserted_* /
                                            derived_* / diff_* position lists, the two signed display
                                            orders; _Strand._assemble_vector and the strand twins
    <repo>/src/cr/cube/matrix/assembler.py  the order helpers: factory dispatch on COLLATION_METHOD, the
                                            collator each helper calls, key resolution of the sort-by-
                                            value helpers, ValueError fallback, subtotal pruning, the
                                            keyword -> measure / marginal tables
    <repo>/src/cr/cube/stripe/assembler.py  the strand twins
    <repo>/src/cr/cube/enums.py             COLLATION_METHOD, MEASURE, MARGINAL (member -> value)

with Python's `ast` and writes

    coq/Gen/AssembleSrc.v       `Definition asm_<Class>_<member> : option aexp`   (Base/AsmExp.v)
    coq/Gen/OrderHelperSrc.v    `Definition ord_<module>_<Class>_<member> : option hexp`, the factories
                                `ord_<module>_<factory> : option hexp`          (Base/OrderExp.v)
    coq/Gen/SortTablesSrc.v     `Definition tbl_<name> : option (list (string * string))`

Proofs/GenAgreeAssemble.v, GenAgreeOrderHelpers.v, GenAgreeSortTables.v prove, for all sizes and inputs,
that each term denotes the definition of Model/Assemble.v, Model/SortKeys.v + Model/OrderOrient.v.

Same rules as the other translators: WHITELIST, fail-closed (an AST shape that is not listed makes THAT
member `None` + `NOTE translator-unavailable`), never guesses, never repairs; inheritance flattened;
`self.<lazyproperty>` and `self._method(args)` inlined with virtual dispatch; local names inlined; files
rewritten only when their text changes.  `regenerate(repo_src, gen_dir, report)` is called from
translate.regenerate (plugin hook) on every check.

`read_tables(repo_src)` gives the same keyword tables as Python dicts to harness/props/c08.py (which used
to read them with its own `ast` code).
"""
import ast
import os

from harness.translate import translate as T
from harness.translate import measures as M

VERSION = "x_assemble.py/1"

A_CUBEPART = "cr/cube/cubepart.py"
A_MATRIX = "cr/cube/matrix/assembler.py"
A_STRIPE = "cr/cube/stripe/assembler.py"
A_ENUMS = "cr/cube/enums.py"

GEN_FILES = ("AssembleSrc.v", "OrderHelperSrc.v", "SortTablesSrc.v")

Unavailable = T.Unavailable
_un = T._un
q = T.q


def _rebound(mod, names):
    """names (of `names`) that are stored / deleted / imported / defined anywhere in the module other
    than by the module-level imports themselves"""
    bad = set()
    toplevel_imports = [n for n in mod.body if isinstance(n, (ast.Import, ast.ImportFrom))]
    for node in ast.walk(mod):
        if isinstance(node, ast.Name) and isinstance(node.ctx, (ast.Store, ast.Del)) and node.id in names:
            bad.add(node.id)
        elif isinstance(node, (ast.Import, ast.ImportFrom)) and node not in toplevel_imports:
            for a in node.names:
                nm = (a.asname or a.name).split(".")[0]
                if nm in names or nm == "*":
                    bad.add(nm)
        elif isinstance(node, (ast.FunctionDef, ast.AsyncFunctionDef, ast.ClassDef)) and node.name in names:
            bad.add(node.name)
        elif isinstance(node, ast.arg) and node.arg in names:
            bad.add(node.arg)
        elif isinstance(node, (ast.Global, ast.Nonlocal)):
            bad.update(n for n in node.names if n in names)
        elif isinstance(node, ast.ExceptHandler) and node.name in names:
            bad.add(node.name)
    for node in toplevel_imports:
        for a in node.names:
            if a.name == "*":
                bad.add("*")
    return bad


# ------------------------------------------------------------------------------------
# printing of aexp
# ------------------------------------------------------------------------------------


def p_z(z):
    return "(ZLit (%d)%%Z)" % z


def p_zexp(t):
    k = t[0]
    if k == "ZIdx":
        return "ZIdx"
    if k == "ZLit":
        return p_z(t[1])
    if k == "ZLenIn":
        return "(ZLenIn %s)" % q(t[1])
    if k == "ZAdd":
        return "(ZAdd %s %s)" % (p_zexp(t[1]), p_zexp(t[2]))
    raise AssertionError(t)


def p_icond(c):
    k = c[0]
    if k == "ICmp":
        return "(ICmp %s %s %s)" % (c[1], p_zexp(c[2]), p_zexp(c[3]))
    if k == "IAnd":
        return "(IAnd %s %s)" % (p_icond(c[1]), p_icond(c[2]))
    if k == "INot":
        return "(INot %s)" % p_icond(c[1])
    raise AssertionError(c)


def p_iexp(t):
    k = t[0]
    if k == "IItemIn":
        return "(IItemIn %s %s)" % (q(t[1]), p_zexp(t[2]))
    if k == "IIf":
        return "(IIf %s %s %s)" % (p_icond(t[1]), p_iexp(t[2]), p_iexp(t[3]))
    raise AssertionError(t)


def p_acond(c):
    k = c[0]
    if k == "CFlag":
        return "(CFlag %s)" % q(c[1])
    if k == "CIsMember":
        return "(CIsMember %s %s %s)" % (q(c[1]), q(c[2]), q(c[3]))
    if k == "CNot":
        return "(CNot %s)" % p_acond(c[1])
    raise AssertionError(c)


def p_aexp(t):
    k = t[0]
    if k == "AIn":
        return "(AIn %s)" % q(t[1])
    if k == "ANone":
        return "ANone"
    if k == "AOrd":
        return "(AOrd %s %s)" % (t[1], t[2])
    if k in ("AIntArray", "AArray", "ABlock", "AHstack", "AConcat", "ALen", "AWhere0", "ATuple"):
        return "(%s %s)" % (k, p_aexp(t[1]))
    if k in ("AIx", "AIndex", "AListAdd"):
        return "(%s %s %s)" % (k, p_aexp(t[1]), p_aexp(t[2]))
    if k == "ARepeat":
        return "(ARepeat %s %s)" % ("true" if t[1] else "false", p_aexp(t[2]))
    if k == "AIf":
        return "(AIf %s %s %s)" % (p_acond(t[1]), p_aexp(t[2]), p_aexp(t[3]))
    if k == "AEnumPos":
        return "(AEnumPos %s %s)" % (p_aexp(t[1]), p_icond(t[2]))
    if k == "AMapIdx":
        return "(AMapIdx %s %s)" % (p_aexp(t[1]), p_iexp(t[2]))
    raise AssertionError(t)


# ------------------------------------------------------------------------------------
# cubepart.py: the assembly step
# ------------------------------------------------------------------------------------

_CMP = {ast.Lt: "CLt", ast.LtE: "CLe", ast.Gt: "CGt", ast.GtE: "CGe", ast.Eq: "CEq", ast.NotEq: "CNe"}
_A_RESERVED = ("self", "cls", "np", "len", "tuple", "enumerate", "MO", "ORDER_FORMAT", "_BaseOrderHelper",
               "stripe_BaseOrderHelper", "lazyproperty", "int")

# attributes of `self` that are NOT looked into: what they are is another translator's / nobody's business
_A_TERMINALS = {
    "_Slice": {"_dimensions": ("dims",), "_measures": ("measures",)},
    "_Strand": {"_rows_dimension": ("in", "rowsdim"), "_measures": ("measures",)},
}
_OFUN = {
    ("_BaseOrderHelper", "row_display_order"): "FMatrixRow",
    ("_BaseOrderHelper", "column_display_order"): "FMatrixColumn",
    ("stripe_BaseOrderHelper", "display_order"): "FStripe",
}
# the arguments each factory must be given (abstract values), before `format=`
_OFUN_ARGS = {
    "FMatrixRow": [("dims",), ("measures",)],
    "FMatrixColumn": [("dims",), ("measures",)],
    "FStripe": [("in", "rowsdim"), ("measures",)],
}
_FMT = {"SIGNED_INDEXES": "FmtSigned", "BOGUS_IDS": "FmtBogus"}


class _A(object):
    def __init__(self, text):
        self.text = text
        self.m = M._Mod(text, A_CUBEPART)
        self.problem = self._check_module()

    def _check_module(self):
        imp = self.m.imported()
        want = {
            "np": ("numpy", None),
            "MO": ("cr.cube.enums", "MARGINAL_ORIENTATION"),
            "ORDER_FORMAT": ("cr.cube.enums", "ORDER_FORMAT"),
            "_BaseOrderHelper": ("cr.cube.matrix.assembler", "_BaseOrderHelper"),
            "stripe_BaseOrderHelper": ("cr.cube.stripe.assembler", "_BaseOrderHelper"),
            "lazyproperty": ("cr.cube.util", "lazyproperty"),
        }
        for nm, v in want.items():
            if imp.get(nm) != v:
                return "the name %s is not imported as expected" % nm
        bad = _rebound(self.m.mod, set(want) | {"len", "tuple", "enumerate", "int"})
        if bad:
            return "the name(s) %s are rebound in the module" % ", ".join(sorted(bad))
        return None

    # -- entry ------------------------------------------------------------------------
    def member(self, cname, mname):
        if self.problem:
            _un(self.problem)
        fn = self.m.resolve(cname, mname)
        if fn is None:
            _un("%s has no member %s" % (cname, mname))
        ctx = {"cname": cname, "env": {}, "stack": ((cname, mname),), "idx": None}
        if M._plain_lazy(fn):
            v = self.body(T._strip_doc(fn.body), ctx, fn)
        elif M._plain_method(fn):
            env = {}
            for a in fn.args.args[1:]:
                if a.arg in _A_RESERVED:
                    _un("parameter shadows %s" % a.arg, fn)
                env[a.arg] = ("in", a.arg)
            v = self.body(T._strip_doc(fn.body), dict(ctx, env=env), fn)
        elif self._format_method(fn):
            v = self.body(T._strip_doc(fn.body), dict(ctx, env={"format": ("in", "format")}), fn)
        else:
            _un("%s.%s is neither a plain @lazyproperty nor a plain method" % (cname, mname), fn)
        return self.exp(v, fn)

    @staticmethod
    def _format_method(fn):
        """`def m(self, format=ORDER_FORMAT.SIGNED_INDEXES)`, undecorated"""
        a = fn.args
        return (
            not fn.decorator_list
            and [x.arg for x in a.args] == ["self", "format"]
            and not (a.vararg or a.kwarg or a.kwonlyargs or a.posonlyargs)
            and len(a.defaults) == 1
            and T._is_attr(a.defaults[0], "ORDER_FORMAT", "SIGNED_INDEXES")
        )

    # -- coercions ----------------------------------------------------------------------
    def exp(self, v, node):
        k = v[0]
        if k == "exp":
            return v[1]
        if k == "in":
            return ("AIn", v[1])
        if k == "none":
            return ("ANone",)
        _un("not an array / sequence valued expression of the sub-language (%s)" % k, node)

    def cond(self, v, node):
        if v[0] == "cond":
            return v[1]
        if v[0] == "in":
            return ("CFlag", v[1])
        _un("not a condition of the sub-language (%s)" % v[0], node)

    # -- statements ---------------------------------------------------------------------
    def body(self, stmts, ctx, where):
        if not stmts:
            _un("no `return <expr>` on this path", where)
        st, rest = stmts[0], stmts[1:]
        if isinstance(st, ast.Return):
            if st.value is None:
                _un("bare return", st)
            return self.expr(st.value, ctx)
        if (
            isinstance(st, ast.Assign) and len(st.targets) == 1
            and isinstance(st.targets[0], ast.Name) and st.targets[0].id not in _A_RESERVED
        ):
            env = dict(ctx["env"])
            env[st.targets[0].id] = self.expr(st.value, ctx)
            return self.body(rest, dict(ctx, env=env), where)
        if isinstance(st, ast.Expr) and isinstance(st.value, ast.Constant) and isinstance(st.value.value, str):
            return self.body(rest, ctx, where)
        if isinstance(st, ast.If):
            c = self.cond(self.expr(st.test, ctx), st.test)
            a = self.body(list(st.body), ctx, st)
            if st.orelse:
                if rest:
                    _un("statements after an if / else", rest[0])
                b = self.body(list(st.orelse), ctx, st)
            else:
                b = self.body(list(rest), ctx, where)
            return ("exp", ("AIf", c, self.exp(a, st), self.exp(b, st)))
        _un("statement not read", st)

    # -- expressions --------------------------------------------------------------------
    def expr(self, e, ctx):
        if isinstance(e, ast.Constant):
            if e.value is None:
                return ("none",)
            if type(e.value) is bool:
                return ("bool", e.value)
            if type(e.value) is int:
                return ("int", e.value)
            _un("literal outside the sub-language", e)
        if isinstance(e, ast.UnaryOp) and isinstance(e.op, ast.USub):
            v = self.expr(e.operand, ctx)
            if v[0] == "int":
                return ("int", -v[1])
            _un("negation of something other than an int literal", e)
        if isinstance(e, ast.UnaryOp) and isinstance(e.op, ast.Not):
            v = self.expr(e.operand, ctx)
            if v[0] == "icond":
                return ("icond", ("INot", v[1]))
            return ("cond", ("CNot", self.cond(v, e.operand)))
        if isinstance(e, ast.BoolOp) and isinstance(e.op, ast.And):
            vs = [self.expr(x, ctx) for x in e.values]
            if all(v[0] == "icond" for v in vs):
                out = vs[0][1]
                for v in vs[1:]:
                    out = ("IAnd", out, v[1])
                return ("icond", out)
            _un("`and` outside the sub-language", e)
        if isinstance(e, ast.Name):
            if e.id in ctx["env"]:
                return ctx["env"][e.id]
            if e.id == "self":
                return ("self",)
            _un("name not bound in the method", e)
        if isinstance(e, ast.Attribute):
            return self.attribute(e, ctx)
        if isinstance(e, ast.Subscript):
            return self.subscript(e, ctx)
        if isinstance(e, ast.Compare):
            return self.compare(e, ctx)
        if isinstance(e, ast.IfExp):
            c = self.expr(e.test, ctx)
            a, b = self.expr(e.body, ctx), self.expr(e.orelse, ctx)
            if c[0] == "icond":
                return ("iexp", ("IIf", c[1], self.iexp(a, e.body), self.iexp(b, e.orelse)))
            return ("exp", ("AIf", self.cond(c, e.test), self.exp(a, e.body), self.exp(b, e.orelse)))
        if isinstance(e, ast.BinOp):
            return self.binop(e, ctx)
        if isinstance(e, ast.List):
            if len(e.elts) == 1:
                v = self.expr(e.elts[0], ctx)
                if v[0] == "bool":
                    return ("boollist", v[1])
            _un("list display outside the sub-language", e)
        if isinstance(e, (ast.ListComp, ast.GeneratorExp)):
            return self.comprehension(e, ctx)
        if isinstance(e, ast.Call):
            return self.call(e, ctx)
        _un("expression outside the sub-language", e)

    def zexp(self, v, node):
        if v[0] == "zexp":
            return v[1]
        if v[0] == "int":
            return ("ZLit", v[1])
        if v[0] == "exp" and v[1][0] == "ALen" and v[1][1][0] == "AIn":
            return ("ZLenIn", v[1][1][1])
        # len(tuple(<input>)) == len(<input>)
        if v[0] == "exp" and v[1][0] == "ALen" and v[1][1][0] == "ATuple" and v[1][1][1][0] == "AIn":
            return ("ZLenIn", v[1][1][1][1])
        _un("not an integer expression of the sub-language (%s)" % v[0], node)

    def iexp(self, v, node):
        if v[0] == "iexp":
            return v[1]
        if v[0] == "item":
            return ("IItemIn", v[1], v[2])
        _un("not an element expression of a generator (%s)" % v[0], node)

    def binop(self, e, ctx):
        l, r = self.expr(e.left, ctx), self.expr(e.right, ctx)
        if isinstance(e.op, ast.Add):
            if l[0] in ("zexp", "int") or r[0] in ("zexp", "int"):
                if ctx["idx"] is None:
                    _un("integer arithmetic outside a generator", e)
                return ("zexp", ("ZAdd", self.zexp(l, e.left), self.zexp(r, e.right)))
            if l[0] == "zlen" or r[0] == "zlen":
                _un("integer arithmetic outside the sub-language", e)
            return ("exp", ("AListAdd", self.exp(l, e.left), self.exp(r, e.right)))
        if isinstance(e.op, ast.Mult) and l[0] == "boollist":
            return ("exp", ("ARepeat", l[1], self.exp(r, e.right)))
        _un("operator outside the sub-language", e)

    def compare(self, e, ctx):
        if len(e.ops) != 1:
            _un("chained comparison", e)
        op, l, r = e.ops[0], self.expr(e.left, ctx), self.expr(e.comparators[0], ctx)
        if l[0] == "in" and r[0] == "enum" and isinstance(op, ast.Eq):
            return ("cond", ("CIsMember", l[1], r[1], r[2]))
        if l[0] == "in" and r[0] == "enum" and isinstance(op, ast.NotEq):
            return ("cond", ("CNot", ("CIsMember", l[1], r[1], r[2])))
        if l[0] == "in" and r[0] == "fmt" and isinstance(op, ast.Eq):
            return ("cond", ("CIsMember", l[1], "ORDER_FORMAT", r[2]))
        if ctx["idx"] is not None and type(op) in _CMP:
            return ("icond", ("ICmp", _CMP[type(op)], self.zexp(l, e.left), self.zexp(r, e.comparators[0])))
        _un("comparison outside the sub-language", e)

    def attribute(self, e, ctx):
        env = ctx["env"]
        if isinstance(e.value, ast.Name) and e.value.id not in env:
            nm = e.value.id
            if nm == "MO":
                return ("enum", "MARGINAL_ORIENTATION", e.attr)
            if nm == "ORDER_FORMAT":
                if e.attr in _FMT:
                    return ("fmt", _FMT[e.attr], e.attr)
                _un("unknown ORDER_FORMAT member", e)
            if (nm, e.attr) in _OFUN:
                return ("ofun", _OFUN[(nm, e.attr)])
        base = self.expr(e.value, ctx)
        if base == ("self",):
            cname = ctx["cname"]
            term = _A_TERMINALS.get(cname, {}).get(e.attr)
            fn = self.m.resolve(cname, e.attr)
            if term is not None:
                if fn is None or not M._plain_lazy(fn):
                    _un("self.%s is not a plain @lazyproperty" % e.attr, e)
                return term
            if fn is None or not M._plain_lazy(fn):
                _un("self.%s is not a plain @lazyproperty of the class" % e.attr, e)
            key = (cname, e.attr)
            if key in ctx["stack"]:
                _un("%s.%s refers to itself" % key, e)
            sub = dict(ctx, env={}, stack=ctx["stack"] + (key,), idx=None)
            return self.body(T._strip_doc(fn.body), sub, fn)
        if base[0] == "in":
            return ("in", base[1] + "." + e.attr)
        if base[0] == "item":
            # <seq>[k].<attr>  ==  [x.<attr> for x in <seq>][k]
            return ("item", base[1] + "." + e.attr, base[2])
        _un("attribute outside the sub-language", e)

    def subscript(self, e, ctx):
        # np.where(x)[0]
        if (
            isinstance(e.value, ast.Call) and T._is_attr(e.value.func, "np", "where") and "np" not in ctx["env"]
            and T._nat(e.slice) == 0
        ):
            c = e.value
            if len(c.args) != 1 or c.keywords:
                _un("np.where arguments", e)
            return ("exp", ("AWhere0", self.exp(self.expr(c.args[0], ctx), c.args[0])))
        base = self.expr(e.value, ctx)
        if isinstance(e.slice, (ast.Slice, ast.Tuple)):
            _un("slicing outside the sub-language", e)
        if base[0] == "dims":
            k = T._nat(e.slice)
            if k in (0, 1):
                return ("in", "dim%d" % k)
            _un("dimension index other than 0 / 1", e)
        ix = self.expr(e.slice, ctx)
        if ix[0] in ("zexp", "int") and ctx["idx"] is not None:
            # <python sequence>[k] inside a generator over the order
            if base[0] == "in":
                return ("item", base[1], self.zexp(ix, e.slice))
            if base[0] == "exp" and base[1][0] == "ATuple" and base[1][1][0] == "AIn":
                return ("item", base[1][1][1], self.zexp(ix, e.slice))  # tuple(X)[k] == X[k]
            _un("item of something other than an input sequence", e)
        return ("exp", ("AIndex", self.exp(base, e.value), self.exp(ix, e.slice)))

    def comprehension(self, e, ctx):
        if len(e.generators) != 1 or getattr(e.generators[0], "is_async", 0):
            _un("comprehension with several loops", e)
        g = e.generators[0]
        # (i for i, x in enumerate(<order>) if <cond on x>)
        if (
            isinstance(g.iter, ast.Call) and T._is_name(g.iter.func, "enumerate") and "enumerate" not in ctx["env"]
        ):
            if len(g.iter.args) != 1 or g.iter.keywords:
                _un("enumerate arguments", g.iter)
            tg = g.target
            if not (
                isinstance(tg, ast.Tuple) and len(tg.elts) == 2
                and all(isinstance(x, ast.Name) and x.id not in _A_RESERVED for x in tg.elts)
                and tg.elts[0].id != tg.elts[1].id
            ):
                _un("loop target not read", tg)
            if not (isinstance(e.elt, ast.Name) and e.elt.id == tg.elts[0].id):
                _un("the element of an enumerate comprehension is not the position", e.elt)
            if len(g.ifs) != 1:
                _un("enumerate comprehension without exactly one condition", e)
            src = self.exp(self.expr(g.iter.args[0], ctx), g.iter.args[0])
            env = dict(ctx["env"])
            env.pop(tg.elts[0].id, None)
            env[tg.elts[1].id] = ("zexp", ("ZIdx",))
            c = self.expr(g.ifs[0], dict(ctx, env=env, idx=tg.elts[1].id))
            if c[0] != "icond":
                _un("condition of the comprehension outside the sub-language", g.ifs[0])
            return ("exp", ("AEnumPos", src, c[1]))
        if g.ifs:
            _un("comprehension with a condition", e)
        if not isinstance(g.target, ast.Name) or g.target.id in _A_RESERVED:
            _un("loop target not read", g.target)
        it = self.expr(g.iter, ctx)
        # [x.<attr> for x in <input sequence>]  -> the input `<path>.<attr>`
        if (
            it[0] == "in" and isinstance(e.elt, ast.Attribute) and T._is_name(e.elt.value, g.target.id)
        ):
            return ("in", it[1] + "." + e.elt.attr)
        # (<element expression of idx> for idx in <order>)
        if ctx["idx"] is not None:
            _un("nested generators", e)
        src = self.exp(it, g.iter)
        env = dict(ctx["env"])
        env[g.target.id] = ("zexp", ("ZIdx",))
        body = self.expr(e.elt, dict(ctx, env=env, idx=g.target.id))
        return ("exp", ("AMapIdx", src, self.iexp(body, e.elt)))

    def call(self, e, ctx):
        f = e.func
        env = ctx["env"]
        if any(isinstance(a, ast.Starred) for a in e.args) or any(k.arg is None for k in e.keywords):
            _un("star arguments", e)
        if isinstance(f, ast.Name) and f.id not in env:
            if f.id in ("len", "tuple"):
                if len(e.args) != 1 or e.keywords:
                    _un("%s arity" % f.id, e)
                v = self.expr(e.args[0], ctx)
                return ("exp", ("ALen" if f.id == "len" else "ATuple", self.exp(v, e.args[0])))
            _un("call outside the sub-language", e)
        if isinstance(f, ast.Attribute) and T._is_name(f.value, "np") and "np" not in env:
            return self.np_call(f.attr, e, ctx)
        if isinstance(f, ast.Attribute):
            fv = self.expr(f, ctx) if not T._is_name(f.value, "self") else None
            if fv is not None and fv[0] == "ofun":
                return self.order_call(fv[1], e, ctx)
            if T._is_name(f.value, "self") and "self" not in env:
                return self.call_method(f.attr, e, ctx)
        _un("call outside the sub-language", e)

    def order_call(self, ofun, e, ctx):
        args = [self.expr(a, ctx) for a in e.args]
        kws = {k.arg: self.expr(k.value, ctx) for k in e.keywords}
        if len(args) == 3 and not kws:
            args, kws = args[:2], {"format": args[2]}
        if args != _OFUN_ARGS[ofun] or set(kws) != {"format"} or kws["format"][0] != "fmt":
            _un("arguments of the order factory not read", e)
        return ("exp", ("AOrd", ofun, kws["format"][1]))

    def call_method(self, mname, e, ctx):
        cname = ctx["cname"]
        fn = self.m.resolve(cname, mname)
        if fn is None or not M._plain_method(fn):
            _un("%s.%s is not a plain method" % (cname, mname), e)
        key = (cname, mname)
        if key in ctx["stack"]:
            _un("%s.%s refers to itself" % key, e)
        params = [a.arg for a in fn.args.args][1:]
        if any(p in _A_RESERVED for p in params) or len(set(params)) != len(params):
            _un("%s.%s: parameter names" % key, fn)
        if e.keywords or len(e.args) != len(params):
            _un("%s.%s: arity / keywords" % key, e)
        env = {p: self.expr(a, ctx) for p, a in zip(params, e.args)}
        sub = dict(ctx, env=env, stack=ctx["stack"] + (key,), idx=None)
        return self.body(T._strip_doc(fn.body), sub, fn)

    def np_call(self, name, e, ctx):
        args = [self.expr(a, ctx) for a in e.args]
        kws = {k.arg: k.value for k in e.keywords}
        one = {"block": "ABlock", "hstack": "AHstack", "concatenate": "AConcat"}
        if name in one:
            if len(args) != 1 or kws:
                _un("np.%s arguments" % name, e)
            return ("exp", (one[name], self.exp(args[0], e)))
        if name == "ix_":
            if len(args) != 2 or kws:
                _un("np.ix_ arguments", e)
            return ("exp", ("AIx", self.exp(args[0], e), self.exp(args[1], e)))
        if name == "array":
            if len(args) != 1 or set(kws) - {"dtype"}:
                _un("np.array arguments", e)
            if "dtype" in kws:
                if not (T._is_name(kws["dtype"], "int") and "int" not in ctx["env"]):
                    _un("np.array dtype other than int", e)
                return ("exp", ("AIntArray", self.exp(args[0], e)))
            return ("exp", ("AArray", self.exp(args[0], e)))
        _un("np.%s outside the sub-language" % name, e)


ASM_TARGETS = (
    ("_Slice", "Slice", (
        "_assemble_matrix", "_assemble_marginal", "_row_order_signed_indexes", "_column_order_signed_indexes",
        "row_labels", "row_codes", "row_aliases", "column_labels", "column_codes", "column_aliases",
        "rows_dimension_fills", "inserted_row_idxs", "inserted_column_idxs",
        "derived_row_idxs", "derived_column_idxs", "diff_row_idxs", "diff_column_idxs",
        "row_order", "column_order",
    )),
    ("_Strand", "Strand", (
        "_assemble_vector", "_row_order_signed_indexes", "row_labels", "row_codes", "row_aliases",
        "rows_dimension_fills", "inserted_row_idxs", "derived_row_idxs", "diff_row_idxs", "row_order",
    )),
)

ASM_HEADER = """(* GENERATED by harness/translate/x_assemble.py from %s
   -- do not edit; rewritten (only when its text changes) on every check.
   One definition per (class, member): [Some <aexp>] = what the source says, read through the
   whitelist of the translator (Base/AsmExp.v gives the meaning); [None] = the translator could
   not read the member (it is then tied to the model by the correspondence check only). *)
From Coq Require Import List String ZArith.
From CC Require Import Base.AsmExp.
Import ListNotations.
Local Open Scope string_scope.

"""


def _gen_assemble(text, report):
    tr = _A(text)
    L = []
    for cname, stem, members in ASM_TARGETS:
        L.append("(** * cubepart.%s *)" % cname)
        for m in members:
            what = "%s.%s" % (cname, m)
            try:
                term = "Some %s" % p_aexp(tr.member(cname, m))
                report["methods_translated"].append("cubepart-assembly:%s" % what)
            except Unavailable as ex:
                term = "None"
                report["unavailable"].append({"method": "cubepart-assembly:%s" % what, "reason": str(ex)})
                L.append("(* %s not read: %s *)" % (what, T._coq_comment(str(ex))))
            L.append("Definition asm_%s_%s : option aexp := %s." % (stem, m, term))
        L.append("")
    return ASM_HEADER % ("src/" + A_CUBEPART) + "\n".join(L) + "\n"


# ------------------------------------------------------------------------------------
# the keyword tables and the enumerations
# ------------------------------------------------------------------------------------


def _enum_members(enums_text, cname):
    """`class <cname>(enum.Enum)`: [(MEMBER, "value")] in source order; members only (plain
    `NAME = "<str>"` assignments, each name once), methods are tolerated"""
    mod = ast.parse(enums_text)
    hits = [n for n in mod.body if isinstance(n, ast.ClassDef) and n.name == cname]
    if len(hits) != 1:
        _un("enums.py: class %s not found exactly once" % cname)
    c = hits[0]
    if c.decorator_list or c.keywords or len(c.bases) != 1 or not T._is_attr(c.bases[0], "enum", "Enum"):
        _un("enums.%s is not a plain `class %s(enum.Enum)`" % (cname, cname), c)
    if _rebound(mod, {"enum"}):
        _un("enums.py rebinds the name enum")
    out, seen = [], set()
    for st in c.body:
        if isinstance(st, ast.Expr) and isinstance(st.value, ast.Constant) and isinstance(st.value.value, str):
            continue
        if isinstance(st, ast.FunctionDef):
            if st.name.startswith("_") and st.name != "has_value":
                _un("enums.%s defines %s" % (cname, st.name), st)
            continue
        if (
            isinstance(st, ast.Assign) and len(st.targets) == 1 and isinstance(st.targets[0], ast.Name)
            and isinstance(st.value, ast.Constant) and type(st.value.value) is str
            and '"' not in st.value.value and "\\" not in st.value.value
        ):
            nm = st.targets[0].id
            if nm in seen or nm.startswith("_"):
                _un("enums.%s: member %s bound twice / private" % (cname, nm), st)
            seen.add(nm)
            out.append((nm, st.value.value))
            continue
        _un("enums.%s: statement not read" % cname, st)
    if len(set(v for _, v in out)) != len(out):
        _un("enums.%s has aliases (two members with one value)" % cname)
    return out


def _str_dict(node, enum_alias=None):
    """a dict display {<key>: "<str>"} with keys `"<str>"` or `<enum_alias>.<MEMBER>`:
    [(key, value)] in source order, keys as ("s", str) / ("m", MEMBER); None if not such a display"""
    if not isinstance(node, ast.Dict):
        return None
    out = []
    for k, v in zip(node.keys, node.values):
        if not (isinstance(v, ast.Constant) and type(v.value) is str and '"' not in v.value and "\\" not in v.value):
            return None
        if isinstance(k, ast.Constant) and type(k.value) is str and '"' not in k.value and "\\" not in k.value:
            out.append((("s", k.value), v.value))
        elif enum_alias is not None and isinstance(k, ast.Attribute) and T._is_name(k.value, enum_alias):
            out.append((("m", k.attr), v.value))
        else:
            return None
    return out


def _python_dict(pairs):
    """what a dict display denotes: the LAST binding of a key wins (at the position of the first)"""
    d = {}
    for k, v in pairs:
        d[k] = v
    return list(d.items())


class _Tables(object):
    """the three keyword tables as (a) [(key, value)] lists in source order with enum-member keys
    resolved to their values through enums.py, (b) the raw displays for the helper translator"""

    def __init__(self, matrix_text, stripe_text, enums_text):
        self.errors = {}
        self.enums = {}
        for nm in ("COLLATION_METHOD", "MEASURE", "MARGINAL"):
            try:
                self.enums[nm] = _enum_members(enums_text, nm)
            except (Unavailable, SyntaxError, TypeError) as ex:
                self.enums[nm] = None
                self.errors["enum_" + nm] = str(ex)
        self.tables = {}
        self.where = {}     # table name -> (module kind, lineno, col_offset) of the dict display
        jobs = (
            ("matrix", matrix_text, "_BaseOrderHelper", "_measure", "M", "MEASURE"),
            ("marginal", matrix_text, "_SortRowsByMarginalHelper", "_marginal", "MARGINAL", "MARGINAL"),
            ("strand", stripe_text, "_SortByMeasureHelper", "_measure", None, None),
        )
        for name, text, cname, mname, alias, ename in jobs:
            try:
                self._pos = None
                self.tables[name] = self._table(text, cname, mname, alias, ename)
                self.where[name] = ("stripe" if name == "strand" else "matrix",) + self._pos
            except (Unavailable, SyntaxError, TypeError) as ex:
                self.tables[name] = None
                self.errors["table_" + name] = str(ex)

    def _table(self, text, cname, mname, alias, ename):
        mod = M._Mod(text, "assembler")
        if cname not in mod.classes or cname in mod.dup:
            _un("class %s not found exactly once" % cname)
        c = mod.classes[cname]
        if c.other or mname not in c.methods:
            _un("%s.%s not found / class has statements that are not read" % (cname, mname))
        fn = c.methods[mname]
        if not M._plain_lazy(fn):
            _un("%s.%s is not a plain @lazyproperty" % (cname, mname), fn)
        if alias is not None:
            imp = mod.imported()
            if imp.get(alias) != ("cr.cube.enums", ename) or _rebound(mod.mod, {alias}):
                _un("the name %s is not (only) the import of enums.%s" % (alias, ename))
        dicts = [n for n in ast.walk(fn) if isinstance(n, ast.Dict)]
        if len(dicts) != 1:
            _un("%s.%s does not contain exactly one dict display" % (cname, mname), fn)
        pairs = _str_dict(dicts[0], alias)
        if pairs is None:
            _un("%s.%s: the dict display is not {<keyword>: \"<property>\"}" % (cname, mname), dicts[0])
        self._pos = (dicts[0].lineno, dicts[0].col_offset)
        if alias is None:
            return [(k[1], v) for k, v in pairs]
        members = self.enums.get(ename)
        if members is None:
            _un("enums.%s was not read" % ename)
        md = dict(members)
        out = []
        for k, v in pairs:
            if k[0] != "m" or k[1] not in md:
                _un("%s.%s: key %r is not a member of %s" % (cname, mname, k[1], ename), dicts[0])
            out.append((md[k[1]], v))
        return out


TABLE_DEFS = (
    # (Coq name, kind, key, comment)
    ("tbl_COLLATION_METHOD", "enum", "COLLATION_METHOD", "enums.COLLATION_METHOD: (MEMBER, value) in source order"),
    ("tbl_MEASURE", "enum", "MEASURE", "enums.MEASURE: (MEMBER, value) in source order"),
    ("tbl_MARGINAL", "enum", "MARGINAL", "enums.MARGINAL: (MEMBER, value) in source order"),
    ("tbl_matrix_sort_measures", "table", "matrix",
     "matrix/assembler.py _BaseOrderHelper._measure, propname_by_measure: (MEASURE value, property) in "
     "source order (a repeated key: the last binding is the one a dict display keeps)"),
    ("tbl_marginal_sort_marginals", "table", "marginal",
     "matrix/assembler.py _SortRowsByMarginalHelper._marginal: (MARGINAL value, property)"),
    ("tbl_strand_sort_measures", "table", "strand",
     "stripe/assembler.py _SortByMeasureHelper._measure: (keyname, property)"),
)

TBL_HEADER = """(* GENERATED by harness/translate/x_assemble.py from %s
   -- do not edit; rewritten (only when its text changes) on every check.
   The enumerations the order helpers dispatch on and their keyword -> property tables, as association
   lists in source order; [None] = the translator could not read it. *)
From Coq Require Import List String.
Import ListNotations.
Local Open Scope string_scope.

"""


def _gen_tables(tb, report):
    L = []
    for ident, kind, key, comment in TABLE_DEFS:
        val = tb.enums.get(key) if kind == "enum" else tb.tables.get(key)
        what = "%s" % (("enums.%s" % key) if kind == "enum" else ("sort-table %s" % key))
        L.append("(* %s *)" % comment)
        if val is None:
            reason = tb.errors.get(("enum_" if kind == "enum" else "table_") + key, "not read")
            report["unavailable"].append({"method": "assembler-tables:%s" % what, "reason": reason})
            L.append("(* %s not read: %s *)" % (what, T._coq_comment(reason)))
            term = "None"
        else:
            report["methods_translated"].append("assembler-tables:%s" % what)
            term = "Some %s" % T.coq_list(["(%s, %s)" % (q(a), q(b)) for a, b in val])
        L.append("Definition %s : option (list (string * string)) := %s." % (ident, term))
        L.append("")
    return TBL_HEADER % ("src/%s, src/%s, src/%s" % (A_ENUMS, A_MATRIX, A_STRIPE)) + "\n".join(L) + "\n"


def read_tables(repo_src):
    """for harness/props/c08.py: {"measure_enum": [values] | None, "marginal_enum": ..,
    "matrix": {keyword: property} | None, "marginal": .., "strand": ..}"""
    texts = {}
    for rel in (A_MATRIX, A_STRIPE, A_ENUMS):
        try:
            with open(os.path.join(repo_src, rel), encoding="utf-8") as f:
                texts[rel] = f.read()
        except (OSError, UnicodeDecodeError):
            texts[rel] = None
    try:
        tb = _Tables(texts[A_MATRIX], texts[A_STRIPE], texts[A_ENUMS])
    except Exception:  # noqa  (a source that does not parse: everything unreadable)
        return {"measure_enum": None, "marginal_enum": None, "matrix": None, "marginal": None, "strand": None}

    def vals(e):
        return None if e is None else [v for _, v in e]

    def dct(t):
        return None if t is None else dict(_python_dict(t))

    return {
        "measure_enum": vals(tb.enums.get("MEASURE")),
        "marginal_enum": vals(tb.enums.get("MARGINAL")),
        "matrix": dct(tb.tables.get("matrix")),
        "marginal": dct(tb.tables.get("marginal")),
        "strand": dct(tb.tables.get("strand")),
    }


# ------------------------------------------------------------------------------------
# matrix/assembler.py, stripe/assembler.py: the order helpers
# ------------------------------------------------------------------------------------


def p_xcond(c):
    k = c[0]
    if k == "XIsStr":
        return "XIsStr"
    if k == "XCmp":
        return "(XCmp %s (%d)%%Z)" % (c[1], c[2])
    if k == "XAnd":
        return "(XAnd %s %s)" % (p_xcond(c[1]), p_xcond(c[2]))
    if k == "XNot":
        return "(XNot %s)" % p_xcond(c[1])
    raise AssertionError(c)


_H_CODES = {"ValueError": "EValueError", "KeyError": "EKeyError", "TypeError": "ETypeError",
            "NotImplementedError": "ENotImplementedError", "IndexError": "EIndexError"}


def p_hexp(t):
    k = t[0]
    if k == "HVar":
        _un("a local escaped its scope")
    if k in ("HNone", "HFormat"):
        return k
    if k == "HBool":
        return "(HBool %s)" % ("true" if t[1] else "false")
    if k in ("HDim", "HInArrayTypes", "HPruneFlag", "HElementIds", "HInsertionIds", "HElementLabels",
             "HSubtotalLabels"):
        return "(%s %s)" % (k, t[1])
    if k in ("HMethodIs", "HSpec"):
        return "(%s %s %s)" % (k, t[1], q(t[2]))
    if k == "HTranslate":
        return "(HTranslate %s %s)" % (t[1], p_hexp(t[2]))
    if k == "HMeasuresAttr":
        return "(HMeasuresAttr %s)" % q(t[1])
    if k in ("HGetattr", "HBlocks", "HIsNone", "HNot", "HWhere0", "HPositionsEq0", "HTuple", "HArray"):
        return "(%s %s)" % (k, p_hexp(t[1]))
    if k == "HItem":
        return "(HItem %s %d)" % (p_hexp(t[1]), t[2])
    if k in ("HColumn", "HRow", "HIndexOf", "HLenEq", "HAnd"):
        return "(%s %s %s)" % (k, p_hexp(t[1]), p_hexp(t[2]))
    if k == "HTableGet":
        return "(HTableGet %s %s)" % (q(t[1]), p_hexp(t[2]))
    if k == "HRaiseE":
        return "(HRaiseE %s)" % t[1]
    if k == "HIf":
        return "(HIf %s %s %s)" % (p_hexp(t[1]), p_hexp(t[2]), p_hexp(t[3]))
    if k == "HFilter":
        return "(HFilter %s %s)" % (p_hexp(t[1]), p_xcond(t[2]))
    if k == "HTry":
        return "(HTry %s %s %s)" % (p_hexp(t[1]), t[2], p_hexp(t[3]))
    if k == "HCollate3":
        return "(HCollate3 %s %s)" % (t[1], " ".join(p_hexp(x) for x in t[2:]))
    if k == "HCollate5":
        return "(HCollate5 %s %s)" % (t[1], " ".join(p_hexp(x) for x in t[2:]))
    raise AssertionError(t)


_H_COLLATORS = {"ExplicitOrderCollator": "CExplicit", "PayloadOrderCollator": "CPayload",
                "SortByValueCollator": "CSortByValue"}
_H_RESERVED = ("self", "cls", "np", "len", "tuple", "enumerate", "isinstance", "getattr", "str", "int", "CM",
               "DT", "M", "MARGINAL", "ORDER_FORMAT", "lazyproperty", "ValueError", "NotImplementedError",
               "KeyError", "TypeError") + tuple(_H_COLLATORS)
# what a parameter of a factory / constructor IS, by name
_H_PARAMS = {
    "dimensions": ("dims",),
    "second_order_measures": ("measures",),
    "measures": ("measures",),
    "rows_dimension": ("dim", "DRows"),
    "format": ("format",),
}
_H_DIM_LISTS = {"element_ids": "HElementIds", "insertion_ids": "HInsertionIds",
                "element_labels": "HElementLabels", "subtotal_labels": "HSubtotalLabels"}
_H_SPEC_FIELDS = ("measure", "marginal", "element_id", "insertion_id", "measure_keyname", "marginal_keyname")


# -- evaluation order --------------------------------------------------------------------------
# Python evaluates `x = e` when the statement runs; the translator INLINES locals.  With exceptions that
# is only sound when the inlined term evaluates e at the very point the assignment would: the first
# thing the rest of the body evaluates (that can raise at all) must be x itself, on the unconditional
# path.  [_first_effect] follows the evaluation order of Base/OrderExp.v's [heval].

_H_PURE_LEAVES = ("HNone", "HBool", "HFormat", "HDim", "HMethodIs", "HInArrayTypes", "HPruneFlag",
                  "HElementIds", "HInsertionIds", "HElementLabels", "HSubtotalLabels")
_OWN = ("own",)


def _first_effect(t, target):
    """the first thing the evaluation of term t does that can raise: ("var", tok) for the placeholder
    `target`, _OWN for anything else, None when t is pure; placeholders other than `target` are values"""
    k = t[0]
    if k == "HVar":
        return ("var", t[1]) if t[1] == target else None
    if k in _H_PURE_LEAVES:
        return None
    if k in ("HSpec", "HMeasuresAttr", "HRaiseE"):
        return _OWN

    def seq(children, own):
        for c in children:
            r = _first_effect(c, target)
            if r is not None:
                return r
        return _OWN if own else None

    if k in ("HTranslate",):
        return seq([t[2]], False)
    if k in ("HGetattr", "HIsNone", "HNot", "HWhere0", "HPositionsEq0", "HTuple", "HArray"):
        return seq([t[1]], False)
    if k in ("HBlocks", "HItem"):
        return seq([t[1]], True)
    if k == "HFilter":
        return seq([t[1]], False)
    if k in ("HColumn", "HRow", "HIndexOf"):
        return seq([t[1], t[2]], True)
    if k == "HLenEq":
        return seq([t[1], t[2]], False)
    if k == "HTableGet":
        return seq([t[2]], False)
    if k == "HAnd":
        r = _first_effect(t[1], target)
        if r is not None:
            return r
        return None if _first_effect(t[2], target) is None else _OWN
    if k == "HIf":
        r = _first_effect(t[1], target)
        if r is not None:
            return r
        a, b = _first_effect(t[2], target), _first_effect(t[3], target)
        if a is None and b is None:
            return None
        if a == b and a != _OWN:
            return a
        return _OWN
    if k == "HTry":
        return _first_effect(t[1], target)      # a pure body cannot raise: the handler is dead
    if k in ("HCollate3", "HCollate5"):
        return seq(list(t[2:]), True)
    raise AssertionError(t)


def _subst_var(t, tok, val):
    if isinstance(t, tuple):
        if t[:1] == ("HVar",) and t[1] == tok:
            return val
        return tuple(_subst_var(x, tok, val) for x in t)
    if isinstance(t, list):
        return [_subst_var(x, tok, val) for x in t]
    if isinstance(t, dict):
        return {k: _subst_var(v, tok, val) for k, v in t.items()}
    return t


def _mentions_var(t):
    if isinstance(t, tuple):
        return t[:1] == ("HVar",) or any(_mentions_var(x) for x in t)
    if isinstance(t, (list,)):
        return any(_mentions_var(x) for x in t)
    if isinstance(t, dict):
        return any(_mentions_var(v) for v in t.values())
    return False


class _H(object):
    """one assembler module (kind "matrix" / "stripe")"""

    def __init__(self, text, kind, table_where):
        self.kind = kind
        self.text = text
        self.m = M._Mod(text, A_MATRIX if kind == "matrix" else A_STRIPE)
        # (lineno, col_offset) -> table name, for the dict displays _Tables read in THIS module
        self.tables = {(w[1], w[2]): nm for nm, w in table_where.items() if w[0] == kind}
        self._ntok = 0
        self.problem = self._check_module()

    def _check_module(self):
        if not self.m.only_imports_and_classes():
            return "module-level statements other than imports and classes"
        imp = self.m.imported()
        want = {
            "np": ("numpy", None),
            "ExplicitOrderCollator": ("cr.cube.collator", "ExplicitOrderCollator"),
            "PayloadOrderCollator": ("cr.cube.collator", "PayloadOrderCollator"),
            "SortByValueCollator": ("cr.cube.collator", "SortByValueCollator"),
            "CM": ("cr.cube.enums", "COLLATION_METHOD"),
            "ORDER_FORMAT": ("cr.cube.enums", "ORDER_FORMAT"),
            "lazyproperty": ("cr.cube.util", "lazyproperty"),
        }
        if self.kind == "matrix":
            want.update({
                "DT": ("cr.cube.enums", "DIMENSION_TYPE"),
                "MARGINAL": ("cr.cube.enums", "MARGINAL"),
                "M": ("cr.cube.enums", "MEASURE"),
            })
        for nm, v in want.items():
            if imp.get(nm) != v:
                return "the name %s is not imported as expected" % nm
        for nm in imp:
            if nm not in want:
                return "unexpected import %s" % nm
        bad = _rebound(self.m.mod, set(want) | set(_H_RESERVED) - {"self", "cls"})
        if bad:
            return "the name(s) %s are rebound in the module" % ", ".join(sorted(bad))
        for c in self.m.classes:
            if c in _H_RESERVED:
                return "a class shadows the name %s" % c
        return None

    # -- construction ---------------------------------------------------------------------
    def init_fields(self, cname, vals, node=None):
        """bind the constructor arguments (abstract values, all passed positionally) to the fields the
        first __init__ on the MRO assigns (`self._x = <parameter>` only)"""
        chain = self.m.mro(cname)
        init = None
        for c in chain:
            if "__init__" in c.methods:
                init = c.methods["__init__"]
                break
        if init is None:
            _un("%s: no __init__" % cname, node)
        a = init.args
        params = [x.arg for x in a.args]
        if (
            not params or params[0] != "self" or a.vararg or a.kwarg or a.kwonlyargs or a.posonlyargs
            or init.decorator_list or len(set(params)) != len(params)
        ):
            _un("%s.__init__: signature not read" % cname, init)
        if len(params) - 1 != len(vals):
            _un("%s.__init__: not every parameter is passed positionally" % cname, node or init)
        env = dict(zip(params[1:], vals))
        fields = {}
        for st in T._strip_doc(init.body):
            if (
                isinstance(st, ast.Assign) and len(st.targets) == 1
                and isinstance(st.targets[0], ast.Attribute) and T._is_name(st.targets[0].value, "self")
                and isinstance(st.value, ast.Name) and st.value.id in env
                and st.targets[0].attr not in fields
            ):
                fields[st.targets[0].attr] = env[st.value.id]
            else:
                _un("%s.__init__: statement not read" % cname, st)
        for c in chain:
            for mname, fn in c.methods.items():
                if mname == "__init__":
                    continue
                for n in ast.walk(fn):
                    if (
                        isinstance(n, ast.Attribute) and isinstance(n.ctx, (ast.Store, ast.Del))
                        and T._is_name(n.value, "self")
                    ):
                        _un("%s.%s assigns an attribute of self" % (c.name, mname), n)
        for f in fields:
            if self.m.resolve(cname, f) is not None:
                _un("%s: the field %s is also a class attribute" % (cname, f))
        return fields

    def std_instance(self, cname):
        if self.problem:
            _un(self.problem)
        if self.kind == "matrix":
            vals = [("dims",), ("measures",), ("format",)]
        else:
            vals = [("dim", "DRows"), ("measures",), ("format",)]
        return ("inst", cname, self.init_fields(cname, vals))

    def class_member(self, cname, mname):
        inst = self.std_instance(cname)
        return self.h(self.inst_member(inst, mname, ()), None)

    def inst_member(self, inst, mname, stack, node=None):
        cname, fields = inst[1], inst[2]
        if mname in fields:
            return fields[mname]
        fn = self.m.resolve(cname, mname)
        if fn is None or not M._plain_lazy(fn):
            _un("%s.%s is not a field or a plain @lazyproperty" % (cname, mname), node)
        key = (cname, mname)
        if key in stack:
            _un("%s.%s refers to itself" % key, node)
        ctx = {"inst": inst, "env": {}, "stack": stack + (key,), "loop": None}
        return self.body(T._strip_doc(fn.body), ctx, fn)

    def factory(self, cname, mname):
        """a classmethod factory -> hexp (the class-valued conditional pushed into the member read)"""
        if self.problem:
            _un(self.problem)
        fn = self.m.resolve(cname, mname)
        if fn is None:
            _un("%s has no classmethod %s" % (cname, mname))
        a = fn.args
        if not (len(fn.decorator_list) == 1 and T._is_name(fn.decorator_list[0], "classmethod")):
            _un("%s.%s is not a plain @classmethod" % (cname, mname), fn)
        params = [x.arg for x in a.args]
        if (
            not params or params[0] != "cls" or a.vararg or a.kwarg or a.kwonlyargs or a.posonlyargs
            or a.defaults or len(set(params)) != len(params)
        ):
            _un("%s.%s: signature not read" % (cname, mname), fn)
        env = {}
        for p_ in params[1:]:
            if p_ not in _H_PARAMS:
                _un("%s.%s: parameter %s is not one the sub-language knows" % (cname, mname, p_), fn)
            env[p_] = _H_PARAMS[p_]
        ctx = {"inst": None, "env": env, "stack": ((cname, mname),), "loop": None}
        return self.h(self.body(T._strip_doc(fn.body), ctx, fn), fn)

    # -- purity -------------------------------------------------------------------------------
    def value_pure(self, v):
        """the abstract value cannot raise when it is evaluated"""
        k = v[0]
        if k == "h":
            return _first_effect(v[1], None) is None and not _mentions_var(v[1])
        if k == "len":
            return _first_effect(v[1], None) is None and not _mentions_var(v[1])
        if k in ("clsif", "instif"):
            return (_first_effect(v[1], None) is None and not _mentions_var(v[1])
                    and self.value_pure(v[2]) and self.value_pure(v[3]))
        if k in ("indexof", "collfn", "tableget"):
            return False
        return not _mentions_var(v)

    # -- coercions ----------------------------------------------------------------------------
    def h(self, v, node):
        k = v[0]
        if k == "h":
            return v[1]
        if k == "none":
            return ("HNone",)
        if k == "bool":
            return ("HBool", v[1])
        if k == "format":
            return ("HFormat",)
        if k == "dim":
            return ("HDim", v[1])
        _un("not a value of the sub-language (%s)" % k, node)

    # -- statements ---------------------------------------------------------------------------
    def body(self, stmts, ctx, where):
        if not stmts:
            _un("no `return <expr>` on this path", where)
        st, rest = stmts[0], stmts[1:]
        if isinstance(st, ast.Return):
            if st.value is None:
                _un("bare return", st)
            return self.expr(st.value, ctx)
        if isinstance(st, ast.Raise):
            return ("h", ("HRaiseE", self.exc_code(st, ctx)))
        if (
            isinstance(st, ast.Assign) and len(st.targets) == 1
            and isinstance(st.targets[0], ast.Name) and st.targets[0].id not in _H_RESERVED
        ):
            env = dict(ctx["env"])
            val = self.expr(st.value, ctx)
            if self.value_pure(val):
                env[st.targets[0].id] = val
                return self.body(rest, dict(ctx, env=env), where)
            # a local whose value can raise: sound to inline only where it is evaluated first
            if val[0] != "h":
                _un("a local bound to something that can raise and is not a plain value", st)
            self._ntok += 1
            tok = "%s#%d" % (st.targets[0].id, self._ntok)
            env[st.targets[0].id] = ("h", ("HVar", tok))
            out = self.body(rest, dict(ctx, env=env), where)
            if out[0] != "h":
                _un("the body after the assignment of %s is not a plain value" % st.targets[0].id, st)
            if _first_effect(out[1], tok) != ("var", tok):
                _un("the local %s is not the first thing evaluated after its assignment (inlining it "
                    "would change which exception wins)" % st.targets[0].id, st)
            return ("h", _subst_var(out[1], tok, val[1]))
        if isinstance(st, ast.Expr) and isinstance(st.value, ast.Constant) and isinstance(st.value.value, str):
            return self.body(rest, ctx, where)
        if isinstance(st, ast.If):
            c = self.h(self.expr(st.test, ctx), st.test)
            a = self.body(list(st.body), ctx, st)
            if st.orelse:
                if rest:
                    _un("statements after an if / else", rest[0])
                b = self.body(list(st.orelse), ctx, st)
            else:
                b = self.body(list(rest), ctx, where)
            return ("h", ("HIf", c, self.h(a, st), self.h(b, st)))
        if isinstance(st, ast.Try):
            if (
                rest or st.orelse or st.finalbody or len(st.handlers) != 1
                or st.handlers[0].name is not None or not isinstance(st.handlers[0].type, ast.Name)
                or st.handlers[0].type.id not in _H_CODES or st.handlers[0].type.id in ctx["env"]
            ):
                _un("try statement outside the sub-language", st)
            a = self.body(list(st.body), ctx, st)
            b = self.body(list(st.handlers[0].body), ctx, st)
            return ("h", ("HTry", self.h(a, st), _H_CODES[st.handlers[0].type.id], self.h(b, st)))
        _un("statement not read", st)

    def exc_code(self, st, ctx):
        e = st.exc
        if st.cause is not None or e is None:
            _un("raise form not read", st)
        if isinstance(e, ast.Call):
            e = e.func
        if isinstance(e, ast.Name) and e.id in _H_CODES and e.id not in ctx["env"]:
            return _H_CODES[e.id]
        _un("raise of something other than a builtin exception of the sub-language", st)

    # -- expressions --------------------------------------------------------------------------
    def expr(self, e, ctx):
        env = ctx["env"]
        if isinstance(e, ast.Constant):
            if e.value is None:
                return ("none",)
            if type(e.value) is bool:
                return ("bool", e.value)
            if type(e.value) is int:
                return ("int", e.value)
            _un("literal outside the sub-language", e)
        if isinstance(e, ast.Name):
            if e.id in env:
                return env[e.id]
            if e.id == "self" and ctx["inst"] is not None:
                return ctx["inst"]
            if e.id in _H_COLLATORS:
                return ("coll", _H_COLLATORS[e.id])
            if e.id in self.m.classes and e.id not in self.m.dup:
                return ("cls", e.id)
            if e.id in ("int", "str"):
                return ("pytype", e.id)
            _un("name not bound in the method", e)
        if isinstance(e, ast.Attribute):
            return self.attribute(e, ctx)
        if isinstance(e, ast.Subscript):
            return self.subscript(e, ctx)
        if isinstance(e, ast.Compare):
            return self.compare(e, ctx)
        if isinstance(e, ast.UnaryOp) and isinstance(e.op, ast.Not):
            v = self.expr(e.operand, ctx)
            if v[0] == "x":
                return ("x", ("XNot", v[1]))
            return ("h", ("HNot", self.h(v, e.operand)))
        if isinstance(e, ast.UnaryOp) and isinstance(e.op, ast.USub):
            v = self.expr(e.operand, ctx)
            if v[0] == "int":
                return ("int", -v[1])
            _un("negation of something other than an int literal", e)
        if isinstance(e, ast.BoolOp) and isinstance(e.op, ast.And):
            vs = [self.expr(x, ctx) for x in e.values]
            if all(v[0] == "x" for v in vs):
                out = vs[0][1]
                for v in vs[1:]:
                    out = ("XAnd", out, v[1])
                return ("x", out)
            hs = [self.h(v, x) for v, x in zip(vs, e.values)]
            out = hs[0]
            for t in hs[1:]:
                out = ("HAnd", out, t)
            return ("h", out)
        if isinstance(e, ast.IfExp):
            c = self.expr(e.test, ctx)
            a, b = self.expr(e.body, ctx), self.expr(e.orelse, ctx)
            if c[0] == "fmtcmp":
                if {a[0], b[0]} <= {"none", "pytype"}:
                    return ("dtype",)
                _un("a conditional on the format other than the dtype", e)
            ch = self.h(c, e.test)
            if a[0] in ("cls", "coll", "clsif") and b[0] in ("cls", "coll", "clsif"):
                return ("clsif", ch, a, b)
            return ("h", ("HIf", ch, self.h(a, e.body), self.h(b, e.orelse)))
        if isinstance(e, ast.Dict):
            nm = self.tables.get((e.lineno, e.col_offset))
            if nm is None:
                _un("a dict display that is not one of the keyword tables", e)
            return ("table", nm)
        if isinstance(e, (ast.ListComp, ast.GeneratorExp)):
            return self.comprehension(e, ctx)
        if isinstance(e, ast.Call):
            return self.call(e, ctx)
        _un("expression outside the sub-language", e)

    def compare(self, e, ctx):
        if len(e.ops) != 1:
            _un("chained comparison", e)
        op, l, r = e.ops[0], self.expr(e.left, ctx), self.expr(e.comparators[0], ctx)
        if l[0] == "method" and r[0] == "cm" and isinstance(op, ast.Eq):
            return ("h", ("HMethodIs", l[1], r[1]))
        if l[0] == "method" and r[0] == "cm" and isinstance(op, ast.NotEq):
            return ("h", ("HNot", ("HMethodIs", l[1], r[1])))
        if l[0] == "dimtype" and r == ("dtset", "ARRAY_TYPES") and isinstance(op, ast.In):
            return ("h", ("HInArrayTypes", l[1]))
        if l[0] == "len" and r[0] == "len" and isinstance(op, ast.Eq):
            return ("h", ("HLenEq", l[1], r[1]))
        if isinstance(op, ast.Is) and r[0] == "none":
            return ("h", ("HIsNone", self.h(l, e.left)))
        if isinstance(op, ast.IsNot) and r[0] == "none":
            return ("h", ("HNot", ("HIsNone", self.h(l, e.left))))
        if l[0] == "format" and r[0] == "fmt" and isinstance(op, (ast.Eq, ast.NotEq)):
            return ("fmtcmp",)
        if l[0] == "loopvar" and r[0] == "int" and type(op) in _CMP:
            return ("x", ("XCmp", _CMP[type(op)], r[1]))
        _un("comparison outside the sub-language", e)

    def attribute(self, e, ctx):
        env = ctx["env"]
        if isinstance(e.value, ast.Name) and e.value.id not in env:
            nm = e.value.id
            if nm == "CM":
                return ("cm", e.attr)
            if nm == "DT":
                return ("dtset", e.attr)
            if nm == "ORDER_FORMAT":
                if e.attr in _FMT:
                    return ("fmt", _FMT[e.attr])
                _un("unknown ORDER_FORMAT member", e)
        base = self.expr(e.value, ctx)
        k = base[0]
        if k == "inst":
            return self.inst_member(base, e.attr, ctx["stack"], e)
        if k == "instif":
            a = self.attr_of(base[2], e, ctx)
            b = self.attr_of(base[3], e, ctx)
            return ("h", ("HIf", base[1], self.h(a, e), self.h(b, e)))
        if k == "dim":
            d = base[1]
            if e.attr == "order_spec":
                return ("spec", d)
            if e.attr in _H_DIM_LISTS:
                return ("h", (_H_DIM_LISTS[e.attr], d))
            if e.attr == "prune":
                return ("h", ("HPruneFlag", d))
            if e.attr == "dimension_type":
                return ("dimtype", d)
            if e.attr == "translate_element_id":
                return ("translate", d)
            _un("attribute of a dimension outside the sub-language", e)
        if k == "spec":
            if e.attr == "collation_method":
                return ("method", base[1])
            if e.attr in _H_SPEC_FIELDS:
                return ("h", ("HSpec", base[1], e.attr))
            _un("order_spec field outside the sub-language", e)
        if k == "measures":
            if e.attr.startswith("__"):
                _un("dunder attribute", e)
            return ("h", ("HMeasuresAttr", e.attr))
        if k == "h":
            if e.attr == "blocks":
                return ("h", ("HBlocks", base[1]))
            if e.attr == "index":
                return ("indexof", base[1])
            _un("attribute outside the sub-language", e)
        if k == "table" and e.attr == "get":
            return ("tableget", base[1])
        if k in ("coll", "clsif") and e.attr == "display_order":
            return ("collfn", base)
        _un("attribute outside the sub-language", e)

    def attr_of(self, v, e, ctx):
        if v[0] == "inst":
            return self.inst_member(v, e.attr, ctx["stack"], e)
        if v[0] == "instif":
            a = self.attr_of(v[2], e, ctx)
            b = self.attr_of(v[3], e, ctx)
            return ("h", ("HIf", v[1], self.h(a, e), self.h(b, e)))
        _un("attribute of a conditional outside the sub-language", e)

    def subscript(self, e, ctx):
        sl = e.slice
        # np.where(x)[0]
        if (
            isinstance(e.value, ast.Call) and T._is_attr(e.value.func, "np", "where") and "np" not in ctx["env"]
            and T._nat(sl) == 0
        ):
            c = e.value
            if len(c.args) != 1 or c.keywords:
                _un("np.where arguments", e)
            return ("h", ("HWhere0", self.h(self.expr(c.args[0], ctx), c.args[0])))
        base = self.expr(e.value, ctx)
        if base[0] == "dims":
            k = T._nat(sl)
            if self.kind == "matrix" and k in (0, 1):
                return ("dim", "DRows" if k == 0 else "DCols")
            _un("dimension index other than 0 / 1", e)
        t = self.h(base, e.value)
        if isinstance(sl, ast.Tuple) and len(sl.elts) == 2:
            a, b = sl.elts
            if _full_slice(a) and not isinstance(b, ast.Slice):
                return ("h", ("HColumn", t, self.h(self.expr(b, ctx), b)))
            if _full_slice(b) and not isinstance(a, ast.Slice):
                return ("h", ("HRow", t, self.h(self.expr(a, ctx), a)))
            _un("indexing outside the sub-language", e)
        k = T._nat(sl)
        if k is not None:
            return ("h", ("HItem", t, k))
        _un("subscript outside the sub-language", e)

    def comprehension(self, e, ctx):
        if len(e.generators) != 1 or getattr(e.generators[0], "is_async", 0):
            _un("comprehension with several loops", e)
        g = e.generators[0]
        if ctx["loop"] is not None:
            _un("nested comprehensions", e)
        # (i for i, N in enumerate(<v>) if N == 0)
        if isinstance(g.iter, ast.Call) and T._is_name(g.iter.func, "enumerate") and "enumerate" not in ctx["env"]:
            tg = g.target
            if not (
                len(g.iter.args) == 1 and not g.iter.keywords
                and isinstance(tg, ast.Tuple) and len(tg.elts) == 2
                and all(isinstance(x, ast.Name) and x.id not in _H_RESERVED for x in tg.elts)
                and tg.elts[0].id != tg.elts[1].id
                and isinstance(e.elt, ast.Name) and e.elt.id == tg.elts[0].id and len(g.ifs) == 1
            ):
                _un("enumerate comprehension outside the sub-language", e)
            c = g.ifs[0]
            if not (
                isinstance(c, ast.Compare) and len(c.ops) == 1 and isinstance(c.ops[0], ast.Eq)
                and T._is_name(c.left, tg.elts[1].id) and T._nat(c.comparators[0]) == 0
            ):
                _un("condition of the enumerate comprehension is not `<value> == 0`", c)
            src = self.h(self.expr(g.iter.args[0], ctx), g.iter.args[0])
            return ("h", ("HPositionsEq0", src))
        # [x for x in <order> if <cond on x>]
        if not (
            isinstance(e, ast.ListComp) and isinstance(g.target, ast.Name) and g.target.id not in _H_RESERVED
            and T._is_name(e.elt, g.target.id) and len(g.ifs) == 1
        ):
            _un("comprehension outside the sub-language", e)
        src = self.h(self.expr(g.iter, ctx), g.iter)
        env = dict(ctx["env"])
        env[g.target.id] = ("loopvar",)
        c = self.expr(g.ifs[0], dict(ctx, env=env, loop=g.target.id))
        if c[0] != "x":
            _un("condition of the comprehension outside the sub-language", g.ifs[0])
        return ("h", ("HFilter", src, c[1]))

    def call(self, e, ctx):
        f = e.func
        env = ctx["env"]
        if any(isinstance(a, ast.Starred) for a in e.args) or any(k.arg is None for k in e.keywords):
            _un("star arguments", e)
        if isinstance(f, ast.Name) and f.id not in env and f.id in ("len", "tuple", "isinstance", "getattr"):
            args = [self.expr(a, ctx) for a in e.args]
            if e.keywords:
                _un("%s keywords" % f.id, e)
            if f.id == "len" and len(args) == 1:
                return ("len", self.h(args[0], e))
            if f.id == "tuple" and len(args) == 1:
                return ("h", ("HTuple", self.h(args[0], e)))
            if f.id == "isinstance" and len(args) == 2 and args[0] == ("loopvar",) and args[1] == ("pytype", "str"):
                return ("x", ("XIsStr",))
            if f.id == "getattr" and len(args) == 2 and args[0] == ("measures",):
                return ("h", ("HGetattr", self.h(args[1], e)))
            _un("call of %s outside the sub-language" % f.id, e)
        if isinstance(f, ast.Attribute) and T._is_name(f.value, "np") and "np" not in env:
            if f.attr == "array":
                kws = {k.arg: self.expr(k.value, ctx) for k in e.keywords}
                if len(e.args) != 1 or set(kws) - {"dtype"}:
                    _un("np.array arguments", e)
                if "dtype" in kws and kws["dtype"][0] not in ("dtype", "pytype", "none"):
                    _un("np.array dtype outside the sub-language", e)
                return ("h", ("HArray", self.h(self.expr(e.args[0], ctx), e.args[0])))
            _un("np.%s outside the sub-language" % f.attr, e)
        fv = self.expr(f, ctx)
        args = [self.expr(a, ctx) for a in e.args]
        if fv[0] in ("cls", "clsif") and not e.keywords:
            return self.construct(fv, args, e)
        if e.keywords:
            _un("keyword arguments", e)
        if fv[0] == "indexof" and len(args) == 1:
            return ("h", ("HIndexOf", fv[1], self.h(args[0], e)))
        if fv[0] == "translate" and len(args) == 1:
            return ("h", ("HTranslate", fv[1], self.h(args[0], e)))
        if fv[0] == "tableget" and len(args) == 1:
            return ("h", ("HTableGet", fv[1], self.h(args[0], e)))
        if fv[0] == "collfn":
            return self.collate(fv[1], [self.h(a, e) for a in args], e)
        _un("call outside the sub-language", e)

    def construct(self, cv, args, node):
        if cv[0] == "cls":
            return ("inst", cv[1], self.init_fields(cv[1], args, node))
        if cv[0] == "clsif":
            return ("instif", cv[1], self.construct(cv[2], args, node), self.construct(cv[3], args, node))
        _un("construction of something other than a helper class", node)

    def collate(self, cv, hargs, node):
        if cv[0] == "coll":
            if cv[1] == "CSortByValue" and len(hargs) == 5:
                return ("h", ("HCollate5", cv[1]) + tuple(hargs))
            if cv[1] in ("CPayload", "CExplicit") and len(hargs) == 3:
                return ("h", ("HCollate3", cv[1]) + tuple(hargs))
            _un("collator call arity", node)
        if cv[0] == "clsif":
            a = self.collate(cv[2], hargs, node)
            b = self.collate(cv[3], hargs, node)
            return ("h", ("HIf", cv[1], a[1], b[1]))
        _un("display_order of something other than a collator", node)


def _full_slice(n):
    return isinstance(n, ast.Slice) and n.lower is None and n.upper is None and n.step is None


HELPER_TARGETS = (
    # (module kind, prefix, [concrete helper classes], [(factory class, factory method)])
    ("matrix", "ord_matrix_",
     ("_ColumnOrderHelper", "_RowOrderHelper", "_SortColumnsByLabelHelper", "_SortColumnsByBaseRowHelper",
      "_SortColumnsByInsertedRowHelper", "_SortRowsByBaseColumnHelper", "_SortRowsByDerivedColumnHelper",
      "_SortRowsByInsertedColumnHelper", "_SortRowsByLabelHelper", "_SortRowsByMarginalHelper"),
     (("_BaseOrderHelper", "row_display_order"), ("_BaseOrderHelper", "column_display_order"))),
    ("stripe", "ord_stripe_",
     ("_OrderHelper", "_SortByLabelHelper", "_SortByMeasureHelper"),
     (("_BaseOrderHelper", "display_order"),)),
)

ORD_HEADER = """(* GENERATED by harness/translate/x_assemble.py from %s
   -- do not edit; rewritten (only when its text changes) on every check.
   One definition per concrete order-helper class (its `_display_order`, inheritance flattened, lazy
   properties inlined) and one per factory classmethod (the class-valued conditional pushed into the
   `_display_order` of the classes it picks): [Some <hexp>] = what the source says, read through the
   whitelist of the translator (Base/OrderExp.v gives the meaning); [None] = not read. *)
From Coq Require Import List String ZArith.
From CC Require Import Base.AsmExp Base.OrderExp.
Import ListNotations.
Local Open Scope string_scope.

"""


def _gen_helpers(matrix_text, stripe_text, tb, report):
    L = []
    for kind, prefix, classes, factories in HELPER_TARGETS:
        text = matrix_text if kind == "matrix" else stripe_text
        modname = "%s-assembler" % kind
        L.append("(** * %s/assembler.py *)" % kind)
        try:
            tr = _H(text, kind, tb.where)
            broken = None
        except (SyntaxError, TypeError, Unavailable) as ex:
            tr, broken = None, ex
        jobs = [("%s._display_order" % c, "%s%s__display_order" % (prefix, c),
                 (lambda c=c: tr.class_member(c, "_display_order"))) for c in classes]
        jobs += [("%s.%s" % (c, m), "%s%s" % (prefix, m), (lambda c=c, m=m: tr.factory(c, m)))
                 for c, m in factories]
        for what, ident, job in jobs:
            try:
                if broken is not None:
                    _un("module not read: %s" % broken)
                term = "Some %s" % p_hexp(job())
                report["methods_translated"].append("%s:%s" % (modname, what))
            except Unavailable as ex:
                term = "None"
                report["unavailable"].append({"method": "%s:%s" % (modname, what), "reason": str(ex)})
                L.append("(* %s not read: %s *)" % (what, T._coq_comment(str(ex))))
            L.append("Definition %s : option hexp := %s." % (ident, term))
        L.append("")
    return ORD_HEADER % ("src/%s, src/%s" % (A_MATRIX, A_STRIPE)) + "\n".join(L) + "\n"


# ------------------------------------------------------------------------------------
# entry point
# ------------------------------------------------------------------------------------


def _fallback(header, what, ex):
    return header % what + "(* translator failed: %s *)\n" % T._coq_comment(repr(ex))


def regenerate(repo_src, gen_dir, report):
    """Adds Gen/AssembleSrc.v, Gen/OrderHelperSrc.v, Gen/SortTablesSrc.v; extends `report`."""
    report["x_assemble_version"] = VERSION
    texts = {}
    for rel in (A_CUBEPART, A_MATRIX, A_STRIPE, A_ENUMS):
        p = os.path.join(repo_src, rel)
        try:
            with open(p, encoding="utf-8") as f:
                texts[rel] = f.read()
            report["files"]["src/" + rel] = T._sha(texts[rel])
        except (OSError, UnicodeDecodeError) as ex:
            texts[rel] = None
            report["files"].setdefault("src/" + rel, None)
            report["errors"].append("cannot read %s: %r" % (rel, ex))

    def tables():
        return _Tables(texts[A_MATRIX], texts[A_STRIPE], texts[A_ENUMS])

    jobs = (
        ("AssembleSrc.v", lambda: _gen_assemble(texts[A_CUBEPART], report), ASM_HEADER, "src/" + A_CUBEPART),
        ("SortTablesSrc.v", lambda: _gen_tables(tables(), report), TBL_HEADER, "src/" + A_ENUMS),
        ("OrderHelperSrc.v", lambda: _gen_helpers(texts[A_MATRIX], texts[A_STRIPE], tables(), report),
         ORD_HEADER, "src/" + A_MATRIX),
    )
    outs = {}
    for name, job, header, what in jobs:
        try:
            outs[name] = job()
        except Exception as ex:  # SyntaxError of the source, missing file, a bug of ours
            report["errors"].append("%s: %r" % (name, ex))
            outs[name] = _fallback(header, what, ex)
    os.makedirs(gen_dir, exist_ok=True)
    for name, text in sorted(outs.items()):
        changed = T._write_if_changed(os.path.join(gen_dir, name), text)
        report["gen_files"]["Gen/" + name] = {"sha256": T._sha(text), "rewritten": changed}
    return report


if __name__ == "__main__":  # manual run: python -m harness.translate.x_assemble <repo_src> <gen_dir>
    import json
    import sys

    rep = {"files": {}, "errors": [], "gen_files": {}, "methods_translated": [], "unavailable": []}
    regenerate(sys.argv[1], sys.argv[2], rep)
    json.dump(rep, sys.stdout, indent=1)
